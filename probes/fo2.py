import warnings; warnings.filterwarnings("ignore")
import numpy as np, z3, sys, time, math, types, traceback
from symreal2 import *
import onp2
exec(open("fo1.py").read().split("span = ")[0].split("import irispie as ir")[1].join(["import irispie as ir", ""]) if False else "")
import irispie as ir
src = open("fo1.py").read().split('src = r"""')[1].split('"""')[0]
m = ir.Simultaneous.from_string(src, linear=True)
m.assign(a=0.5, b=0.1, c=0.6, d=0.05)
m.solve()
span = ir.qq(2020,1)>>ir.qq(2020,4)
db = ir.Databox()
db["ex"] = ir.Series(periods=span, values=(1.0, 0, 0, 0.5))
db["ep"] = ir.Series(periods=span, values=(0.0, 0, 0.3, 0))
for n in ("x","p","r"): db[n] = ir.Series(periods=(ir.qq(2019,4),), values=(0.2,))
from irispie.fords import simulators as fs, shock_simulators as fss
import irispie.dataslates.main as dm, irispie.dataslates._variants as dv
onp2.install(fs, fss, dm, dv)
captured = {}
real = fs.simulate_frame
def lifted(model_v, frame_ds, **kw):
    v = frame_ds._variants[0]
    data = v.data
    obj = np.empty(data.shape, dtype=object); names = frame_ds.names
    for i in range(data.shape[0]):
        for j in range(data.shape[1]):
            obj[i,j] = float('nan') if math.isnan(data[i,j]) else sym(f"{names[i]}__{j}")
    v.data = obj
    captured["in"] = obj.copy(); captured["names"] = names; captured["float_in"] = data.copy()
    try:
        out = real(model_v, frame_ds, **kw)
    except Exception as e:
        tb = traceback.extract_tb(e.__traceback__)
        print("FAIL", type(e).__name__, str(e)[:200], [(t.filename.split('/')[-1], t.lineno) for t in tb[-4:]])
        raise
    captured["out"] = v.data.copy()
    # concretise: evaluate symbolic outputs under the float inputs to restore float array
    v.data = data
    return out
fs.simulate_frame = lifted
try:
    m.simulate(db, span, method="first_order", deviation=True)
except Exception as e:
    print("outer", type(e).__name__, str(e)[:300])
if "out" in captured:
    for i,n in enumerate(captured["names"]):
        print(n, [str(v).replace("\n"," ")[:70] for v in captured["out"][i]])
