import warnings; warnings.filterwarnings("ignore")
import numpy as np, z3, sys, time, math, types, traceback, io, contextlib
from symreal2 import *
import onp2
import irispie as ir
from irispie.equators import plain as pl
onp2.install(pl)
def terms(src, **kw):
    m = ir.Simultaneous.from_string(src, **kw)
    inv = m._invariant
    names = m.get_names()
    eqr = inv._plain_dynamic_equator
    nq = len(inv.quantities); ncol = 9; t0 = 4
    name_of = {q.id: q.human for q in inv.quantities}
    data = np.empty((nq, ncol), dtype=object)
    for i in range(nq):
        for j in range(ncol): data[i,j] = sym(f"{name_of[i]}@{j-t0}")
    out = eqr.eval(data, t0)
    return [o for o in out], [e.human for e in inv.dynamic_equations]
base = """
!transition-variables x, y
!transition-shocks e
!parameters a
!transition-equations
    %s;
    y = a*y[-1] + e;
"""
variants = {
 "explicit": "x = (x[-1]) + ((y) - (y[-2]))*a",
 "diff":     "x = x[-1] + diff(y, -2)*a",
 "curly":    "x = x{-1} + diff(y, -2)*a",
 "assign":   "x := x{-1} + diff(y,-2)*a",
 "shift":    "x = shift(x) + (y - shift(y, -2))*a",
 "movsum":   "x = x[-1] + (mov_sum(y,-3) - mov_sum(y[-1],-3) + y[-1] - y[-2] - (y[-1]-y[-1]))*a" ,
 "pct":      "x = x[-1] + (pct(y,-2)/100*y[-2])*a",
 "nested":   "x = x[-1] + (diff(diff(y)) + diff(y[-1]))*a + (y[-1]-y[-2]) *a - diff(y[-1])*a + 0*y",
 "power":    "x = x[-1] + ((y^2 - y[-2]^2)/(y + y[-2]))*a",
}
ref = None
for k, eq in variants.items():
    try:
        with contextlib.redirect_stdout(io.StringIO()):
            t, h = terms(base % eq, linear=False)
        if ref is None: ref = t[0]
        s = z3.Solver(); s.set("timeout", 20000)
        for v in ("y@0","y@-1","y@-2","y@-3"): s.add(z3.Real(v) > 0)
        s.add(z3.Real("y@0") + z3.Real("y@-2") != 0)
        s.add(t[0].t != ref.t); r = s.check()
        print(f"{k:9s} {str(r):7s} {str(t[0]).replace(chr(10),' ')[:110]}")
    except Exception as e:
        print(f"{k:9s} RAISES {type(e).__name__}: {str(e)[:150]}")
