import warnings; warnings.filterwarnings("ignore")
import numpy as np, z3, traceback, sys, math
from symreal2 import *
import symreal2
symreal2.SR.__float__ = lambda s: (_ for _ in ()).throw(RuntimeError("float() on symbolic"))
symreal2.SR.__bool__ = lambda s: (_ for _ in ()).throw(RuntimeError("bool() on symbolic"))
import onp2
import irispie as ir
import irispie.series.main
mods = [m for n, m in sys.modules.items() if n.startswith("irispie.series") or n in ("irispie.has_variants",)]
onp2.install(*mods)
def S(start, name, n, miss=()):
    a = np.empty((n,1), dtype=object)
    for i in range(n): a[i,0] = float('nan') if i in miss else sym(f"{name}{i}")
    x = ir.Series.from_start_and_array(start, a); x.data_type = object; return x
def show(x): return (str(x.start), [str(v).replace("\n"," ")[:46] for v in x.data[:,0]]) if hasattr(x,"data") else x
x = S(ir.qq(2020,1), "x", 6, miss=(2,)); y = S(ir.qq(2020,3), "y", 4)
mth = S(ir.mm(2020,2), "m", 8)
tests = {
 "x+y": lambda: x + y, "x*2-y": lambda: x*2 - y,
 "diff": lambda: ir.diff(x), "pct(-2)": lambda: ir.pct(x, -2), "roc yoy": lambda: ir.roc(S(ir.qq(2020,1),"z",6), "yoy"),
 "diff_log": lambda: ir.diff_log(y),
 "cum_pct": lambda: ir.cum_pct(ir.pct(y), -1, y),
 "cum_roc(-2)": lambda: ir.cum_roc(ir.roc(y,-2), -2, y),
 "cum_diff bwd": lambda: ir.cum_diff(ir.diff(y), -1, y, ir.Span(ir.qq(2021,1), ir.qq(2020,4), -1)),
 "agg sum m->q": lambda: ir.aggregate(mth, ir.Frequency.QUARTERLY, method="sum"),
 "agg last m->q": lambda: ir.aggregate(mth, ir.Frequency.QUARTERLY, method="last"),
 "agg sum discard": lambda: ir.aggregate(mth, ir.Frequency.QUARTERLY, method="sum", discard_missing=True),
 "agg mean": lambda: ir.aggregate(mth, ir.Frequency.QUARTERLY, method="mean"),
 "disagg first q->m": lambda: ir.disaggregate(y, ir.Frequency.MONTHLY, method="first"),
 "disagg arip": lambda: ir.disaggregate(y, ir.Frequency.MONTHLY, method="arip"),
 "setitem": lambda: (lambda z: (z.__setitem__(ir.qq(2019,3)>>ir.qq(2019,4), y(ir.qq(2020,3)>>ir.qq(2020,4))), z)[1])(x.copy()),
 "call": lambda: x(ir.qq(2019,4)>>ir.qq(2020,2)),
 "underlay": lambda: ir.underlay(x, y),
 "mov_sum": lambda: ir.mov_sum(y, -2), "mov_avg": lambda: ir.mov_avg(y, -2),
 "fill linear": lambda: ir.fill_missing(x, method="linear"),
 "hstack": lambda: ir.hstack(x, y) if hasattr(ir,"hstack") else x.hstack(y),
}
for name, f in tests.items():
    try: print(f"{name:18s} OK  ", show(f()))
    except Exception as e:
        tb = traceback.extract_tb(e.__traceback__)
        print(f"{name:18s} FAIL {type(e).__name__} {str(e)[:90]} at {[(t.filename.split('/')[-1], t.lineno) for t in tb[-2:]]}")
