import warnings; warnings.filterwarnings("ignore")
import time, numpy as np, z3
from symreal import *
from irispie.fords import kalmans, covariances
import sys
n, m, T = int(sys.argv[1]), int(sys.argv[2]), int(sys.argv[3])
# symbolic system, time-invariant
Tm = arr("T", n, n); P = arr("P", n, n); K = arr("K", n); Z = arr("Z", m, n); H = arr("H", m, m); D = arr("D", m)
su = arr("su", n); sw = arr("sw", m)
cov_u = np.empty((n,n),dtype=object); cov_u[:]=SR(z3.RealVal(0))
for i in range(n): cov_u[i,i]=su[i]*su[i]
cov_w = np.empty((m,m),dtype=object); cov_w[:]=SR(z3.RealVal(0))
for i in range(m): cov_w[i,i]=sw[i]*sw[i]
a_init = arr("a", n)
L0 = arr("L", n, n)
for i in range(n):
    for j in range(i+1,n): L0[i,j]=SR(z3.RealVal(0))
Q_init = L0 @ L0.T
Y = arr("y", m, T)
u0 = const(np.zeros(n)); w0 = const(np.zeros(m))
def gps(t): return Tm, P, K, Z, H, D, cov_u, cov_w, None, None
def gpd(t): return Y[:, t], u0, None, w0, np.ones(m, dtype=bool)
def sym_inv(F):
    k = F.shape[0]
    if k == 0: return F
    if k == 1:
        o = np.empty((1,1),dtype=object); o[0,0] = 1/F[0,0]; return o
    if k == 2:
        det = F[0,0]*F[1,1]-F[0,1]*F[1,0]
        o = np.empty((2,2),dtype=object)
        o[0,0]=F[1,1]/det; o[1,1]=F[0,0]/det; o[0,1]=-F[0,1]/det; o[1,0]=-F[1,0]/det
        return o
    raise NotImplementedError
kalmans._INVERSE_FUNCTION["regular"] = sym_inv
t0=time.time()
cache = kalmans.predict(num_periods=T, initials=(a_init, Q_init, None), partial_generate_period_system=gps, partial_generate_period_data=gpd, store_smooth=lambda **k: None)
print("predict ran", time.time()-t0)
# reference recursion
a, Q = a_init, Q_init
ok = True
s = z3.Solver()
for t in range(T):
    a0 = Tm @ a + K + P @ u0
    Q0 = Tm @ Q @ Tm.T + P @ cov_u @ P.T
    F = Z @ Q0 @ Z.T + H @ cov_w @ H.T
    Fi = sym_inv(F)
    pe = Y[:,t] - (Z @ a0 + D + H @ w0)
    G = Q0 @ Z.T @ Fi
    a = a0 + G @ pe
    Q = Q0 - G @ Z @ Q0
    # denominators nonzero
    if m==1: s.add(F[0,0].t > 0)
    else: s.add(F[0,0].t>0, (F[0,0]*F[1,1]-F[0,1]*F[1,0]).t>0)
    diffs = [cache.all_a0[t][i].t != a0[i].t for i in range(n)] + [cache.all_pe[t][i].t != pe[i].t for i in range(m)]
    t1=time.time()
    s.push(); s.add(z3.Or(diffs)); s.set("timeout", 120000); r = s.check(); s.pop()
    print("t", t, "a0/pe check:", r, round(time.time()-t1,2))
