import chfix
import warnings; warnings.filterwarnings("ignore")
from irispie import dates as D

def daily_roundtrip(serial: int) -> bool:
    """
    pre: 737425 <= serial < 737425 + 366*2
    post: _
    """
    p = D.DailyPeriod(serial)
    y, m, d = p.to_ymd()
    q = D.DailyPeriod.from_ymd(y, m, d)
    return q.serial == serial

def daily_to_monthly(serial: int) -> bool:
    """
    pre: 737425 <= serial < 737425 + 366*2
    post: _
    """
    p = D.DailyPeriod(serial)
    mth = p.refrequent(D.Frequency.MONTHLY)
    lo = mth.to_daily(position="start")
    hi = mth.to_daily(position="end")
    return lo.serial <= serial <= hi.serial

def monthly_tiling(serial: int) -> bool:
    """
    pre: 2019*12 <= serial < 2023*12
    post: _
    """
    p = D.MonthlyPeriod(serial)
    return p.to_daily(position="end").serial + 1 == (p+1).to_daily(position="start").serial
