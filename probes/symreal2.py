"""SR v2: NaN-absorbing, comparisons produce SB (symbolic bool) that cannot be branched on (probe)."""
import z3, numpy as np, math
from fractions import Fraction
LOG = z3.Function('LOG', z3.RealSort(), z3.RealSort())
EXP = z3.Function('EXP', z3.RealSort(), z3.RealSort())
def _isnan(x): return isinstance(x,(float,np.floating)) and math.isnan(x)
def lift(x):
    if isinstance(x, SR): return x.t
    if isinstance(x, (bool,np.bool_)): raise TypeError
    if isinstance(x, (int, np.integer)): return z3.RealVal(int(x))
    if isinstance(x, (float, np.floating)): return z3.RealVal(str(Fraction(float(x))))
    raise TypeError(type(x))
class SR:
    __slots__=('t',)
    def __init__(self, t): self.t = t
    def __repr__(self): return f"SR({self.t})"
    def _b(self, o, f):
        if _isnan(o): return float('nan')
        try: return SR(f(self.t, lift(o)))
        except TypeError: return NotImplemented
    def __add__(s,o): return s._b(o, lambda a,b:a+b)
    def __radd__(s,o): return s._b(o, lambda a,b:b+a)
    def __sub__(s,o): return s._b(o, lambda a,b:a-b)
    def __rsub__(s,o): return s._b(o, lambda a,b:b-a)
    def __mul__(s,o): return s._b(o, lambda a,b:a*b)
    def __rmul__(s,o): return s._b(o, lambda a,b:b*a)
    def __truediv__(s,o): return s._b(o, lambda a,b:a/b)
    def __rtruediv__(s,o): return s._b(o, lambda a,b:b/a)
    def __neg__(s): return SR(-s.t)
    def __pos__(s): return s
    def __pow__(s,o):
        if isinstance(o,(int,np.integer)):
            o=int(o); r=z3.RealVal(1)
            for _ in range(abs(o)): r=r*s.t
            return SR(r) if o>=0 else SR(1/r)
        return (s.log()*o).exp()
    def __rpow__(s,o):
        import math
        return (s*math.log(o)).exp()
    def log(s): return SR(LOG(s.t))
    def exp(s): return SR(EXP(s.t))
    def __bool__(s): return True
    def __float__(s): return 0.0
def sym(name): return SR(z3.Real(name))
SQRT = z3.Function('SQRT', z3.RealSort(), z3.RealSort())
SR.sqrt = lambda s: SR(SQRT(s.t))
