import warnings; warnings.filterwarnings("ignore")
import numpy as np, z3, time
from symreal2 import *
import onp2
from irispie.aldi import differentiators as ad
onp2.install(ad)
Atom = ad.Atom
def mk(name, logly=False):
    v = sym(name); d = sym("d"+name)
    return Atom.no_context(v, d, logly), v, d
def check(label, got, want, assumptions=()):
    s = z3.Solver(); s.set("timeout", 20000)
    for a in assumptions: s.add(a)
    s.add(got.t != want.t)
    t0=time.time(); r = s.check()
    print(f"{label:28s} {str(r):8s} {time.time()-t0:.2f}s", (s.model() if str(r)=="sat" else ""))
a, u, du = mk("u"); b, v, dv = mk("v")
ax = [SQRT(u.t)*SQRT(u.t) == u.t, SQRT(u.t) > 0, u.t > 0, SQRT(du.t)*SQRT(du.t) == du.t, SQRT(du.t) >= 0, du.t > 0]
check("sqrt (expected bug)", a.sqrt().diff, du/(2*u.sqrt()), ax)
check("mul mutated oracle", (a*b).diff, du*v-u*dv)
check("div mutated oracle", (a/b).diff, (du*v+u*dv)/(v*v), [v.t != 0])
check("pow atom exponent", (a**b).diff, (u**v if False else (u.log()*v).exp())*(dv*u.log() + v*du/u), [u.t>0])
