import warnings; warnings.filterwarnings("ignore")
import numpy as np, z3, traceback, sys, math, inspect
from symreal2 import *
import symreal2
symreal2.SR.__float__ = lambda s: (_ for _ in ()).throw(RuntimeError("float() on symbolic"))
symreal2.SR.__bool__ = lambda s: (_ for _ in ()).throw(RuntimeError("bool() on symbolic"))
import onp2
import irispie as ir
import irispie.series.main
from irispie.dataslates import main as dm, _variants as dv, _invariants as di
mods = [m for n, m in sys.modules.items() if n.startswith("irispie.series") or n in ("irispie.has_variants",)]
onp2.install(*mods, dm, dv, di)
def S(start, name, n, nv=1, miss=()):
    a = np.empty((n,nv), dtype=object)
    for i in range(n):
        for v in range(nv): a[i,v] = float('nan') if i in miss else sym(f"{name}{i}v{v}")
    x = ir.Series.from_start_and_array(start, a); x.data_type = object; return x
db = ir.Databox()
db["a"] = S(ir.qq(2020,1), "a", 5, miss=(1,)); db["b"] = S(ir.qq(2019,3), "b", 4, nv=2); db["c"] = 3.5
print(inspect.signature(ir.Dataslate.from_databox))
try:
    ds = ir.Dataslate.from_databox(db, ("a","b","c"), ir.qq(2019,4)>>ir.qq(2020,3), num_variants=2)
    for v in ds._variants:
        print("variant"); 
        for i,n in enumerate(ds.names): print("  ", n, [str(x)[:10] for x in v.data[i]])
    back = ds.to_databox()
    print("back a:", back["a"].start, [[str(x)[:8] for x in r] for r in back["a"].data])
except Exception as e:
    tb = traceback.extract_tb(e.__traceback__)
    print("FAIL", type(e).__name__, str(e)[:300], [(t.filename.split('/')[-1], t.lineno) for t in tb[-5:]])
