import tempfile; tempfile.tempdir = "/tmp"
import inspect
import crosshair.fnutil as _fu
_orig = _fu.set_first_arg_type
def _tolerant(sig, first_arg_type):
    if not list(sig.parameters.values()):
        return sig
    return _orig(sig, first_arg_type)
_fu.set_first_arg_type = _tolerant
