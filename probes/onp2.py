import numpy as _real, math, types
from symreal2 import SR
def _elementwise(name, mathf):
    def f(a, *args, **kw):
        arr = _real.asarray(a)
        if arr.dtype != object: return getattr(_real, name)(a, *args, **kw)
        out = _real.empty(arr.shape, dtype=object)
        for idx in _real.ndindex(*arr.shape):
            v = arr[idx]
            out[idx] = getattr(v, name)() if isinstance(v, SR) else mathf(v)
        return out if out.shape else out[()]
    return f
def _safe(f):
    def g(v):
        try: return f(v)
        except ValueError: return float('nan')
    return g
class _Proxy(types.ModuleType):
    def __getattr__(self, name): return getattr(_real, name)
    @staticmethod
    def isnan(a, *args, **kw):
        arr = _real.asarray(a)
        if arr.dtype != object: return _real.isnan(a, *args, **kw)
        out = _real.zeros(arr.shape, dtype=bool)
        for idx in _real.ndindex(*arr.shape):
            v = arr[idx]; out[idx] = (not isinstance(v, SR)) and v is not None and math.isnan(v)
        return out if out.shape else _real.bool_(out[()])
    @staticmethod
    def isfinite(a, *args, **kw):
        arr = _real.asarray(a)
        if arr.dtype != object: return _real.isfinite(a, *args, **kw)
        out = _real.zeros(arr.shape, dtype=bool)
        for idx in _real.ndindex(*arr.shape):
            v = arr[idx]; out[idx] = isinstance(v, SR) or (v is not None and math.isfinite(v))
        return out if out.shape else _real.bool_(out[()])
onp = _Proxy("onp")
onp.log = _elementwise("log", _safe(math.log)); onp.exp = _elementwise("exp", math.exp); onp.sqrt = _elementwise("sqrt", _safe(math.sqrt))
def install(*modules):
    for m in modules:
        for attr in ("_np", "np_", "np"):
            if getattr(m, attr, None) is _real: setattr(m, attr, onp)

# object-by-default allocators
def _objalloc(name):
    def f(*args, **kw):
        kw.setdefault("dtype", object)
        if kw["dtype"] in (float, _real.float64): kw["dtype"] = object
        return getattr(_real, name)(*args, **kw)
    return f
for _n in ("full", "zeros", "ones", "empty"):
    setattr(onp, _n, _objalloc(_n))
