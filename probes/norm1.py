"""Prototype: normalising EXP/LOG smart constructors over z3 terms."""
import z3
from fractions import Fraction
R = z3.RealSort()
LOG = z3.Function('LOG', R, R); EXP = z3.Function('EXP', R, R)
def is_num(t): return z3.is_rational_value(t) or z3.is_int_value(t)
def numval(t): return Fraction(t.numerator_as_long(), t.denominator_as_long())
def summands(t):
    t = z3.simplify(t, som=True)
    return list(t.children()) if z3.is_add(t) else [t]
def split_coeff(m):
    """monomial -> (numeric coefficient, list of non-numeric factors)"""
    if is_num(m): return numval(m), []
    if z3.is_mul(m):
        c = Fraction(1); fs = []
        for ch in m.children():
            if is_num(ch): c *= numval(ch)
            else: fs.append(ch)
        return c, fs
    return Fraction(1), [m]
def rv(fr): return z3.RealVal(str(fr))
def ipow(b, n):
    r = rv(1)
    for _ in range(abs(n)): r = r*b
    return r if n >= 0 else 1/r
def mk_exp(arg):
    out = rv(1)
    for m in summands(arg):
        c, fs = split_coeff(m)
        if not fs:                      # pure number: keep as EXP(const) (rare)
            if c != 0: out = out*EXP(rv(c))
            continue
        if len(fs) == 1 and z3.is_app(fs[0]) and fs[0].decl().eq(LOG) and c.denominator == 1:
            out = out*ipow(fs[0].arg(0), int(c)); continue       # EXP(n*LOG u) = u^n
        body = fs[0]
        for f in fs[1:]: body = body*f
        body = z3.simplify(body, som=True)
        if c < 0: out = out/EXP(z3.simplify(rv(-c)*body, som=True))
        else: out = out*EXP(z3.simplify(rv(c)*body, som=True))
    return out
def mk_log(arg):
    a = z3.simplify(arg)
    if z3.is_app(a) and a.decl().eq(EXP): return a.arg(0)
    if z3.is_mul(a):
        out = rv(0)
        for ch in a.children():
            out = out + (LOG(ch) if not (z3.is_app(ch) and ch.decl().eq(EXP)) else ch.arg(0)) if not is_num(ch) else out + LOG(ch)
        return out
    if z3.is_div(a): return mk_log(a.arg(0)) - mk_log(a.arg(1))
    return LOG(a)
if __name__ == "__main__":
    import time
    u,v,du,dv,y0,y1,g,al = z3.Reals("u v du dv y0 y1 g al")
    def chk(label, lhs, rhs, assume=()):
        s = z3.Solver(); s.set("timeout", 20000); s.add(*assume); s.add(lhs != rhs); t=time.time(); r=s.check()
        print(f"{label:34s} {r} {time.time()-t:.2f}s")
    # d(u^v): impl = v*u^(v-1)*du + u^v*log(u)*dv ; oracle = u^v*(dv*log u + v*du/u)
    powr = lambda b,e: mk_exp(mk_log(b)*e)
    impl = v*powr(u, v-1)*du + powr(u,v)*mk_log(u)*dv
    orac = powr(u,v)*(dv*mk_log(u) + v*du/u)
    chk("d(u^v) impl==oracle", impl, orac, [u>0])
    chk("cum_diff_log: y0*exp(log y1-log y0)==y1", y0*mk_exp(mk_log(y1)-mk_log(y0)), y1, [y0>0, y1>0])
    chk("steady: exp(log(exp g)*al)==exp(g*al)", mk_exp(mk_log(mk_exp(g))*al), mk_exp(g*al))
    chk("mutant: d(u^v) wrong sign -> sat?", v*powr(u, v-1)*du - powr(u,v)*mk_log(u)*dv, orac, [u>0])
