import warnings; warnings.filterwarnings("ignore")
exec(open("kf1.py").read().split("try:\n    out2, info2")[0])
import scipy.linalg as sla
symreal2 = sys.modules["symreal2"]
symreal2.SR.__float__ = lambda s: 0.0
out2, info2 = m.kalman_filter(db, span, return_info=True)
sol = m.get_solution() if hasattr(m, "get_solution") else m._variants[0].solution
T, P, K, Z, H, D = (np.array(getattr(sol, n), dtype=float) for n in "T P K Z H D".split())
vec = m._invariant.dynamic_descriptor.solution_vectors
print("xi:", vec.transition_variables, "y:", vec.measurement_variables, "u:", vec.transition_shocks, "w:", vec.measurement_shocks)
n = T.shape[0]; ny = Z.shape[0]
su = np.diag([1.0**2, 0.5**2]); sw = np.diag([0.3**2])
mu0 = np.linalg.solve(np.eye(n)-T, K)
S0 = sla.solve_discrete_lyapunov(T, P@su@P.T)
Tn = 3
# unroll: alpha_t = T alpha_{t-1} + K + P u_t ; y_t = Z alpha_t + D + H w_t ; eps=(alpha0-mu0, u1..uT, w1..wT)
ne = n + Tn*n + Tn*1
Var = np.zeros((ne,ne)); Var[:n,:n]=S0
for t in range(Tn):
    Var[n+t*n:n+(t+1)*n, n+t*n:n+(t+1)*n] = su
    Var[n+Tn*n+t:n+Tn*n+t+1, n+Tn*n+t:n+Tn*n+t+1] = sw
A = np.zeros((n,ne)); A[:,:n]=np.eye(n); mu = mu0.copy(); As=[]; mus=[]; Ys=[]; muys=[]
for t in range(Tn):
    Su = np.zeros((n,ne)); Su[:, n+t*n:n+(t+1)*n] = np.eye(n)
    Sw = np.zeros((1,ne)); Sw[0, n+Tn*n+t] = 1
    A = T@A + P@Su; mu = T@mu + K
    As.append(A); mus.append(mu); Ys.append(Z@A + H@Sw); muys.append(Z@mu + D)
obs = [(0,0),(0,2),(1,0),(1,1)]   # (row in y, period): ox t0,t2 ; op t0,t1  (y order from vec)
ynames = [str(t) for t in vec.measurement_variables]
print("ynames", ynames)
Ay = np.vstack([Ys[t][r:r+1,:] for r,t in obs]); my = np.array([muys[t][r] for r,t in obs])
Syy = Ay@Var@Ay.T
sm = out2["smooth_med"]
qn = {0:"ox",1:"op"}
ysym = [z3.Real(f"{qn[r]}__{t}") for r,t in obs]
s = z3.Solver()
for v in ysym: s.add(v >= -1, v <= 1)
W = np.linalg.solve(Syy, np.eye(len(obs)))
viol = []
for t in range(Tn):
    coef = As[t]@Var@Ay.T@W       # n x nobs
    for i, nm in enumerate(("x","p")):
        oracle = z3.RealVal(str(float(mus[t][i]))) + sum(z3.RealVal(repr(float(coef[i,k])))*(ysym[k]-z3.RealVal(repr(float(my[k])))) for k in range(len(obs)))
        impl = sm[nm].data[t,0].t
        viol.append(z3.Or(impl - oracle > 1e-9, oracle - impl > 1e-9))
s.add(z3.Or(viol)); t0=time.time(); print("smooth_med vs batch oracle:", s.check(), round(time.time()-t0,3),"s")
