import warnings; warnings.filterwarnings("ignore")
import numpy as np, z3, sys, time, math, types, traceback, io, contextlib
from symreal2 import *
import onp2
import irispie as ir
src = r"""
!transition-variables
    y, c, k, r
!log-variables
    y, c, k
!transition-shocks
    e
!parameters
    alpha, beta, delta
!transition-equations
    y = k[-1]^alpha * exp(e);
    c + k = y + (1-delta)*k[-1];
    1/c = beta*(1/c[+1])*(1 + r[+1] - delta);
    r = alpha*y/k[-1];
"""
m = ir.Simultaneous.from_string(src, flat=True)
m.assign(alpha=0.3, beta=0.95, delta=0.1); m.assign(y=1.0, c=0.8, k=2.0, r=0.15)
with contextlib.redirect_stdout(io.StringIO()):
    m.solve_steady(); m.solve()
span = ir.qq(2020,1)>>ir.qq(2020,3)
db = ir.Databox.steady(m, ir.qq(2019,1)>>ir.qq(2022,4)) if hasattr(ir.Databox,"steady") else None
db["e"] = ir.Series(periods=span, values=(0.05, 0, 0))
with contextlib.redirect_stdout(io.StringIO()):
    out = m.simulate(db, span, method="stacked_time")
print("concrete ok; y:", out["y"](span).get_data().T if not isinstance(out, tuple) else None)
from irispie.stacked_time import simulators as sts, _evaluators as ste
from irispie.fords import terminators as ft, simulators as fs, shock_simulators as fss
from irispie.equators import plain as pl
import irispie.dataslates.main as dm, irispie.dataslates._variants as dv
onp2.install(sts, ste, ft, pl)
cap = {}
realnq = sts._nq
def stub_newton(eval_func, eval_jacob, init_guess, iter_printer=None, args=(), **kw):
    data = args[0]
    with contextlib.redirect_stdout(io.StringIO()):
        xf, status = realnq.damped_newton(eval_func=eval_func, eval_jacob=eval_jacob, init_guess=init_guess, iter_printer=iter_printer, args=args, **kw)
    obj = np.empty(data.shape, dtype=object)
    for i in range(data.shape[0]):
        for j in range(data.shape[1]):
            obj[i,j] = float('nan') if math.isnan(data[i,j]) else sym(f"d{i}_{j}")
    g = np.empty(len(xf), dtype=object)
    for i in range(len(xf)): g[i] = sym(f"g{i}")
    try:
        f = eval_func(g, obj)
        cap["f"] = f; cap["obj"] = obj; cap["g"] = g
    except Exception as e:
        tb = traceback.extract_tb(e.__traceback__)
        print("FAIL in eval_func", type(e).__name__, str(e)[:300], [(t.filename.split('/')[-1], t.lineno) for t in tb[-5:]])
    return xf, status
sts._nq = types.SimpleNamespace(damped_newton=stub_newton, ExitStatus=realnq.ExitStatus)
with contextlib.redirect_stdout(io.StringIO()) as buf:
    try: m.simulate(db, span, method="stacked_time")
    except Exception as e:
        tb = traceback.extract_tb(e.__traceback__)
        print("outer", type(e).__name__, str(e)[:200], [(t.filename.split('/')[-1], t.lineno) for t in tb[-6:]])
print(buf.getvalue()[-600:])
if "f" in cap:
    print(len(cap["f"]), "residual terms; first 4:")
    for t in cap["f"][:4]: print("  ", str(t).replace("\n"," ")[:200])
