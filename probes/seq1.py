import warnings; warnings.filterwarnings("ignore")
import numpy as np, z3, sys, time
from symreal2 import *
import onp2
import irispie as ir
from irispie.sequentials import _simulate as ss
from irispie.explanatories import main as em
onp2.install(ss, em)
src = r"""
!equations
    diff_log(x) = 0.5*diff_log(x[-1]) + a*y;
    pct(z) = b + 0.1*x;
    w === x + z[-1];
!parameters
    a, b
"""
m = ir.Sequential.from_string(src)
m.assign(a=0.3, b=1.0)
print(m.get_names() if hasattr(m,'get_names') else None)
span = ir.qq(2020,1)>>ir.qq(2020,3)
db = ir.Databox()
for n in ("x","y","z","w"): db[n] = ir.Series(periods=ir.qq(2019,1)>>ir.qq(2020,3), func=lambda: 1.5)
captured = {}
real = ss._SIMULATION_METHOD_DISPATCH["sequential"]
def lifted(model_v, ds, plan, vid, **kw):
    data = ds._variants[0].data if hasattr(ds, "_variants") else None
    obj = np.empty(data.shape, dtype=object)
    names = ds.names
    for i in range(data.shape[0]):
        for j in range(data.shape[1]):
            obj[i,j] = float('nan') if math.isnan(data[i,j]) else sym(f"{names[i]}__{j}")
    ds._variants[0].data = obj
    captured["names"]=names; captured["in"]=obj.copy(); captured["periods"]=ds.periods; captured["base_columns"]=ds.base_columns
    out = real(model_v, ds, plan, vid, **kw)
    captured["out"]=ds._variants[0].data.copy()
    # restore float array so downstream conversion works
    ds._variants[0].data = data
    return out
ss._SIMULATION_METHOD_DISPATCH["sequential"] = lifted
t0=time.time()
m.simulate(db, span)
print("ran", round(time.time()-t0,3))
names = captured["names"]; out = captured["out"]
for i,n in enumerate(names): print(n, [str(v)[:60] for v in out[i]])
