"""numpy proxy: object-dtype aware isnan etc.; everything else passes through."""
import numpy as _real, math, types, sys
from symreal import SR
class _Proxy(types.ModuleType):
    def __init__(self):
        super().__init__("onp")
    def __getattr__(self, name):
        return getattr(_real, name)
    @staticmethod
    def isnan(a, *args, **kw):
        a = _real.asarray(a)
        if a.dtype != object:
            return _real.isnan(a, *args, **kw)
        out = _real.zeros(a.shape, dtype=bool)
        for idx in _real.ndindex(*a.shape):
            v = a[idx]
            out[idx] = (not isinstance(v, SR)) and v is not None and math.isnan(v)
        return out
onp = _Proxy()
def install(*modules):
    for m in modules:
        for attr in ("_np", "np_", "np"):
            if getattr(m, attr, None) is _real:
                setattr(m, attr, onp)
