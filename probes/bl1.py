import warnings; warnings.filterwarnings("ignore")
import numpy as np, z3, itertools, time, sys
from irispie.incidences import blazer

PC = []          # path condition of the current run
class SB:
    __slots__=("t","c")
    def __init__(s, t, c): s.t=t; s.c=bool(c)
    def __bool__(s):
        PC.append(s.t if s.c else z3.Not(s.t)); return s.c
    def __invert__(s): return SB(z3.Not(s.t), not s.c)
    def __and__(s,o): o=lb(o); return SB(z3.And(s.t,o.t), s.c and o.c)
    def __or__(s,o): o=lb(o); return SB(z3.Or(s.t,o.t), s.c or o.c)
    __rand__=__and__; __ror__=__or__
    def _i(s): return SI(z3.If(s.t,1,0), int(s.c))
    def __add__(s,o): return s._i()+o
    __radd__=__add__
    def __eq__(s,o): return s._i()==o
    def __ne__(s,o): return s._i()!=o
    def __lt__(s,o): return s._i()<o
    def __gt__(s,o): return s._i()>o
    def __le__(s,o): return s._i()<=o
    def __ge__(s,o): return s._i()>=o
    __hash__=None
def lb(o):
    if isinstance(o,SB): return o
    return SB(z3.BoolVal(bool(o)), bool(o))
def li(o):
    if isinstance(o,SI): return o
    if isinstance(o,SB): return o._i()
    return SI(z3.IntVal(int(o)), int(o))
class SI:
    __slots__=("t","c")
    def __init__(s,t,c): s.t=t; s.c=int(c)
    def __add__(s,o): o=li(o); return SI(s.t+o.t, s.c+o.c)
    __radd__=__add__
    def __eq__(s,o): o=li(o); return SB(s.t==o.t, s.c==o.c)
    def __ne__(s,o): o=li(o); return SB(s.t!=o.t, s.c!=o.c)
    def __lt__(s,o): o=li(o); return SB(s.t<o.t, s.c<o.c)
    def __gt__(s,o): o=li(o); return SB(s.t>o.t, s.c>o.c)
    def __le__(s,o): o=li(o); return SB(s.t<=o.t, s.c<=o.c)
    def __ge__(s,o): o=li(o); return SB(s.t>=o.t, s.c>=o.c)
    __hash__=None

def run(n, bits):
    global PC; PC=[]
    im = np.empty((n,n),dtype=object); vars_ = {}
    for i in range(n):
        for j in range(n):
            v = z3.Bool(f"m_{i}_{j}"); vars_[(i,j)]=v; im[i,j]=SB(v, bits[i*n+j])
    blocks = blazer.blaze(im)
    return blocks, list(PC), vars_

n = int(sys.argv[1])
bits = [1,1,0, 0,1,1, 1,0,1][:n*n] if n==3 else [1,0,1,1]
try:
    blocks, pc, vars_ = run(n, bits)
    print("blocks", [(b.eids,b.qids) for b in blocks]); print("pc len", len(pc)); print(pc[:6])
except Exception as e:
    import traceback; tb = traceback.extract_tb(e.__traceback__)
    print("FAIL", type(e).__name__, str(e)[:300], [(t.filename.split('/')[-1], t.lineno) for t in tb[-5:]])
