import warnings; warnings.filterwarnings("ignore")
exec(open("kf1.py").read().split("span = ir.qq(2020,1)")[0])
import scipy
from irispie.fords import covariances as cv
from irispie.simultaneous import _covariances as sc
symreal2 = sys.modules["symreal2"]
onp2.install(cv, sc)
fresh=[]; assumptions=[]
class _SL:
    def __getattr__(self, n): return getattr(scipy.linalg, n)
    def solve_discrete_lyapunov(self, A, Q, *a, **k):
        A = np.asarray(A); Q = np.asarray(Q)
        if Q.dtype != object: return scipy.linalg.solve_discrete_lyapunov(A, Q)
        n = A.shape[0]; X = np.empty((n,n), dtype=object)
        for i in range(n):
            for j in range(i, n):
                X[i,j] = X[j,i] = sym(f"X{i}{j}"); 
        R = A @ X @ A.T + Q
        for i in range(n):
            for j in range(i, n): assumptions.append(X[i,j].t == R[i,j].t)
        return X
class _SP:
    def __getattr__(self, n): return getattr(scipy, n)
    linalg = _SL()
cv._sp = _SP()
vu = [sym("vu0"), sym("vu1")]; vw = [sym("vw0")]
def diag(v):
    d = np.zeros((len(v),len(v)), dtype=object)
    for i,x in enumerate(v): d[i,i] = x
    return d
type(m).getv_cov_u = lambda self, variant: diag(vu)
type(m).getv_cov_w = lambda self, variant: diag(vw)
try:
    acov = m.get_acov(up_to_order=1)
    C0, C1 = acov
    print("C0", C0.shape, C0.dtype); print([str(v).replace("\n"," ")[:60] for v in C0[0]])
    sol = m._variants[0].solution
    T, P, Z, H = (np.array(getattr(sol,n), dtype=float) for n in "TPZH")
    n = T.shape[0]
    Cxx = C0[:n,:n]
    rhs = T @ Cxx @ T.T + P @ diag(vu) @ P.T
    s = z3.Solver(); s.add(assumptions); s.add(*[x.t >= 0 for x in vu+vw], *[x.t <= 1 for x in vu+vw])
    bad = []
    for i in range(n):
        for j in range(n):
            dlt = Cxx[i,j].t - rhs[i,j].t; bad.append(z3.Or(dlt > 1e-9, dlt < -1e-9))
    Cyy = C0[n:,n:]; r2 = Z @ Cxx @ Z.T + H @ diag(vw) @ H.T
    for i in range(Cyy.shape[0]):
        for j in range(Cyy.shape[1]):
            dlt = Cyy[i,j].t - r2[i,j].t; bad.append(z3.Or(dlt > 1e-9, dlt < -1e-9))
    C1xx = C1[:n,:n]; r3 = T @ Cxx
    for i in range(n):
        for j in range(n):
            dlt = C1xx[i,j].t - r3[i,j].t; bad.append(z3.Or(dlt > 1e-9, dlt < -1e-9))
    s.add(z3.Or(bad)); t0=time.time(); print("acov satisfies square-system Lyapunov / measurement / order-1 relations:", s.check(), round(time.time()-t0,3), "s;", len(assumptions), "contract eqs")
except Exception as e:
    tb = traceback.extract_tb(e.__traceback__)
    print("FAIL", type(e).__name__, str(e)[:300], [(t.filename.split('/')[-1], t.lineno) for t in tb[-5:]])
