import warnings; warnings.filterwarnings("ignore")
import numpy as np, z3, sys, time, math, types, traceback
from symreal2 import *
import onp2
import irispie as ir
src = r"""
!transition-variables
    y, c, k, r
!log-variables
    y, c, k
!transition-shocks
    e
!parameters
    alpha, beta, delta, g
!transition-equations
    y = k[-1]^alpha * exp(e);
    c + k = y + (1-delta)*k[-1];
    1/c = beta*(1/c[+1])*(1 + r[+1] - delta);
    r = alpha*y/k[-1];
"""
m = ir.Simultaneous.from_string(src, flat=True)
m.assign(alpha=0.3, beta=0.95, delta=0.1, g=1.0)
m.assign(y=1.0, c=0.8, k=2.0, r=0.15)
info = m.solve_steady(return_info=True) if True else None
print("concrete steady:", m.get_steady_levels(kind=ir.TRANSITION_VARIABLE) if hasattr(ir,"TRANSITION_VARIABLE") else m.get_steady_levels())
print(m.check_steady())
from irispie.steadiers import solver_dispatcher as sd, evaluators as ev, _equators as eq
from irispie.simultaneous import _steady as st, _variants as va
from irispie.equators import plain as pl
onp2.install(ev, eq, va, pl, st)
real = sd.neqs_levenberg
cap = {}
def stub(steady_evaluator, init_guess, solver_settings):
    xf, succ, status = real(steady_evaluator, init_guess, solver_settings)
    e = steady_evaluator
    e._steady_array = e._steady_array.astype(object)
    e._maybelog_init_levels = e._maybelog_init_levels.astype(object)
    e._maybelog_init_changes = e._maybelog_init_changes.astype(object)
    g = np.empty(len(xf), dtype=object)
    for i in range(len(xf)): g[i] = sym(f"g{len(cap)}_{i}")
    f = e.eval_func(g)
    try:
        from irispie.aldi import differentiators as ad
        from irispie.jacobians import base as jb
        from irispie.steadiers import _jacobian as sj
        onp2.install(ad, jb, sj)
        J = e.eval_jacob(g)
        print("JACOBIAN", type(J), getattr(J, "shape", None), getattr(J, "dtype", None))
        for i in range(J.shape[0]): print("  J row", i, [str(v).replace(chr(10)," ")[:40] for v in np.asarray(J)[i]])
    except Exception as ex:
        tb = traceback.extract_tb(ex.__traceback__)
        print("JAC FAIL", type(ex).__name__, str(ex)[:200], [(t.filename.split('/')[-1], t.lineno) for t in tb[-5:]])
    cap[len(cap)] = dict(g=g, f=f, qids=list(e.wrt_qids), x=xf)
    return g, True, status
sd.neqs_levenberg = stub
m2 = ir.Simultaneous.from_string(src, flat=True)
m2.assign(alpha=0.3, beta=0.95, delta=0.1, g=1.0); m2.assign(y=1.0, c=0.8, k=2.0, r=0.15)
try:
    m2.solve_steady()
    print("blocks:", len(cap))
    for b, d in cap.items():
        print("block", b, "qids", d["qids"], "f:", [str(t).replace("\n"," ")[:90] for t in d["f"]])
    print({k: str(v)[:60] for k, v in m2.get_steady_levels().items()})
except Exception as e:
    tb = traceback.extract_tb(e.__traceback__)
    print("FAIL", type(e).__name__, str(e)[:300], [(t.filename.split('/')[-1], t.lineno) for t in tb[-5:]])
