import warnings; warnings.filterwarnings("ignore")
import numpy as np, z3, traceback, sys
from symreal import *
import onp
import irispie as ir
import irispie.series.main
mods = [m for n, m in sys.modules.items() if n.startswith("irispie.series") or n in ("irispie.has_variants",)]
onp.install(*mods)
x = ir.Series.from_start_and_array(ir.qq(2020,1), arr("x", 5, 1))
y = ir.Series.from_start_and_array(ir.qq(2020,3), arr("y", 4, 1))
print(type(x.data), x.data.dtype, x.start, x.end)
for name, f in [("add", lambda: x + y), ("shift", lambda: ir.shift(x, -1)), ("diff", lambda: ir.diff(x)), ("pct", lambda: ir.pct(x, -2)), ("get", lambda: x(ir.qq(2020,2)>>ir.qq(2021,4))), ("cum_diff", lambda: ir.cum_diff(ir.diff(x), initial=x, span=ir.qq(2020,2)>>ir.qq(2021,1))), ("cum_diff_log", lambda: ir.cum_diff_log(ir.diff_log(x), initial=x, span=ir.qq(2020,2)>>ir.qq(2021,1))), ("roc", lambda: ir.roc(x)), ("aggregate", lambda: ir.aggregate(x, ir.Frequency.YEARLY, method="sum")), ("disagg", lambda: ir.disaggregate(x, ir.Frequency.MONTHLY, method="flat")),("mov_sum", lambda: ir.mov_sum(x, -2)), ("diff_log", lambda: ir.diff_log(x)), ("hpf", lambda: ir.hpf(x)), ("fill", lambda: ir.fill_missing(x, method="linear")), ("overlay", lambda: ir.overlay(x, y)), ("clip", lambda: ir.clip(x, ir.qq(2020,2), ir.qq(2020,3)))]:
    try:
        r = f()
        print(name, "OK", getattr(r, "start", None), (r.data.tolist() if hasattr(r, "data") else r))
    except Exception as e:
        tb = traceback.extract_tb(e.__traceback__)
        print(name, "FAIL", type(e).__name__, e, "at", [(t.filename.split('/')[-1], t.lineno) for t in tb[-3:]])
