import chfix
import warnings; warnings.filterwarnings("ignore")
from irispie import dates as D

def reg_roundtrip_q(serial: int) -> bool:
    """
    pre: 1*4 <= serial < 10000*4
    post: _
    """
    p = D.QuarterlyPeriod(serial)
    y, s = p.to_year_segment()
    q = D.QuarterlyPeriod.from_year_segment(y, s)
    return q.serial == serial and 1 <= s <= 4 and hash(p) == hash(q) and p == q

def add_sub(serial: int, serial2: int) -> bool:
    """
    post: _
    """
    p = D.MonthlyPeriod(serial); q = D.MonthlyPeriod(serial2)
    return (p + (q - p)) == q and ((p < q) == (serial < serial2))

def sdmx_roundtrip_m(serial: int) -> bool:
    """
    pre: 1000*12 <= serial < 10000*12
    post: _
    """
    p = D.MonthlyPeriod(serial)
    s = p.to_sdmx_string()
    q = D.Period.from_sdmx_string(s)
    return q.serial == serial and type(q) is D.MonthlyPeriod

def refreq_m_to_q(serial: int) -> bool:
    """
    pre: 1*12 <= serial < 10000*12
    post: _
    """
    p = D.MonthlyPeriod(serial)
    q = p.refrequent(D.Frequency.QUARTERLY)
    # containment: quarter q contains month p
    y, m = p.to_year_segment()
    yq, sq = q.to_year_segment()
    return yq == y and 3*(sq-1)+1 <= m <= 3*sq

def span_len(a: int, b: int, step: int) -> bool:
    """
    pre: step != 0 and -50 <= a <= 50 and -50 <= b <= 50 and -5 <= step <= 5
    post: _
    """
    sp = D.Span(D.IntegerPeriod(a), D.IntegerPeriod(b), step)
    items = list(sp)
    n = len(sp)
    ok = n == len(items)
    for i, p in enumerate(items):
        ok = ok and p.serial == a + i*step
    if n:
        last = items[-1].serial
        ok = ok and ((step > 0 and last <= b < last + step) or (step < 0 and last >= b > last + step))
    else:
        ok = ok and ((step > 0 and a > b) or (step < 0 and a < b))
    return ok
