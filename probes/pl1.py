import warnings; warnings.filterwarnings("ignore")
import numpy as np, z3, sys, time, math, types, traceback, io, contextlib
from symreal2 import *
import onp2
import irispie as ir
src = open("fo1.py").read().split('src = r"""')[1].split('"""')[0]
m = ir.Simultaneous.from_string(src, linear=True)
m.assign(a=0.5, b=0.1, c=0.6, d=0.05)
m.solve()
span = ir.qq(2020,1)>>ir.qq(2020,3)
db = ir.Databox()
db["ex"] = ir.Series(periods=span, values=(1.0, 0.2, 0.1))
db["ep"] = ir.Series(periods=span, values=(0.1, 0.2, 0.3))
for n in ("x","p","r"): db[n] = ir.Series(periods=(ir.qq(2019,4),), values=(0.2,))
db["x"][ir.qq(2020,2)] = 0.7     # target
plan = ir.SimulationPlan(m, span)
plan.exogenize_unanticipated(ir.qq(2020,2), "x"); plan.endogenize_unanticipated(ir.qq(2020,2), "ex")
out = m.simulate(db, span, method="first_order", deviation=True, plan=plan)
print("concrete: x", out["x"](span).get_data().T, "ex", out["ex"](span).get_data().T)
from irispie.fords import simulators as fs, shock_simulators as fss, kalmans as kk, covariances as cv
onp2.install(fs, fss, kk, cv)
def ground(a):
    a = np.asarray(a)
    return a if a.dtype != object else np.array(a.tolist(), dtype=float)
class SRf(SR): pass
kk._INVERSE_FUNCTION["regular"] = lambda F: np.linalg.inv(ground(F))
import symreal2
symreal2.SR.__float__ = lambda s: (_ for _ in ()).throw(RuntimeError("float() on symbolic"))
cap = {}
real = fs.simulate_frame
LIFT = ("x","p","r","ex","ep","ant_ex","ant_ep")
def lifted(model_v, frame_ds, **kw):
    v = frame_ds._variants[0]; data = v.data; names = frame_ds.names
    obj = np.empty(data.shape, dtype=object)
    for i in range(data.shape[0]):
        for j in range(data.shape[1]):
            obj[i,j] = float('nan') if math.isnan(data[i,j]) else (sym(f"{names[i]}__{j}") if names[i] in LIFT else float(data[i,j]))
    v.data = obj
    ida = kw["input_data_array"]; iobj = np.empty(ida.shape, dtype=object)
    for i in range(ida.shape[0]):
        for j in range(ida.shape[1]):
            iobj[i,j] = float('nan') if math.isnan(ida[i,j]) else (sym(f"{names[i]}__{j}") if names[i] in LIFT else float(ida[i,j]))
    kw["input_data_array"] = iobj
    try:
        r = real(model_v, frame_ds, **kw)
        cap.setdefault("outs", []).append((kw["frame"], v.data.copy())); cap["names"]=names
    except Exception as e:
        tb = traceback.extract_tb(e.__traceback__)
        print("FAIL", type(e).__name__, str(e)[:300], [(t.filename.split('/')[-1], t.lineno) for t in tb[-5:]])
        raise
    finally:
        v.data = data
    return r
fs.simulate_frame = lifted
try: m.simulate(db, span, method="first_order", deviation=True, plan=plan)
except Exception as e: print("outer", type(e).__name__, str(e)[:200])
for fr, o in cap.get("outs", []):
    print("frame", fr)
    for i,n in enumerate(cap["names"]):
        if n in ("x","ex","ep"): print("  ", n, [str(v).replace("\n"," ")[:90] for v in o[i]])
