import warnings; warnings.filterwarnings("ignore")
import numpy as np, z3, sys, time, math, types
from symreal2 import *
import onp2
import irispie as ir
src = r"""
!transition-variables
    x, p, r
!transition-shocks
    ex, ep
!parameters
    a, b, c, d
!transition-equations
    x = a*x[-1] + (1-a)*x[+1] - b*(r - p[+1]) + ex;
    p = c*p[+1] + (1-c)*p[-1] + d*x + ep;
    r = 0.7*r[-1] + 0.3*(1.5*p + 0.5*x);
!measurement-variables
    obs_x
!measurement-equations
    obs_x = x + 1;
"""
m = ir.Simultaneous.from_string(src, linear=True)
m.assign(a=0.5, b=0.1, c=0.6, d=0.05)
m.solve()
print(m.get_eigenvalues_stability() if hasattr(m, "get_eigenvalues_stability") else None)
span = ir.qq(2020,1)>>ir.qq(2020,4)
db = ir.Databox.steady(m, ir.qq(2019,1)>>ir.qq(2021,4), deviation=True) if hasattr(ir.Databox, "steady") else ir.Databox()
db["ex"] = ir.Series(periods=span, values=(1.0, 0, 0, 0.5))
db["x"] = ir.Series(periods=(ir.qq(2019,4),), values=(0.2,))
out = m.simulate(db, span, method="first_order", deviation=True)
print(type(out)); s = out if not isinstance(out, tuple) else out[0]
print(s["x"].get_data().T, s["obs_x"].get_data().T)
