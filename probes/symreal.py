"""Probe: z3-real wrapper usable inside numpy object arrays."""
import z3, numpy as np, math
from fractions import Fraction

LOG = z3.Function('LOG', z3.RealSort(), z3.RealSort())
EXP = z3.Function('EXP', z3.RealSort(), z3.RealSort())
SQRT = z3.Function('SQRT', z3.RealSort(), z3.RealSort())

def lift(x):
    if isinstance(x, SR): return x.t
    if isinstance(x, bool): raise TypeError
    if isinstance(x, (int, np.integer)): return z3.RealVal(int(x))
    if isinstance(x, (float, np.floating)):
        if math.isnan(x) or math.isinf(x): raise ValueError("nan/inf lifted")
        return z3.RealVal(str(Fraction(float(x))))
    if isinstance(x, Fraction): return z3.RealVal(str(x))
    raise TypeError(type(x))

class SR:
    __slots__=('t',)
    __array_priority__ = 1000
    def __init__(self, t): self.t = t
    def __repr__(self): return f"SR({self.t})"
    def _b(self, o, f):
        try: return SR(z3.simplify(f(self.t, lift(o))))
        except TypeError: return NotImplemented
    def __add__(s,o): return s._b(o, lambda a,b:a+b)
    def __radd__(s,o): return s._b(o, lambda a,b:b+a)
    def __sub__(s,o): return s._b(o, lambda a,b:a-b)
    def __rsub__(s,o): return s._b(o, lambda a,b:b-a)
    def __mul__(s,o): return s._b(o, lambda a,b:a*b)
    def __rmul__(s,o): return s._b(o, lambda a,b:b*a)
    def __truediv__(s,o): return s._b(o, lambda a,b:a/b)
    def __rtruediv__(s,o): return s._b(o, lambda a,b:b/a)
    def __neg__(s): return SR(-s.t)
    def __pos__(s): return s
    def __pow__(s,o):
        if isinstance(o,(int,np.integer)) and not isinstance(o,bool):
            o=int(o)
            if o>=0:
                r=z3.RealVal(1)
                for _ in range(o): r=r*s.t
                return SR(r)
            return SR(z3.RealVal(1)/ (s**(-o)).t)
        raise NotImplementedError("symbolic pow")
    def log(s): return SR(LOG(s.t))
    def exp(s): return SR(EXP(s.t))
    def sqrt(s): return SR(SQRT(s.t))
    def __bool__(s): raise RuntimeError("branch on symbolic value")
    def __float__(s): raise RuntimeError("float() on symbolic value")

def sym(name): return SR(z3.Real(name))
def arr(name, *shape):
    a = np.empty(shape, dtype=object)
    for idx in np.ndindex(*shape):
        a[idx] = sym(name+"_"+"_".join(map(str,idx)))
    return a
def const(a):
    a = np.asarray(a, dtype=float); o = np.empty(a.shape, dtype=object)
    for idx in np.ndindex(*a.shape): o[idx]=SR(lift(float(a[idx])))
    return o
