import chfix
import warnings; warnings.filterwarnings("ignore")
from irispie import dates as D
import calstub
D._dt = calstub.mod

def daily_roundtrip(serial: int) -> bool:
    """
    pre: 1 <= serial <= 3652059
    post: _
    """
    p = D.DailyPeriod(serial)
    y, m, d = p.to_ymd()
    q = D.DailyPeriod.from_ymd(y, m, d)
    return q.serial == serial and 1 <= m <= 12 and 1 <= d <= 31

def daily_to_monthly_contains(serial: int) -> bool:
    """
    pre: 693596 <= serial <= 766644
    post: _
    """
    p = D.DailyPeriod(serial)
    mth = p.refrequent(D.Frequency.MONTHLY)
    y, m, d = p.to_ymd()
    ym, sm = mth.to_year_segment()
    return ym == y and sm == m

def daily_soy(serial: int) -> bool:
    """
    pre: 1 <= serial <= 3652059
    post: _
    """
    p = D.DailyPeriod(serial)
    s = p.create_soy()
    return s.serial <= serial and s.to_ymd()[1:] == (1, 1) and s.to_ymd()[0] == p.to_ymd()[0]
