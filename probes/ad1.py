import warnings; warnings.filterwarnings("ignore")
import numpy as np, z3, time
from symreal2 import *
import onp2
from irispie.aldi import differentiators as ad
onp2.install(ad)
Atom = ad.Atom
def mk(name, logly=False):
    v = sym(name); d = sym("d"+name)
    return Atom.no_context(v, d, logly), v, d
def check(label, got, want, assumptions=()):
    s = z3.Solver(); s.set("timeout", 20000)
    for a in assumptions: s.add(a)
    s.add(got.t != want.t)
    t0=time.time(); r = s.check()
    print(f"{label:28s} {str(r):8s} {time.time()-t0:.2f}s", (s.model() if str(r)=="sat" else ""))
a, u, du = mk("u"); b, v, dv = mk("v")
pos = [u.t > 0, v.t > 0]
# LOG/EXP calculus: derivative oracle written independently
check("add", (a+b).diff, du+dv)
check("sub", (a-b).diff, du-dv)
check("mul", (a*b).diff, du*v+u*dv)
check("div", (a/b).diff, (du*v-u*dv)/(v*v), [v.t != 0])
check("rdiv 3/u", (3/a).diff, -3*du/(u*u), [u.t != 0])
check("neg", (-a).diff, -du)
check("pow3", (a**3).diff, 3*u*u*du)
check("log", a.log().diff, du/u, pos)
check("exp", a.exp().diff, u.exp()*du)
try: check("sqrt", a.sqrt().diff, du/(2*u.sqrt()), pos)
except Exception as e: print("sqrt EXC", type(e).__name__, e)
lg, w, dw = mk("w", logly=True)
check("logly mul", (lg*b).diff, (dw*w)*v + w*dv)
