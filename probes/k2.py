import warnings; warnings.filterwarnings("ignore")
import time, numpy as np, z3, sys
from symreal import *
import symreal
from irispie.fords import kalmans, covariances
n, m, T = int(sys.argv[1]), int(sys.argv[2]), int(sys.argv[3])
nosimp = len(sys.argv)>4
if nosimp:
    symreal.SR._b = lambda self,o,f: SR(f(self.t, lift(o)))
zero = SR(z3.RealVal(0))
def zeros(*shape):
    a=np.empty(shape,dtype=object); a[...]=zero; return a
Tm = arr("T", n, n); P = arr("P", n, n); K = arr("K", n); Z = arr("Z", m, n); H = arr("H", m, m); D = arr("D", m)
su = arr("su", n); sw = arr("sw", m)
cov_u = zeros(n,n)
for i in range(n): cov_u[i,i]=su[i]*su[i]
cov_w = zeros(m,m)
for i in range(m): cov_w[i,i]=sw[i]*sw[i]
a_init = arr("a", n)
L0 = arr("L", n, n)
for i in range(n):
    for j in range(i+1,n): L0[i,j]=zero
Q_init = L0 @ L0.T
Y = arr("y", m, T)
u0 = zeros(n); w0 = zeros(m)
def gps(t): return Tm, P, K, Z, H, D, cov_u, cov_w, None, None
def gpd(t): return Y[:, t], u0, None, w0, np.ones(m, dtype=bool)
dets=[]
def sym_inv(F):
    k = F.shape[0]
    if k == 0: return F
    if k == 1:
        dets.append(F[0,0]); o = np.empty((1,1),dtype=object); o[0,0] = 1/F[0,0]; return o
    if k == 2:
        det = F[0,0]*F[1,1]-F[0,1]*F[1,0]; dets.append(det)
        o = np.empty((2,2),dtype=object)
        o[0,0]=F[1,1]/det; o[1,1]=F[0,0]/det; o[0,1]=-F[0,1]/det; o[1,0]=-F[1,0]/det
        return o
    raise NotImplementedError
kalmans._INVERSE_FUNCTION["regular"] = sym_inv
out = {}
def store_smooth(t, xi, **k): out[t]=xi
cache = kalmans.predict(num_periods=T, initials=(a_init, Q_init, None), partial_generate_period_system=gps, partial_generate_period_data=gpd, store_smooth=lambda **k: None)
kalmans.smooth(cache, store_smooth)
# batch oracle: eps = (alpha0-a [n], u_1..u_T [n each], w_1..w_T [m each])
ne = n + T*n + T*m
var = zeros(ne, ne)
var[:n,:n] = Q_init
for t in range(T):
    var[n+t*n:n+(t+1)*n, n+t*n:n+(t+1)*n] = cov_u
    var[n+T*n+t*m:n+T*n+(t+1)*m, n+T*n+t*m:n+T*n+(t+1)*m] = cov_w
# alpha_t = mu_t + A_t eps
A = zeros(n, ne); 
for i in range(n): A[i,i]=SR(z3.RealVal(1))
mu = a_init
As=[]; mus=[]; Ys=[]; muy=[]
for t in range(T):
    Su = zeros(n, ne)
    for i in range(n): Su[i, n+t*n+i]=SR(z3.RealVal(1))
    Sw = zeros(m, ne)
    for i in range(m): Sw[i, n+T*n+t*m+i]=SR(z3.RealVal(1))
    A = Tm @ A + P @ Su
    mu = Tm @ mu + K
    As.append(A); mus.append(mu)
    Ys.append(Z @ A + H @ Sw); muy.append(Z @ mu + D)
Ay = np.vstack(Ys); my = np.concatenate(muy)
Syy = Ay @ var @ Ay.T
yvec = np.concatenate([Y[:,t] for t in range(T)])
assert Syy.shape==(2,2)
detS = Syy[0,0]*Syy[1,1]-Syy[0,1]*Syy[1,0]
Si = np.empty((2,2),dtype=object)
Si[0,0]=Syy[1,1]/detS; Si[1,1]=Syy[0,0]/detS; Si[0,1]=-Syy[0,1]/detS; Si[1,0]=-Syy[1,0]/detS
s = z3.Solver(); s.set("timeout", 300000)
for d in dets: s.add(d.t > 0)
s.add(detS.t > 0)
for t in range(T):
    sm = mus[t] + As[t] @ var @ Ay.T @ Si @ (yvec - my)
    t1=time.time()
    s.push(); s.add(z3.Or([out[t][i].t != sm[i].t for i in range(n)])); r=s.check(); s.pop()
    print("smooth t",t,r,round(time.time()-t1,2), flush=True)
