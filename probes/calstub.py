"""Loop-free proleptic Gregorian calendar (Hinnant) as a stand-in for datetime.date."""
import datetime as _real
_EPOCH = 719163  # ordinal of 1970-01-01 minus 0 -> date(1970,1,1).toordinal() == 719163
def days_from_civil(y, m, d):
    y = y - (1 if m <= 2 else 0)
    era = y // 400
    yoe = y - era * 400
    mp = m - 3 if m > 2 else m + 9
    doy = (153 * mp + 2) // 5 + d - 1
    doe = yoe * 365 + yoe // 4 - yoe // 100 + doy
    return era * 146097 + doe - 719468 + _EPOCH
def civil_from_days(n):
    z = n - _EPOCH + 719468
    era = z // 146097
    doe = z - era * 146097
    yoe = (doe - doe // 1460 + doe // 36524 - doe // 146096) // 365
    y = yoe + era * 400
    doy = doe - (365 * yoe + yoe // 4 - yoe // 100)
    mp = (5 * doy + 2) // 153
    d = doy - (153 * mp + 2) // 5 + 1
    m = mp + 3 if mp < 10 else mp - 9
    return (y + (1 if m <= 2 else 0), m, d)
class date:
    __slots__ = ("year", "month", "day")
    def __init__(self, year, month, day):
        self.year, self.month, self.day = year, month, day
    @classmethod
    def fromordinal(cls, n): return cls(*civil_from_days(n))
    def toordinal(self): return days_from_civil(self.year, self.month, self.day)
class _Mod:
    date = date
mod = _Mod()
if __name__ == "__main__":
    import time; t=time.time()
    for n in range(1, _real.date.max.toordinal()+1, 1):
        r = _real.date.fromordinal(n)
        assert civil_from_days(n) == (r.year, r.month, r.day), n
        assert days_from_civil(r.year, r.month, r.day) == n
    print("stub == datetime.date on all ordinals", round(time.time()-t,1), "s")
