import warnings; warnings.filterwarnings("ignore")
import numpy as np, z3, sys, time, math, types, traceback
from symreal2 import *
import symreal2
symreal2.SR.__float__ = lambda s: (_ for _ in ()).throw(RuntimeError("float() on symbolic"))
import onp2
import irispie as ir
from irispie.red_vars import _estimators as est
from irispie.fords import least_squares as ls, covariances as cv
onp2.install(est, ls, cv)
fresh = []; assumptions = []
class _LA:
    def __getattr__(self, n): return getattr(np.linalg, n)
    def solve(self, A, B):
        A = np.asarray(A); B = np.asarray(B)
        if A.dtype != object and B.dtype != object: return np.linalg.solve(A, B)
        X = np.empty(B.shape, dtype=object)
        for idx in np.ndindex(*B.shape):
            X[idx] = sym(f"b{len(fresh)}"); fresh.append(X[idx])
        R = A @ X
        for idx in np.ndindex(*B.shape):
            assumptions.append(R[idx].t == lift(B[idx]))
        cap["A"]=A; cap["B"]=B
        return X
onp2.onp.linalg = _LA()
cap = {}
span = ir.qq(2000,1)>>ir.qq(2001,2)   # 6 periods
rng = np.random.default_rng(0)
db = ir.Databox()
db["a"] = ir.Series(periods=span, values=rng.standard_normal(len(span)))
db["b"] = ir.Series(periods=span, values=rng.standard_normal(len(span)))
real = est._estimate_variant
def lifted(invariant, dataslate, **kw):
    v = dataslate._variants[0]; data = v.data; names = dataslate.names
    obj = np.empty(data.shape, dtype=object)
    for i in range(data.shape[0]):
        for j in range(data.shape[1]):
            obj[i,j] = float('nan') if math.isnan(data[i,j]) else sym(f"{names[i]}__{j}")
    v.data = obj; cap["names"]=names; cap["in"]=obj.copy()
    try:
        out = real(invariant, dataslate, **kw); cap["variant"]=out; cap["out"]=v.data.copy(); v.data = data; return out
    except Exception as e:
        tb = traceback.extract_tb(e.__traceback__)
        print("FAIL", type(e).__name__, str(e)[:300], [(t.filename.split('/')[-1], t.lineno) for t in tb[-5:]]); raise
est._estimate_variant = lifted
v = ir.RedVAR(["a","b"], order=1)
try: v.estimate(db, span, omit_missing=True)
except Exception as e: print("outer", type(e).__name__, str(e)[:200])
if "variant" in cap:
    V = cap["variant"]; print([a for a in dir(V) if not a.startswith("__")][:30]); 
    u = cap["out"][[cap["names"].index(n) for n in cap["names"] if n.startswith("res")], 1:]; print(cap["names"]); print("u", u.shape, str(u[0,0]).replace("\n"," ")[:150])
    inp = cap["in"]; out = cap["out"]; names = cap["names"]
    print("in row a:", [str(v)[:8] for v in inp[0]]); print("res_a:", [str(v).replace("\n"," ")[:40] for v in out[2]])
    ncol = inp.shape[1]
    fitted = [t for t in range(1, ncol) if all(isinstance(inp[r,c], SR) for r in (0,1) for c in (t, t-1))]
    print("fitted columns", fitted)
    s = z3.Solver(); s.set("timeout", 60000); s.add(assumptions)
    conds = []
    for eq in (2,3):
        for reg in (0,1,"k"):
            tot = 0
            for t in fitted:
                r = 1 if reg=="k" else inp[reg, t-1].t
                tot = tot + out[eq,t].t * r
            conds.append(tot != 0)
    s.add(z3.Or(conds)); t0=time.time(); print("orthogonality:", s.check(), round(time.time()-t0,2), "s", len(assumptions), "contract eqs")
