import warnings; warnings.filterwarnings("ignore")
import numpy as np, z3, sys, time, math, types, traceback, io, contextlib
from symreal2 import *
import onp2
import irispie as ir
src = r"""
!transition-variables
    x, p
!transition-shocks
    ex, ep
!parameters
    a, c
!transition-equations
    x = a*x[-1] + ex;
    p = c*p[-1] + 0.2*x + ep;
!measurement-variables
    ox, op
!measurement-shocks
    wx
!measurement-equations
    ox = x + 1 + wx;
    op = p + x;
"""
m = ir.Simultaneous.from_string(src, linear=True)
m.assign(a=0.5, c=0.6, std_ex=1.0, std_ep=0.5, std_wx=0.3)
with contextlib.redirect_stdout(io.StringIO()):
    m.solve_steady(); m.solve()
span = ir.qq(2020,1)>>ir.qq(2020,3)
db = ir.Databox()
db["ox"] = ir.Series(periods=span, values=(1.2, np.nan, 0.7))
db["op"] = ir.Series(periods=span, values=(0.3, 0.1, np.nan))
out, info = m.kalman_filter(db, span, return_info=True)
print("concrete smooth x:", out["smooth_med"]["x"].get_data().T, "nll", info["neg_log_likelihood"])
from irispie.fords import kalmans as kk
from irispie.simultaneous import _kalmans as sk
from irispie.dataslates import main as dm, _variants as dv
import irispie.series.main as sm
from irispie.fords import covariances as cv
onp2.install(kk, sk, sm, cv)
RealDS = kk.Dataslate
cap = {}
def objectify(ds, lift=False):
    for v in ds._variants:
        d = v.data; obj = np.empty(d.shape, dtype=object)
        for i in range(d.shape[0]):
            for j in range(d.shape[1]):
                if math.isnan(d[i,j]): obj[i,j] = float('nan')
                elif lift and ds.names[i] in LIFT_ROWS: obj[i,j] = sym(f"{ds.names[i]}__{j}")
                else: obj[i,j] = d[i,j]
        v.data = obj
    return ds
class LiftDS:
    def __getattr__(self, n): return getattr(RealDS, n)
    def from_databox_for_slatable(self, *a, **k):
        ds = RealDS.from_databox_for_slatable(*a, **k); cap["names"]=ds.names; return objectify(ds, lift=True)
    def nan_from_template(self, *a, **k): return objectify(RealDS.nan_from_template(*a, **k))
    def nan_from_names_periods(self, *a, **k): return objectify(RealDS.nan_from_names_periods(*a, **k))
kk.Dataslate = LiftDS()
def ground(a):
    a = np.asarray(a)
    if a.dtype != object: return a
    return np.array(a.tolist(), dtype=float)   # raises via float(SR) if symbolic
kk._INVERSE_FUNCTION["regular"] = lambda F: np.linalg.inv(ground(F))
class _LA:
    def __getattr__(self, n): return getattr(np.linalg, n)
    def det(self, a): return np.linalg.det(ground(a))
onp2.onp.linalg = _LA()
LIFT_ROWS = ("ox", "op")

try:
    out2, info2 = m.kalman_filter(db, span, return_info=True)
    s = out2["smooth_med"]
    for n in ("x","p","ox","op","ex","wx"):
        print(n, [str(v).replace("\n"," ")[:80] for v in s[n].data[:,0]])
    print("nll", str(info2["neg_log_likelihood"])[:200])
except Exception as e:
    tb = traceback.extract_tb(e.__traceback__)
    print("FAIL", type(e).__name__, str(e)[:300], [(t.filename.split('/')[-1], t.lineno) for t in tb[-6:]])
