import warnings; warnings.filterwarnings("ignore")
import numpy as np, z3, sys, time, math, types, traceback
from symreal2 import *
import symreal2
symreal2.SR.__bool__ = lambda s: True          # path: anticipated shocks non-zero
symreal2.SR.__float__ = lambda s: (_ for _ in ()).throw(RuntimeError("float() on symbolic"))
import onp2
import irispie as ir
src = open("fo1.py").read().split('src = r"""')[1].split('"""')[0]
PAR = dict(a=0.5, b=0.1, c=0.6, d=0.05)
m = ir.Simultaneous.from_string(src, linear=True); m.assign(**PAR); m.solve()
span = ir.qq(2020,1)>>ir.qq(2021,2); NT = len(span)
db = ir.Databox()
for n in ("ex","ep","ant_ex","ant_ep","wobs"):
    pass
db["ex"] = ir.Series(periods=span, values=tuple([1.0]*NT)); db["ep"] = ir.Series(periods=span, values=tuple([1.0]*NT))
for n in ("x","p","r"): db[n] = ir.Series(periods=(ir.qq(2019,4),), values=(0.2,))
from irispie.fords import simulators as fs, shock_simulators as fss
onp2.install(fs, fss)
cap = {}; real = fs.simulate_frame
LIFT = ("x","p","r","ex","ep","ant_ex","ant_ep")
def lifted(model_v, frame_ds, **kw):
    v = frame_ds._variants[0]; data = v.data; names = frame_ds.names
    obj = np.empty(data.shape, dtype=object)
    for i in range(data.shape[0]):
        for j in range(data.shape[1]):
            obj[i,j] = float('nan') if math.isnan(data[i,j]) else (sym(f"{names[i]}__{j}") if names[i] in LIFT else float(data[i,j]))
    v.data = obj
    try:
        r = real(model_v, frame_ds, **kw); cap["out"]=v.data.copy(); cap["names"]=names; cap["periods"]=frame_ds.periods
    finally: v.data = data
    return r
fs.simulate_frame = lifted
t0 = time.time()
m.simulate(db, span, method="first_order", deviation=True)
print("lifted run", round(time.time()-t0,3), "s; periods", cap["periods"][0], cap["periods"][-1])
names = cap["names"]; out = cap["out"]; row = {n:i for i,n in enumerate(names)}
ncol = out.shape[1]
def val(n, j, now):
    """value of n at column j as seen from column `now`: E_now -> zero unanticipated shocks dated after now"""
    v = out[row[n], j]
    t = v.t if isinstance(v, SR) else z3.RealVal(str(v))
    if j > now:
        subs = [(z3.Real(f"{s}__{k}"), z3.RealVal(0)) for s in ("ex","ep") for k in range(now+1, ncol)]
        t = z3.substitute(t, *subs)
    return t
a,b,c,d = (z3.RealVal(str(PAR[k])) for k in "abcd")
viol = []
for j in range(1, 1+4):      # first four simulated columns
    X = lambda n,k: val(n, j+k, j)
    e1 = -X("x",0) + a*X("x",-1) + (1-a)*X("x",1) - b*(X("r",0) - X("p",1)) + X("ex",0) + X("ant_ex",0)
    e2 = -X("p",0) + c*X("p",1) + (1-c)*X("p",-1) + d*X("x",0) + X("ep",0) + X("ant_ep",0)
    e3 = -X("r",0) + z3.RealVal("0.7")*X("r",-1) + z3.RealVal("0.3")*(z3.RealVal("1.5")*X("p",0) + z3.RealVal("0.5")*X("x",0))
    e4 = -X("obs_x",0) + X("x",0)
    for e in (e1,e2,e3,e4): viol.append(z3.Or(e > 1e-9, e < -1e-9))
s = z3.Solver()
syms = set()
for j in range(ncol):
    for n in LIFT:
        v = out[row[n], j]
for n in LIFT:
    for j in range(ncol):
        x = z3.Real(f"{n}__{j}"); s.add(x >= -1, x <= 1)
s.add(z3.Or(viol)); t0=time.time(); r = s.check(); print("all equations hold for all shocks/initials in unit box:", r, round(time.time()-t0,2), "s")
if r == z3.sat: print(s.model())
# mutation-style sanity: perturb oracle coefficient -> must be sat
s2 = z3.Solver()
for n in LIFT:
    for j in range(ncol):
        x = z3.Real(f"{n}__{j}"); s2.add(x >= -1, x <= 1)
j=2; X = lambda n,k: val(n, j+k, j)
e3m = -X("r",0) + z3.RealVal("0.7")*X("r",-1) + z3.RealVal("0.3")*(z3.RealVal("1.4")*X("p",0) + z3.RealVal("0.5")*X("x",0))
s2.add(z3.Or(e3m > 1e-9, e3m < -1e-9)); print("sanity (wrong coefficient) ->", s2.check())
