import warnings; warnings.filterwarnings("ignore")
import numpy as np, z3, sys, time, math, types, traceback, io, contextlib
from symreal2 import *
import onp2
import irispie as ir
src = r"""
!transition-variables
    y, c, k, r
!log-variables
    y, c, k
!transition-shocks
    e
!parameters
    alpha, beta, delta
!transition-equations
    y = k[-1]^alpha * exp(e);
    c + k = y + (1-delta)*k[-1];
    1/c = beta*(1/c[+1])*(1 + r[+1] - delta);
    r = alpha*y/k[-1];
!measurement-variables
    oy
!measurement-equations
    oy = 100*log(y);
"""
m = ir.Simultaneous.from_string(src, flat=True)
m.assign(alpha=0.3, beta=0.95, delta=0.1); m.assign(y=1.0, c=0.8, k=2.0, r=0.15)
with contextlib.redirect_stdout(io.StringIO()):
    m.solve_steady(); m.solve()
from irispie.fords import systems as fsys, descriptors as fd
from irispie.aldi import differentiators as ad
from irispie.equators import plain as pl
onp2.install(fsys, ad, pl)
cap = {}
RealSystem = fsys.System
class Spy(RealSystem):
    def __init__(self, descriptor, data_array, model_flags, data_array_lagged, column_offset):
        cap.update(descriptor=descriptor, data=data_array.copy(), flags=model_flags, lagged=None if data_array_lagged is None else data_array_lagged.copy(), off=column_offset)
        super().__init__(descriptor, data_array, model_flags, data_array_lagged, column_offset)
import irispie.simultaneous.main as smain
for modname, mod in list(sys.modules.items()):
    if modname.startswith("irispie") and getattr(mod, "System", None) is RealSystem: mod.System = Spy
    if modname.startswith("irispie") and getattr(getattr(mod, "_systems", None), "System", None) is RealSystem: pass
fsys.System = Spy
sysm = m.systemize() if hasattr(m, "systemize") else None
print("captured:", {k: (v.shape if hasattr(v,"shape") else type(v).__name__) for k,v in cap.items()})
d = cap["data"]; obj = np.empty(d.shape, dtype=object)
for i in range(d.shape[0]):
    for j in range(d.shape[1]):
        obj[i,j] = float('nan') if math.isnan(d[i,j]) else sym(f"d{i}_{j}")
lag = None
if cap["lagged"] is not None:
    lag = np.empty(d.shape, dtype=object)
    for i in range(d.shape[0]):
        for j in range(d.shape[1]):
            lag[i,j] = float('nan') if math.isnan(cap["lagged"][i,j]) else sym(f"l{i}_{j}")
try:
    S = RealSystem(cap["descriptor"], obj, cap["flags"], lag, cap["off"])
    for nme in "ABDFGJ":
        M = getattr(S, nme); print(nme, M.shape, M.dtype)
    A = S.A
    for i in range(A.shape[0]):
        print("A row", i, [str(v).replace("\n"," ")[:50] for v in A[i]])
    vec = cap["descriptor"].system_vectors
    print("xi:", vec.transition_variables)
except Exception as e:
    tb = traceback.extract_tb(e.__traceback__)
    print("FAIL", type(e).__name__, str(e)[:300], [(t.filename.split('/')[-1], t.lineno) for t in tb[-5:]])
