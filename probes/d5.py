import chfix
import warnings; warnings.filterwarnings("ignore")
from irispie import dates as D

def span_enum(a: int, n: int, step: int) -> bool:
    """
    pre: step != 0 and -3 <= step <= 3 and -4 <= n <= 4 and -8 <= a <= 8
    post: _
    """
    b = a + n
    sp = D.Span(D.QuarterlyPeriod(a), D.QuarterlyPeriod(b), step)
    items = list(sp)
    k = len(sp)
    ok = k == len(items)
    i = 0
    for p in items:
        ok = ok and p.serial == a + i*step and sp[i].serial == p.serial
        i += 1
    if k:
        last = a + (k-1)*step
        ok = ok and ((step > 0 and last <= b < last + step) or (step < 0 and last >= b > last + step))
    else:
        ok = ok and ((step > 0 and a > b) or (step < 0 and a < b))
    return ok

def sdmx_m(serial: int) -> bool:
    """
    pre: 1999*12 <= serial < 2001*12
    post: _
    """
    p = D.MonthlyPeriod(serial)
    s = p.to_sdmx_string()
    q = D.Period.from_sdmx_string(s)
    return q.serial == serial and type(q) is D.MonthlyPeriod

def hash_q(s1: int, s2: int) -> bool:
    """
    pre: 0 <= s1 < 6 and 0 <= s2 < 6
    post: _
    """
    p = D.QuarterlyPeriod(s1); q = D.QuarterlyPeriod(s2)
    return (not (p == q)) or hash(p) == hash(q)
