import warnings; warnings.filterwarnings("ignore")
import numpy as np, z3, itertools, time, sys
exec(open("bl1.py").read().split("n = int(sys.argv[1])")[0])
n = int(sys.argv[1])
V = {(i,j): z3.Bool(f"m_{i}_{j}") for i in range(n) for j in range(n)}
pm = z3.Or([z3.And([V[(i,p[i])] for i in range(n)]) for p in itertools.permutations(range(n))])
S = z3.Solver(); S.add(pm)
paths = 0; viol = 0; t0 = time.time(); covered = 0
while True:
    if S.check() != z3.sat: break
    mdl = S.model()
    bits = [1 if z3.is_true(mdl.eval(V[(i,j)], model_completion=True)) else 0 for i in range(n) for j in range(n)]
    blocks, pc, _ = run(n, bits)
    paths += 1
    # property under path condition
    eb = {}; qb = {}
    for b, blk in enumerate(blocks):
        for e in blk.eids: eb[int(e)] = b
        for q in blk.qids: qb[int(q)] = b
    ok_struct = sorted(eb)==list(range(n)) and sorted(qb)==list(range(n)) and all(len(b.eids)==len(b.qids) for b in blocks)
    bad = z3.Or([V[(e,q)] for e in range(n) for q in range(n) if qb[q] > eb[e]] + [z3.BoolVal(False)])
    chk = z3.Solver(); chk.add(pm); chk.add(pc); chk.add(bad)
    if not ok_struct or chk.check() == z3.sat: viol += 1; print("VIOLATION candidate", bits, [(b.eids,b.qids) for b in blocks])
    S.add(z3.Not(z3.And(pc)))
print(f"n={n}: paths={paths} violations={viol} time={time.time()-t0:.1f}s")
