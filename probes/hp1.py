import warnings; warnings.filterwarnings("ignore")
import numpy as np, z3, sys, time, math, types, traceback
from symreal2 import *
import symreal2
import onp2
import irispie as ir
import irispie.series.main as sm, irispie.series._hp as hp
mods = [m for n, m in sys.modules.items() if n.startswith("irispie.series")]
onp2.install(*mods)
fresh = []; assumptions = []
class _LA:
    def __getattr__(self, n): return getattr(np.linalg, n)
    def solve(self, A, B):
        A = np.asarray(A); B = np.asarray(B)
        if A.dtype != object and B.dtype != object: return np.linalg.solve(A, B)
        X = np.empty(B.shape, dtype=object)
        for idx in np.ndindex(*B.shape):
            X[idx] = sym(f"z{len(fresh)}"); fresh.append(X[idx])
        R = A @ X
        for idx in np.ndindex(*B.shape):
            b = B[idx]; b = lift(b)
            assumptions.append(R[idx].t == b)
        return X
onp2.onp.linalg = _LA()
n = 5
def arr(name, k):
    a = np.empty((k,1), dtype=object)
    for i in range(k): a[i,0] = sym(f"{name}{i}")
    return a
d = arr("y", n); d[2,0] = float('nan')
x = ir.Series.from_start_and_array(ir.qq(2020,1), d); x.data_type = object
lv = ir.Series.from_start_and_array(ir.qq(2020,4), arr("lev", 1)); lv.data_type = object
try:
    lam = 10
    trend, gap = ir.hpf(x, smooth=lam, level=lv)
    print("trend", [str(v)[:30] for v in trend.data[:,0]], trend.start)
    print("gap", [str(v).replace("\n"," ")[:40] for v in gap.data[:,0]])
    print(len(assumptions), "contract equations;", len(fresh), "fresh")
    # oracle KKT
    T = [fresh[i].t for i in range(n)]; mu = fresh[n].t
    K = np.zeros((n-2, n)); 
    for i in range(n-2): K[i,i]=1; K[i,i+1]=-2; K[i,i+2]=1
    KK = K.T @ K
    s = z3.Solver(); s.add(assumptions)
    foc = []
    for i in range(n):
        obs = 0 if i==2 else 1
        g = sum(z3.RealVal(str(lam*KK[i,j]))*T[j] for j in range(n))
        if obs: g = g + (T[i] - d[i,0].t)
        if i == 3: g = g + mu
        foc.append(g != 0)
    foc.append(T[3] != lv.data[0,0].t)
    s.add(z3.Or(foc)); t0=time.time(); print("KKT check:", s.check(), round(time.time()-t0,3))
    # trend+gap=data where observed
    s2 = z3.Solver(); s2.add(assumptions); s2.add(z3.Or([ (trend.data[i,0].t + gap.data[i,0].t != d[i,0].t) for i in range(n) if i!=2])); print("trend+gap:", s2.check())
except Exception as e:
    tb = traceback.extract_tb(e.__traceback__)
    print("FAIL", type(e).__name__, str(e)[:300], [(t.filename.split('/')[-1], t.lineno) for t in tb[-5:]])
