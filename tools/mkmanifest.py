#!/usr/bin/env python3
"""Generate /verif/MANIFEST.json from the table below and validate it against the schema."""
import json, os, sys
V = os.path.dirname(os.path.dirname(os.path.abspath(__file__)))
sys.path.insert(0, os.path.join(V, "tools"))
from manifest_table import CHECKS, NOT_APPLICABLE, ENGINES, NOTES

props = [json.loads(l)["id"] for l in open(os.path.join(V, "properties.jsonl"))]
checks = []
for pid in props:
    if pid not in CHECKS:
        continue
    c = CHECKS[pid]
    checks.append({
        "property_id": pid,
        "quick_cmd": f"./check {pid} --tier quick",
        "thorough_cmd": f"./check {pid} --tier thorough",
        "evidence_file": f"/verif/evidence/{pid}.json",
        "replay_cmd_template": f"./check {pid} --replay {{path}}",
        "engine": c["engine"],
        "level_claimed": {"category": c.get("category", "model_checking"), "text": c["text"], "design_ref": f"DESIGN.md section 3, {pid}"},
        "level_note": c["note"],
        "technique": c["technique"],
    })
na = [{"property_id": p, "reason": NOT_APPLICABLE[p]} for p in props if p not in CHECKS]
assert all(p in NOT_APPLICABLE for p in props if p not in CHECKS), [p for p in props if p not in CHECKS and p not in NOT_APPLICABLE]
m = {
    "version": 1,
    "setup_cmd": "./setup.sh",
    "hooks": {
        "guard": "IRISPIE_VERIF",
        "enable": "none needed: checks monkeypatch kernel entry points from the harness process; /repo carries no hook commits (the guard name is reserved; ./check exports IRISPIE_VERIF=1)",
        "baseline_off_cmd": "cd /repo && /venv/bin/python -m pytest -ra -q -p no:cacheprovider --timeout=900 --continue-on-collection-errors",
        "source_commits": [],
        "add_only": True,
    },
    "engines": ENGINES,
    "checks": checks,
    "notes": NOTES,
    "not_applicable": na,
}
json.dump(m, open(os.path.join(V, "MANIFEST.json"), "w"), indent=1)
try:
    import jsonschema
    jsonschema.validate(m, json.load(open("/root/.vp/MANIFEST.schema.json")))
    print("MANIFEST.json valid;", len(checks), "checks,", len(na), "not_applicable")
except ImportError:
    print("jsonschema missing; written without validation")
