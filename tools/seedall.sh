#!/bin/bash
# tools/seedall.sh [seed-name ...]  -- re-run every stored seeded change against the current checks.
# For each /verif/seeded/<name>: git -C /repo apply patch.diff; run the check_cmd recorded in meta.json; git -C /repo checkout -- .
# and record check_rc / number of VIOLATION lines in meta.json.  /repo must be clean when this starts; it is clean when it ends.
cd /verif || exit 2
[ -z "$(git -C /repo status --porcelain --untracked-files=no)" ] || { echo "/repo is not clean"; exit 2; }
NAMES=${@:-$(ls seeded)}
for NAME in $NAMES; do
  D=/verif/seeded/$NAME
  [ -f $D/meta.json ] || continue
  CMD=$(python3 -c "import json;print(json.load(open('$D/meta.json'))['check_cmd'])")
  git -C /repo apply $D/patch.diff || { echo "$NAME: patch does not apply"; continue; }
  LOG=$(mktemp)
  $CMD > $LOG 2>&1; RC=$?
  git -C /repo checkout -- .
  NV=$(grep -c "^VIOLATION" $LOG)
  FIRST=$(grep -a -A1 "^VIOLATION" $LOG | sed -n 2p | cut -c1-260)
  echo "$NAME: $CMD rc=$RC violations=$NV"
  python3 - "$D/meta.json" "$RC" "$NV" "$FIRST" <<'PY'
import json, sys
p, rc, nv, first = sys.argv[1:5]
m = json.load(open(p)); m["check_rc"] = int(rc); m["violations_reported"] = int(nv); m["first_violation"] = first.strip()
json.dump(m, open(p, "w"), indent=1)
PY
  rm -f $LOG
done
