#!/bin/bash
# tools/seedtest.sh <seed-name> <property-id> <worktree> [tier] [seed-dir holding demo.py/notes.md; default <worktree>/_seed]
# 1. confirm in the scratch worktree: demo FAILS with the change, PASSES without, test suite still 254 passed
# 2. store under /verif/seeded/<seed-name>/  3. apply to /repo, run the check, undo
NAME=$1; PID=$2; WT=$3; TIER=${4:-quick}; SD=${5:-$3/_seed}
set -u
cd "$WT" || exit 2
git diff -- src > /tmp/seed_$NAME.diff
[ -s /tmp/seed_$NAME.diff ] || { echo "no source change in $WT"; exit 2; }
run() { (cd "$WT" && PYTHONPATH="$WT/src" PYTHONWARNINGS=ignore /venv/bin/python "$@"); }
run "$SD/demo.py" > /tmp/seed_$NAME.with.log 2>&1; RC_WITH=$?
git apply -R /tmp/seed_$NAME.diff      # (never git stash: refs/stash is shared by all worktrees)
run "$SD/demo.py" > /tmp/seed_$NAME.without.log 2>&1; RC_WITHOUT=$?
git apply /tmp/seed_$NAME.diff
PYT=$(cd "$WT" && PYTHONPATH="$WT/src" /venv/bin/python -m pytest -q -p no:cacheprovider --timeout=900 --continue-on-collection-errors 2>&1 | tail -1)
echo "demo with change rc=$RC_WITH (expect 1); without rc=$RC_WITHOUT (expect 0); pytest: $PYT"
mkdir -p /verif/seeded/$NAME
cp /tmp/seed_$NAME.diff /verif/seeded/$NAME/patch.diff
cp "$SD/demo.py" /verif/seeded/$NAME/demo.py
[ -f "$SD/notes.md" ] && cp "$SD/notes.md" /verif/seeded/$NAME/notes.md
# 3. run the check against the change in /repo
cd /verif
if [ "${SEED_VIA_WORKTREE:-0}" = 1 ]; then
  # /repo is busy (a thorough run reads it): point the check at the worktree's source instead of patching /repo
  PYTHONPATH="$WT/src" ./check $PID --tier $TIER > /tmp/seed_$NAME.check.log 2>&1; RC_CHECK=$?
else
  git -C /repo apply /verif/seeded/$NAME/patch.diff || { echo "patch does not apply to /repo"; exit 2; }
  ./check $PID --tier $TIER > /tmp/seed_$NAME.check.log 2>&1; RC_CHECK=$?
  git -C /repo checkout -- .
fi
echo "check $PID ($TIER) rc=$RC_CHECK"; grep -c "^VIOLATION" /tmp/seed_$NAME.check.log; grep "^VIOLATION" -A1 /tmp/seed_$NAME.check.log | head -6 | cut -c1-300; tail -1 /tmp/seed_$NAME.check.log | cut -c1-250
python3 - <<PY
import json
json.dump({"seed": "$NAME", "property": "$PID", "demo_with_change_rc": $RC_WITH, "demo_without_change_rc": $RC_WITHOUT, "pytest_with_change": """$PYT""",
           "check_cmd": "./check $PID --tier $TIER", "check_rc": $RC_CHECK}, open("/verif/seeded/$NAME/meta.json", "w"), indent=1)
PY
