ENGINES = [
    {"name": "SX", "path": "/verif/symx", "kind_free_text": "concolic value-symbolic execution of irispie's real numeric kernels on numpy object arrays of z3 Real terms; z3 decides each obligation for all values; sat models are replayed in floats",
     "serves_properties": ["C02", "C13", "C17"]},
    {"name": "XH", "path": "/verif/xh", "kind_free_text": "CrossHair (symbolic execution of Python with z3) on harnesses calling the real irispie.dates / index code",
     "serves_properties": ["C09", "C11"]},
]
NOTES = ("Solver-based checking only. Every check regenerates its encoding by executing /repo's current source. "
         "Exit 3 = inconclusive/harness error (never success). See DESIGN.md.")
_PENDING = "check not built yet in this round (planned per DESIGN.md section 3); nothing is claimed for it until its check is registered"
CHECKS = {
    "C02": dict(engine="SX", technique="symbolic execution of the real Atom rules on z3 reals + SMT (QF_UFNRA) equivalence with independently written calculus rules; concolic path enumeration for maximum",
                text="Bounded SMT check: each differentiation rule of Atom/adaptations is executed on arbitrary symbolic (value, derivative) operands and z3 shows the result equals the calculus rule for every real in the rule's domain (inductive step for trees of any size); functions not implemented on Atom are executed and must raise.",
                note="Reals not floats; LOG/EXP/SQRT uninterpreted with normalising constructors; scipy expit replaced by its definition; stacked-time Jacobian assembly outside the claim."),
}
CHECKS["C13"] = dict(engine="SX", technique="symbolic execution of the real Series temporal code on cell-tagged object arrays + SMT (QF_UFNRA) equality with the documented formulas",
    text="Bounded SMT check: diff/diff_log/pct/roc (integer and keyword shifts), annualised variants, rate conversions and the four cumulations are run on Series whose cells are distinct symbolic reals; z3 shows every output cell equals the documented formula of the right input cells (and cumulation returns the original terms) for all positive reals, on every enumerated structure.",
    note="Structure (frequency, offset, length<=15, variants<=2, <=1 missing period, shift list) enumerated; reals not floats; float constants within 2^-50 of a small rational are read as that rational; daily frequency outside the claim.")
CHECKS["C17"] = dict(engine="SX", technique="lifting Sequential.simulate at its kernel entry onto z3 reals + SMT (QF_UFNRA) check of every source equation on the symbolic output",
    text="Bounded SMT check: the unmodified sequential kernel runs on one symbol per input cell; z3 shows that for all positive reals every equation as written in the source (transform(lhs)=rhs+residual) holds in every simulated period, exogenized points take the implied value, non-exogenized residuals and all other cells are unchanged, under both execution orders where valid.",
    note="Model templates (3 equations, 6x6 LHS transforms, lags<=2), spans<=3, plan list enumerated; reals not floats; LOG/EXP uninterpreted with normalising constructors.")
CHECKS["C09"] = dict(engine="XH", technique="CrossHair symbolic execution (z3) of the real irispie.dates code on symbolic int serials/offsets/steps, per-condition path exhaustion with reachability twins",
    text="Bounded symbolic execution: for every period class, CrossHair explores all paths of harnesses calling the real Period/Span code with symbolic integers and confirms arithmetic/order laws (unbounded ints), year/segment and keyword-shift accessors (years +-10000), calendar tiling via to_ymd/to_daily (years 1..9998), the daily ymd round trip on all ordinals, mixed-frequency rejection, and Span enumeration/len/indexing/reversal/offset/mutation/resolve/operators on small symbolic spans.",
    note="datetime.date and calendar.monthrange replaced by a loop-free integer calendar validated against the real modules on each run; counterexamples replayed with the real datetime; bounds per condition in the evidence samples; hash only on 6x6 windows.")
CHECKS["C11"] = dict(engine="XH", technique="CrossHair symbolic execution (z3) of the real irispie.dates conversion code on symbolic int serials and positions, with reachability twins",
    text="Bounded symbolic execution: CrossHair confirms over all paths the (year,segment)/(y,m,d)/python-date round trips for every period of years 1..9998 and all daily ordinals, the ISO/SDMX(auto-detected)/repr string round trips on boundary windows, and for every ordered pair of calendar frequencies that refrequent contains the chosen day, is monotone and returns to the source period.",
    note="datetime/calendar replaced by a validated loop-free integer calendar; string legs only on 2-year windows at 0009/0099/0999/1999/9998 and daily windows; CSV import/export legs outside the claim (file I/O).")
NOT_APPLICABLE = {f"C{i:02d}": _PENDING for i in range(1, 21)}
