ENGINES = [
    {"name": "SX", "path": "/verif/symx", "kind_free_text": "concolic value-symbolic execution of irispie's real numeric kernels on numpy object arrays of z3 Real terms; z3 decides each obligation for all values; sat models are replayed in floats",
     "serves_properties": ["C02"]},
    {"name": "XH", "path": "/verif/xh", "kind_free_text": "CrossHair (symbolic execution of Python with z3) on harnesses calling the real irispie.dates / index code",
     "serves_properties": []},
]
NOTES = ("Solver-based checking only. Every check regenerates its encoding by executing /repo's current source. "
         "Exit 3 = inconclusive/harness error (never success). See DESIGN.md.")
_PENDING = "check not built yet in this round (planned per DESIGN.md section 3); nothing is claimed for it until its check is registered"
CHECKS = {
    "C02": dict(engine="SX", technique="symbolic execution of the real Atom rules on z3 reals + SMT (QF_UFNRA) equivalence with independently written calculus rules; concolic path enumeration for maximum",
                text="Bounded SMT check: each differentiation rule of Atom/adaptations is executed on arbitrary symbolic (value, derivative) operands and z3 shows the result equals the calculus rule for every real in the rule's domain (inductive step for trees of any size); functions not implemented on Atom are executed and must raise.",
                note="Reals not floats; LOG/EXP/SQRT uninterpreted with normalising constructors; scipy expit replaced by its definition; stacked-time Jacobian assembly outside the claim."),
}
NOT_APPLICABLE = {f"C{i:02d}": _PENDING for i in range(1, 21)}
