#!/bin/bash
# tools/quick_all.sh [ID ...] -- run every quick command end to end, one after the other, and print one summary line each
cd "$(dirname "$0")/.." || exit 2
IDS=${@:-C01 C02 C03 C04 C05 C06 C07 C08 C09 C10 C11 C12 C13 C14 C15 C16 C17 C18 C19 C20}
RC_ALL=0
for ID in $IDS; do
  T0=$(date +%s)
  OUT=$(./check $ID --tier quick 2>&1); RC=$?
  T1=$(date +%s)
  echo "$ID rc=$RC wall=$((T1-T0))s $(echo "$OUT" | grep -a "^\[$ID\]" | tail -1 | cut -c1-260)"
  echo "$OUT" | grep -a "^VIOLATION\|^INCONCLUSIVE\|^HARNESS-ERROR" | head -5 | cut -c1-300
  [ $RC -ne 0 ] && RC_ALL=1
done
exit $RC_ALL
