#!/bin/bash
# tools/seedall_wt.sh -- like seedall.sh, but never touches /repo: every seed gets its own scratch worktree (under /tmp, removed afterwards)
# and the check is pointed at it through PYTHONPATH.  Seeds of different properties run in parallel, seeds of one property one after the other
# (a check writes evidence/<id>.json and its scratch files under fixed names).
cd /verif || exit 2
IDS=$(ls seeded | sed 's/_.*//' | sort -u)
one_id() {
  ID=$1
  for D in /verif/seeded/${ID}_*; do
    NAME=$(basename $D)
    [ -f $D/meta.json ] || continue
    CMD=$(python3 -c "import json;print(json.load(open('$D/meta.json'))['check_cmd'])")
    WT=/tmp/seedwt_$NAME
    git -C /repo worktree add --detach $WT HEAD >/dev/null 2>&1 || { echo "$NAME: worktree failed"; continue; }
    if git -C $WT apply $D/patch.diff 2>/dev/null; then
      LOG=$(mktemp)
      PYTHONPATH=$WT/src $CMD > $LOG 2>&1; RC=$?
      NV=$(grep -c "^VIOLATION" $LOG)
      FIRST=$(grep -a -A1 "^VIOLATION" $LOG | sed -n 2p | cut -c1-260)
      echo "$NAME: $CMD rc=$RC violations=$NV"
      python3 - "$D/meta.json" "$RC" "$NV" "$FIRST" <<'PY'
import json, sys
p, rc, nv, first = sys.argv[1:5]
m = json.load(open(p)); m["check_rc"] = int(rc); m["violations_reported"] = int(nv); m["first_violation"] = first.strip()
json.dump(m, open(p, "w"), indent=1)
PY
      rm -f $LOG
    else
      echo "$NAME: patch does not apply"
    fi
    git -C /repo worktree remove --force $WT >/dev/null 2>&1
  done
}
for ID in $IDS; do one_id $ID & done
wait
git -C /repo worktree prune
