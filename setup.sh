#!/bin/bash
# Build the overlay venv used by every check: /venv's site-packages (irispie editable -> /repo/src)
# plus crosshair-tool, z3-solver, cvc5 from the offline wheelhouse. Idempotent; offline.
set -e
V=/verif/.venv
if [ -x "$V/bin/python" ] && "$V/bin/python" -c "import z3, crosshair, numpy" 2>/dev/null; then
  exit 0
fi
LOCK=/verif/.venv.lock
exec 9>"$LOCK"
flock 9
if [ -x "$V/bin/python" ] && "$V/bin/python" -c "import z3, crosshair, numpy" 2>/dev/null; then
  exit 0
fi
rm -rf "$V"
/venv/bin/python -m venv "$V"
SP=$("$V/bin/python" -c "import sysconfig; print(sysconfig.get_paths()['purelib'])")
echo "import site; site.addsitedir('/venv/lib/python3.12/site-packages')" > "$SP/_overlay.pth"
PIP_NO_INDEX=1 "$V/bin/pip" install -q --no-index --find-links /opt/veriftools/wheels crosshair-tool z3-solver cvc5 jsonschema >/dev/null
"$V/bin/python" -c "import z3, crosshair, numpy, irispie" 2>/dev/null
