"""
C12 -- Aggregation and disaggregation respect calendar membership and are consistent.

The real series/_conversions.py code (aggregate, disaggregate, _aggregate_regular_to_regular, _aggregate_daily_to_regular,
_aggregate_within_data, _disaggregate_*) runs on Series whose cells are distinct symbols ("cell tagging"); structure (frequency
pair, start offset over a full coarse period, length, variants, missing mask, method, options) is enumerated, values are
symbolic.  Because tags are distinct variables, "output term == method(member tags) for all values" <=> exactly the member
cells were used.  z3 decides each structure; min/max branch on data and are explored path by path (DART).
arip: one KKT system, numpy.linalg.solve stubbed by its contract; constraints, targets and stationarity decided (QF_LRA/NRA).
"""
from __future__ import annotations

import itertools
import math
from fractions import Fraction

import numpy as np
import z3

from symx import sreal as S
from symx import npproxy
from symx.gmath import ITE
from symx.series_tools import load_irispie, series_modules, tagged, float_series, cellmap, none_is_nan_patch
from symx.concolic import model_values, explore
from symx.report import standard_main
from xh import calstub

PID = "C12"
FREQ = {"Y": 1, "H": 2, "Q": 4, "M": 12, "D": 365}
METHODS = ("sum", "prod", "mean", "first", "last", "min", "max")


def _freq(ir, k):
    return {"Y": ir.Frequency.YEARLY, "H": ir.Frequency.HALFYEARLY, "Q": ir.Frequency.QUARTERLY, "M": ir.Frequency.MONTHLY, "D": ir.Frequency.DAILY}[k]


def _period(ir, k, serial):
    from irispie import dates as D
    return {"Y": D.YearlyPeriod, "H": D.HalfyearlyPeriod, "Q": D.QuarterlyPeriod, "M": D.MonthlyPeriod, "D": D.DailyPeriod}[k](serial)


def coarse_of(fine_k, coarse_k, s):
    """serial of the coarse period containing fine serial s -- calendar membership written independently"""
    if fine_k == "D":
        y, m, d = calstub.civil_from_days(s)
        seg = {"Y": 0, "H": (m - 1) // 6, "Q": (m - 1) // 3, "M": m - 1}[coarse_k]
        return y * FREQ[coarse_k] + seg
    factor = FREQ[fine_k] // FREQ[coarse_k]
    return s // factor


def members_of(fine_k, coarse_k, P):
    """fine serials inside coarse period P, in order"""
    if fine_k == "D":
        f = FREQ[coarse_k]
        y, seg = P // f, P % f
        m0 = seg * (12 // f) + 1
        m1 = m0 + 12 // f - 1
        a = calstub.days_from_civil(y, m0, 1)
        b = calstub.days_from_civil(y, m1, calstub.days_in_month(y, m1))
        return list(range(a, b + 1))
    factor = FREQ[fine_k] // FREQ[coarse_k]
    return list(range(P * factor, P * factor + factor))


def _agg_oracle(method, vals, discard, select):
    """vals: member values in order (None = missing).  returns value / None (missing) / 'skip' (not specified)"""
    if select is not None:
        vals = [vals[i] for i in select]
    if discard:
        vals = [v for v in vals if v is not None]
    if not vals:
        return None
    miss = any(v is None for v in vals)
    if method in ("sum", "prod", "mean"):
        if miss:
            return None
        acc = vals[0]
        for v in vals[1:]:
            acc = acc + v if method in ("sum", "mean") else acc * v
        return acc / len(vals) if method == "mean" else acc
    if method == "first":
        return vals[0]
    if method == "last":
        return vals[-1]
    if miss:
        return "skip"
    acc = vals[0]
    for v in vals[1:]:
        acc = ITE(v < acc, v, acc) if method == "min" else ITE(v > acc, v, acc)
    return acc


def _mean(a):
    """contract of statistics.mean: sum/len (NaN propagates); used because statistics' exact-ratio code rejects symbols"""
    a = list(a)
    tot = a[0]
    for v in a[1:]:
        tot = tot + v
    return tot / len(a)


def _structures(tier):
    S_ = []
    pairs = [("Q", "Y"), ("M", "Q"), ("H", "Y")] + ([("M", "Y"), ("M", "H"), ("Q", "H")] if tier == "thorough" else [])
    for fk, ck in pairs:
        factor = FREQ[fk] // FREQ[ck]
        offs = range(factor) if (tier == "thorough" or factor <= 4) else (0, 5)
        for off in offs:
            for n in ((factor + 1, 2 * factor) if tier == "quick" else (1, factor, factor + 2, 2 * factor + 1)):
                if n > 14:
                    continue
                masks = [()] + [(i,) for i in range(1, min(n - 1, 3))]
                for miss in masks:
                    for nvar in ((1,) if tier == "quick" and off else (1, 2)):
                        S_.append((fk, ck, 2020 * FREQ[fk] + off, n, nvar, miss))
    # daily -> monthly around the end of February of a leap and a non-leap year, and a year end
    # (and series that END on 31 / 30 December of a leap year: the padded window of the last period must reach the calendar year end)
    for (y, m, d, n) in ((2024, 2, 27, 5), (2023, 2, 26, 5), (2023, 12, 30, 4), (2024, 12, 29, 3), (2024, 12, 28, 3)) if tier == "quick" else \
            ((2024, 2, 27, 5), (2023, 2, 26, 5), (2023, 12, 30, 4), (2024, 12, 29, 3), (2024, 12, 28, 3), (2020, 12, 30, 2), (2023, 12, 29, 3), (2000, 2, 28, 3), (1900, 2, 27, 4)):
        S_.append(("D", "M", calstub.days_from_civil(y, m, d), n, 1, ()))
        S_.append(("D", "M", calstub.days_from_civil(y, m, d), n, 1, (1,)))
    return S_


def _options(tier, factor):
    yield (False, None)
    yield (True, None)
    if factor >= 3:
        yield (False, (0, factor - 1))
        # select refers to CALENDAR positions inside the coarse period, also when missing members are discarded afterwards
        yield (True, (0, 1))
        if tier == "thorough":
            yield (True, (1,))
            yield (True, (factor - 1,))


def _compare(run, key, finding, case, got, exp, assume, names):
    gk = set(got)
    ek = {k for k, v in exp.items() if v is not None and not isinstance(v, str)}
    skip = {k for k, v in exp.items() if isinstance(v, str)}
    if gk - skip != ek - skip:
        run.counterexample(key, finding, f"non-missing cells differ: extra {sorted(gk - ek - skip)[:4]} missing {sorted(ek - gk - skip)[:4]}",
                           dict(case, values={n: [3 + i, 2] for i, n in enumerate(names)}))
        return False
    eqs = [S.const(got[k]).t == S.const(exp[k]).t for k in sorted(ek - skip)]
    if not eqs:
        run.ok(key, nontrivial=False)
        return True
    k0 = sorted(ek - skip)[0]
    r, m = run.prove(key, z3.And(*eqs), assume, timeout_ms=30000, nl=True,
                     sample={"structure": case, "cell": list(k0), "impl": str(S.const(got[k0]).t)[:120], "oracle": str(S.const(exp[k0]).t)[:120]})
    if r == "unsat":
        run.ok(key)
        return True
    if r == "sat":
        vals = model_values(m, names)
        run.counterexample(key, finding, "an aggregated/disaggregated cell is not the method applied to exactly the member cells",
                           dict(case, values={n: [v.numerator, v.denominator] for n, v in vals.items()}))
        return False
    run.unknown(key, f"solver {r}")
    return False


def check_aggregate(run, ir, fk, ck, start_serial, n, nvar, miss, method, discard, select):
    key = f"aggregate:{fk}->{ck}:s{start_serial}:n{n}v{nvar}m{list(miss)}:{method}:discard={discard}:select={select}"
    case = dict(kind="aggregate", fk=fk, ck=ck, start=start_serial, n=n, nvar=nvar, miss=list(miss), method=method, discard=discard, select=list(select) if select else None)
    finding = f"aggregate:{method}"
    start = _period(ir, fk, start_serial)

    def oracle(cells):
        exp = {}
        coarse = sorted({coarse_of(fk, ck, s) for (s, v) in cells})
        for P in coarse:
            mem = members_of(fk, ck, P)
            for v in range(nvar):
                vals = [cells.get((s, v)) for s in mem]
                o = _agg_oracle(method, vals, discard, select)
                exp[(P, v)] = o
        return exp
    if method in ("min", "max"):
        x0, syms0 = tagged(ir, start, n, nvar, miss, "x")
        names = sorted(syms0)

        def runner(values):
            x, syms = tagged(ir, start, n, nvar, miss, "x", values=values)
            y = ir.aggregate(x, _freq(ir, ck), method=method, discard_missing=discard, select=list(select) if select else None)
            return cellmap(x), cellmap(y)
        init = {nm: Fraction(3 + 2 * ((i * 7) % 5), 2) + Fraction(i, 16) for i, nm in enumerate(names)}
        results, exhausted = explore(names, runner, init=init, max_paths=130, stats=run.q)
        run.paths += len(results)
        if not exhausted:
            run.unknown(key, f"path exploration not exhausted after {len(results)} paths")
            return
        for path, (cells, got), values in results:
            if not _compare(run, key, finding, case, got, oracle(cells), [path.condition()], names):
                return
        return
    x, syms = tagged(ir, start, n, nvar, miss, "x")
    names = sorted(syms)
    try:
        with S.Path() as path:
            y = ir.aggregate(x, _freq(ir, ck), method=method, discard_missing=discard, select=list(select) if select else None)
    except S.SymbolicBranchError:
        raise
    except Exception as exc:
        run.counterexample(key, f"aggregate:raises:select={bool(select)}", f"aggregate(..., method={method!r}, discard_missing={discard}, select={select}) raises "
                           f"{type(exc).__name__}: {str(exc)[:100]}", dict(case, values={}))
        return
    _compare(run, key, finding, case, cellmap(y), oracle(cellmap(x)), [path.condition()], names)


def check_disaggregate(run, ir, fk, ck, start_serial, n, nvar, miss, method):
    """coarse series (frequency ck) disaggregated to fk"""
    key = f"disaggregate:{ck}->{fk}:s{start_serial}:n{n}v{nvar}m{list(miss)}:{method}"
    case = dict(kind="disaggregate", fk=fk, ck=ck, start=start_serial, n=n, nvar=nvar, miss=list(miss), method=method)
    start = _period(ir, ck, start_serial)
    x, syms = tagged(ir, start, n, nvar, miss, "x")
    names = sorted(syms)
    cells = cellmap(x)
    factor = FREQ[fk] // FREQ[ck]
    with S.Path() as path:
        y = ir.disaggregate(x, _freq(ir, fk), method=method)
    exp = {}
    for (P, v), val in cells.items():
        mem = members_of(fk, ck, P)
        pos = {"flat": mem, "first": mem[:1], "middle": [mem[(factor if fk != "D" else len(mem)) // 2]], "last": mem[-1:]}[method]
        for s in pos:
            exp[(s, v)] = val
    if not _compare(run, key, f"disaggregate:{method}" if fk != "D" else "disaggregate:to_daily", case, cellmap(y), exp, [path.condition()], names):
        return
    # round trips: aggregate(disaggregate(x)) == x with the matching method
    back = {"flat": ("mean", "first", "last", "min", "max"), "first": ("first",), "last": ("last",), "middle": ()}[method]
    for am in back:
        k2 = f"roundtrip:{ck}->{fk}->{ck}:s{start_serial}:n{n}v{nvar}m{list(miss)}:{method}/{am}"
        case2 = dict(case, kind="roundtrip", back=am)
        def runner(values):
            xx, _ = tagged(ir, start, n, nvar, miss, "x", values=values)
            return cellmap(ir.aggregate(ir.disaggregate(xx, _freq(ir, fk), method=method), _freq(ir, ck), method=am))
        init = {nm: Fraction(3 + i, 2) for i, nm in enumerate(names)}
        results, exhausted = explore(names, runner, init=init, max_paths=16, stats=run.q)
        run.paths += len(results)
        if not exhausted:
            run.unknown(k2, "path exploration not exhausted")
            continue
        for p2, zc, _v in results:
            if not _compare(run, k2, f"roundtrip:{method}/{am}" if fk != "D" else "roundtrip:to_daily", case2, zc, dict(cells), [p2.condition()], names):
                break


# ------------------------------------------------------------------------------------------
# arip: one KKT system; numpy.linalg.solve stubbed by its contract
# ------------------------------------------------------------------------------------------

_AGGVEC = {"sum": lambda n: [1.0] * n, "mean": lambda n: [1.0 / n] * n, "first": lambda n: [1.0] + [0.0] * (n - 1), "last": lambda n: [0.0] * (n - 1) + [1.0]}


RATE_ENDS = (1.0, 1.331)      # rate form: first and last low-frequency values are concrete, so that rho (and the KKT matrix) is a number


def _arip_run(ir, low_k, high_k, nlow, aggregation, target_pos, values=None, lifted=True, form="diff", low_miss=()):
    """returns (x symbols dict, target symbols dict, high cells list, contract list)"""
    from irispie.series import arip as ar, _conversions as cv
    start = _period(ir, low_k, 2020 * FREQ[low_k])
    nw = FREQ[high_k] // FREQ[low_k]
    contract = []
    syms, tsyms, target = {}, {}, None
    n_high = nlow * nw
    hstart = _period(ir, high_k, 2020 * FREQ[high_k])
    tmiss = tuple(i for i in range(n_high) if i != target_pos)
    if not lifted:
        if form == "rate":
            values = dict(values or {})
            values["y0v0"], values[f"y{nlow - 1}v0"] = RATE_ENDS
        x = float_series(ir, start, nlow, 1, tuple(low_miss), "y", values)
        if target_pos is not None:
            target = float_series(ir, hstart, n_high, 1, tmiss, "t", values)

    def solve_stub(F, C):
        Fg = np.asarray(F, dtype=float)
        Co = np.asarray(C, dtype=object)
        z = np.empty(Co.shape, dtype=object)
        for idx in np.ndindex(*Co.shape):
            z[idx] = S.sym(f"z{len(contract)}_" + "_".join(map(str, idx)), 1)
        prod = Fg.astype(object) @ z
        for idx in np.ndindex(*Co.shape):
            contract.append(S.const(prod[idx]).t == S.const(Co[idx]).t)
        return z
    if not lifted:
        h = ir.disaggregate(x, _freq(ir, high_k), method="arip", model=(form, aggregation), target=target)
        return x, target, h, None
    la = npproxy.SubProxy(np.linalg, {"solve": solve_stub})
    proxy = npproxy.Proxy(linalg=la)
    mods = series_modules()
    conv = lambda diff, f, t: diff * (float(f) / float(t))          # convert_diff without its float() coercion
    with npproxy.installed(proxy, *mods, extra=[(cv, "convert_diff", conv)]), S.Path() as path:
        x, syms = tagged(ir, start, nlow, 1, tuple(low_miss), "y", values=values)
        if form == "rate":
            x.data[0, 0], x.data[nlow - 1, 0] = RATE_ENDS
            syms.pop("y0v0", None); syms.pop(f"y{nlow - 1}v0", None)
        if target_pos is not None:
            target, tsyms = tagged(ir, hstart, n_high, 1, tmiss, "t", values=values)
        h = ir.disaggregate(x, _freq(ir, high_k), method="arip", model=(form, aggregation), target=target)
    return syms, tsyms, h, contract + [path.condition()]


def check_arip(run, ir, low_k, high_k, nlow, aggregation, target_pos, form="diff", low_miss=()):
    """low_miss: interior low-frequency periods without an observation (no aggregation constraint there; the average change / rate is
    still taken between the first and the last observation over the number of PERIODS between them)"""
    key = f"arip:{low_k}->{high_k}:nlow={nlow}:{form}/{aggregation}:target={target_pos}" + (f":low_miss={list(low_miss)}" if low_miss else "")
    case = dict(kind="arip", low=low_k, high=high_k, nlow=nlow, aggregation=aggregation, target_pos=target_pos, form=form, low_miss=list(low_miss))
    finding = f"arip:{aggregation}" if form == "diff" else f"arip:rate:{aggregation}"
    syms, tsyms, h, contract = _arip_run(ir, low_k, high_k, nlow, aggregation, target_pos, form=form, low_miss=low_miss)
    nw = FREQ[high_k] // FREQ[low_k]
    n = nlow * nw
    hc = cellmap(h)
    s0 = 2020 * FREQ[high_k]
    xs = [hc.get((s0 + i, 0)) for i in range(n)]
    if any(v is None for v in xs):
        run.counterexample(key, finding, "arip output has missing cells", dict(case, values={}))
        return
    ys = [None if i in low_miss else (syms[f"y{i}v0"][2] if f"y{i}v0" in syms else S.const(S.float_fraction(RATE_ENDS[0 if i == 0 else 1]))) for i in range(nlow)]
    vec = _AGGVEC[aggregation](nw)
    A = np.zeros((nlow, n))
    for i in range(nlow):
        A[i, nw * i:nw * i + nw] = vec
    rows = [A[i] for i in range(nlow) if i not in low_miss]
    tol = Fraction(1, 10 ** 8)
    claims = []
    full_target_low = set()
    for i in range(nlow):
        if i in low_miss:
            continue
        claims.append((f"aggregation constraint {i}", sum(S.float_fraction(A[i, j]) * xs[j] for j in range(n) if A[i, j] != 0), ys[i]))
    if target_pos is not None:
        tsym = tsyms[f"t{target_pos}v0"][2]
        claims.append((f"target {target_pos}", xs[target_pos], tsym))
        T = np.zeros((1, n)); T[0, target_pos] = 1
        rows.append(T[0])
    # optimality of the documented criterion sum_t (x_t - x_{t-1} - c)^2: gradient orthogonal to every feasible direction
    c = (ys[-1] - ys[0]) / (nlow - 1) * (FREQ[low_k] / FREQ[high_k]) if nlow > 1 else S.const(0)
    K = np.zeros((n - 1, n))
    if form == "rate":
        # documented rate model: x_t = rho x_{t-1} + eps_t, eps_t ~ N(0, sigma_t^2), sigma_0 = 1, sigma_t = rho sigma_{t-1}; criterion sum_t (eps_t / sigma_t)^2;
        # rho = average gross rate of change of the observed series converted to the high frequency
        rho = ((RATE_ENDS[1] / RATE_ENDS[0]) ** (1.0 / (nlow - 1))) ** (FREQ[low_k] / FREQ[high_k])
        c = S.const(0)
        for i in range(n - 1):
            sig = rho ** (i + 1)
            K[i, i + 1], K[i, i] = 1.0 / sig, -rho / sig
    else:
      for i in range(n - 1):
        K[i, i + 1], K[i, i] = 1.0, -1.0
    G = K.T @ K
    grad = []
    for i in range(n):
        g = sum(S.float_fraction(G[i, j]) * xs[j] for j in range(n) if G[i, j] != 0)
        kc = sum(K[r, i] for r in range(n - 1))
        grad.append(g - S.float_fraction(kc) * c)
    R = np.vstack(rows)
    u, sv, vt = np.linalg.svd(R)
    rank = int((sv > 1e-10).sum())
    null = vt[rank:]
    for k, d in enumerate(null):
        claims.append((f"optimality direction {k}", sum(S.float_fraction(float(d[i])) * grad[i] for i in range(n)), S.const(0)))
    allsyms = {nm: v[2] for nm, v in list(syms.items()) + list(tsyms.items())}
    box = [z3.And(s.t >= -1, s.t <= 1) for s in allsyms.values()] if form == "diff" else [z3.And(s.t >= Fraction(1, 2), s.t <= 2) for s in allsyms.values()]
    r0, _ = run.check_sat(box + contract, timeout_ms=30000)
    if r0 != "sat":
        run.unknown(key, f"reachability witness {r0}")
        return
    run.reach_ok += 1
    viol = z3.Or(*[z3.Or(S.const(a - b).t > tol, S.const(a - b).t < -tol) for _, a, b in claims])
    r, mdl = run.check_sat(box + contract + [viol], timeout_ms=120000)
    if r == "unsat":
        if len(run.samples) < 12:
            run.samples.append({"obligation": key, "verdict": "unsat: constraints/targets met and gradient orthogonal to all feasible directions for all data in the unit box",
                                "claims": [c_[0] for c_ in claims][:8], "contract_equations": len(contract) - 1})
        run.ok(key)
    elif r == "sat":
        bad = []
        for labl, a, b in claims:
            dv = mdl.eval(S.const(a - b).t, model_completion=True)
            fv = Fraction(dv.numerator_as_long(), dv.denominator_as_long())
            if abs(fv) > tol:
                bad.append((labl, float(fv)))
        vals = model_values(mdl, sorted(allsyms))
        run.counterexample(key, finding, f"arip output violates {bad[:3]}", dict(case, bad=bad[:5], values={n_: [v.numerator, v.denominator] for n_, v in vals.items()}))
    else:
        run.unknown(key, f"solver {r}")


def main(run):
    ir = load_irispie()
    mods = series_modules()
    from irispie.series import _conversions as cv
    run.extra["proxy_selftest_checks"] = npproxy.selftest()
    run.functions_encoded += ["series._conversions.{aggregate,disaggregate,_aggregate_regular_to_regular,_aggregate_daily_to_regular,_aggregate_within_data,"
                              "_disaggregate_flat/first/middle/last}", "dates.{create_soy,create_eoy,from_year_segment,to_daily,Ranger}", "series.main.{get_data_from_until,"
                              "iter_own_data_variants_from_until,_replace_start_and_values,trim}"]
    run.bounds["structures"] = ("regular pairs Q->Y, M->Q, H->Y (+ M->Y, M->H, Q->H thorough), start offset over a full coarse period, length up to 2 coarse periods + 1, "
                                "<=1 interior missing period, variants<=2; arip also with interior low-frequency periods without an observation; daily->monthly around Feb 27-Mar 2 of 2024/2023 (2000, 1900 thorough) and a year end; methods "
                                "sum/prod/mean/first/last/min/max x discard_missing x select; disaggregate flat/first/middle/last + round trips")
    run.bounds["values"] = "one independent real per cell (distinct tags); exact equality"
    run.stubs += ["statistics.mean -> sum/len (its documented contract; statistics' exact-ratio code rejects symbolic scalars)",
                  "Series.set_data(dates, None) on object data executed as NaN (numpy float semantics)"]
    run.assumptions += ["min/max: every feasible ordering of the member values is explored (DART) and decided under its path condition",
                        "calendar membership oracle: own integer arithmetic (regular: serial // factor; daily: loop-free Gregorian calendar validated against datetime)"]
    run.functions_encoded.append("series.arip.{disaggregate_arip,disaggregate_arip_data,_create_basic_system_matrices,_DiffForm,_get_first_last_observations,_create_*}")
    run.stubs += ["numpy.linalg.solve in arip -> fresh symbols z with the contract F z = C", "_conversions.convert_diff without its float() coercion"]
    run.outside += ["geometric_mean", "arip rate form with symbolic first/last observations (rho would make the KKT matrix symbolic; they are concrete here)", "weekly frequency", "min/max with missing members (unspecified)"]
    n_cal = calstub.validate(step=97)
    run.extra["calendar_stub_validation"] = {"ordinals_compared_with_datetime": n_cal}
    proxy = npproxy.Proxy()
    resol = dict(cv._AGGREGATION_METHOD_RESOLUTION, mean=_mean)
    with npproxy.installed(proxy, *mods, extra=[none_is_nan_patch(ir), (cv, "_AGGREGATION_METHOD_RESOLUTION", resol)]):
        for (fk, ck, s0, n, nvar, miss) in _structures(run.tier):
            factor = FREQ[fk] // FREQ[ck] if fk != "D" else 28
            for method in METHODS:
                for discard, select in _options(run.tier, factor if fk != "D" else 0):
                    if method in ("min", "max") and (n > 7 or nvar > 1 or (run.tier == "quick" and (discard or select))):
                        continue
                    if fk == "D" and method in ("min", "max"):
                        continue
                    try:
                        check_aggregate(run, ir, fk, ck, s0, n, nvar, miss, method, discard, select)
                    except S.SymbolicBranchError as exc:
                        run.unknown(f"aggregate:{fk}->{ck}:{s0}:{method}", exc)
                    except Exception as exc:
                        run.error(f"aggregate:{fk}->{ck}:{s0}:{n}:{method}:{discard}:{select}", exc)
            if fk != "D" and n <= 5:
                cs0 = coarse_of(fk, ck, s0)
                for method in ("flat", "first", "middle", "last"):
                    try:
                        check_disaggregate(run, ir, fk, ck, cs0, min(n, 3), nvar, tuple(i for i in miss if i < min(n, 3) - 1), method)
                    except S.SymbolicBranchError as exc:
                        run.unknown(f"disaggregate:{ck}->{fk}:{method}", exc)
                    except Exception as exc:
                        run.error(f"disaggregate:{ck}->{fk}:{cs0}:{method}", exc)
        # disaggregation to daily frequency: calendar membership (month lengths, leap years)
        for (ck, cs0, n) in (("M", 2024 * 12 + 1, 2), ("Y", 2024, 1)) + ((("Q", 2023 * 4 + 0, 2), ("M", 2023 * 12 + 1, 1)) if run.tier == "thorough" else ()):
            for method in ("flat", "first", "last"):
                try:
                    check_disaggregate(run, ir, "D", ck, cs0, n, 1, (), method)
                except S.SymbolicBranchError as exc:
                    run.unknown(f"disaggregate:{ck}->D:{method}", exc)
                except Exception as exc:
                    run.error(f"disaggregate:{ck}->D:{cs0}:{method}", exc)
    for (low_k, high_k) in (("Y", "Q"),) + ((("Q", "M"), ("Y", "H")) if run.tier == "thorough" else ()):
        for nlow in ((3,) if run.tier == "quick" else (2, 3, 4)):
            for aggregation in ("sum", "mean", "first", "last"):
                for target_pos in ((None, 5) if run.tier == "quick" else (None, 1, 5)):
                    if target_pos is not None and target_pos >= nlow * (FREQ[high_k] // FREQ[low_k]):
                        continue
                    for form in ("diff", "rate"):
                        if form == "rate" and nlow < 3:
                            continue
                        for low_miss in ((), (1,)) + (((1, 2),) if nlow >= 4 else ()):
                            if low_miss and (nlow < 3 or (run.tier == "quick" and aggregation not in ("sum", "last"))):
                                continue
                            if low_miss and target_pos is not None and target_pos // (FREQ[high_k] // FREQ[low_k]) in low_miss:
                                continue
                            try:
                                check_arip(run, ir, low_k, high_k, nlow, aggregation, target_pos, form=form, low_miss=low_miss)
                            except S.SymbolicBranchError as exc:
                                run.unknown(f"arip:{low_k}->{high_k}:{nlow}:{form}/{aggregation}:{target_pos}:{low_miss}", exc)
                            except Exception as exc:
                                run.error(f"arip:{low_k}->{high_k}:{nlow}:{form}/{aggregation}:{target_pos}:{low_miss}", exc)
    run.extra["exhaustive"] = True


def _replay_arip(ir, case):
    low_k, high_k, nlow, aggregation, target_pos = case["low"], case["high"], case["nlow"], case["aggregation"], case["target_pos"]
    vals = {k: float(Fraction(a, b)) for k, (a, b) in case.get("values", {}).items()}
    nw = FREQ[high_k] // FREQ[low_k]
    n = nlow * nw
    for i in range(nlow):
        vals.setdefault(f"y{i}v0", 0.5 + 0.3 * ((i * 3) % 4))
    for i in range(n):
        vals.setdefault(f"t{i}v0", 0.2)
    form = case.get("form", "diff")
    if form == "rate":
        vals["y0v0"], vals[f"y{nlow - 1}v0"] = RATE_ENDS
        for i in range(1, nlow - 1):
            vals[f"y{i}v0"] = max(vals[f"y{i}v0"], 0.5)
    low_miss = tuple(case.get("low_miss", ()))
    x, target, h, _ = _arip_run(ir, low_k, high_k, nlow, aggregation, target_pos, values=vals, lifted=False, form=form, low_miss=low_miss)
    d = h.get_data().flatten()
    if d.size != n or np.isnan(d).any():
        return True, f"arip output has {d.size} cells ({int(np.isnan(d).sum()) if d.size else 0} missing) instead of {n}"
    y = np.array([vals[f"y{i}v0"] for i in range(nlow)])
    vec = _AGGVEC[aggregation](nw)
    A = np.zeros((nlow, n))
    for i in range(nlow):
        A[i, nw * i:nw * i + nw] = vec
    rows, rhs = [A[i] for i in range(nlow) if i not in low_miss], [y[i] for i in range(nlow) if i not in low_miss]
    if target_pos is not None:
        T = np.zeros(n); T[target_pos] = 1
        rows.append(T); rhs.append(vals[f"t{target_pos}v0"])
    R, rhs = np.vstack(rows), np.array(rhs)
    if np.abs(R @ d - rhs).max() > 1e-7:
        return True, f"constraints violated by {np.abs(R @ d - rhs).max()!r}"
    c = (y[-1] - y[0]) / (nlow - 1) * (FREQ[low_k] / FREQ[high_k]) if nlow > 1 else 0.0
    K = np.zeros((n - 1, n))
    for i in range(n - 1):
        K[i, i + 1], K[i, i] = 1.0, -1.0
    if form == "rate":
        rho = ((RATE_ENDS[1] / RATE_ENDS[0]) ** (1.0 / (nlow - 1))) ** (FREQ[low_k] / FREQ[high_k])
        c = 0.0
        for i in range(n - 1):
            sig = rho ** (i + 1)
            K[i, i + 1], K[i, i] = 1.0 / sig, -rho / sig
    obj = lambda v: float(np.sum((K @ v - c) ** 2))
    KK = np.block([[K.T @ K, R.T], [R, np.zeros((R.shape[0], R.shape[0]))]])
    sol = np.linalg.lstsq(KK, np.concatenate([K.T @ (c * np.ones(n - 1)), rhs]), rcond=None)[0][:n]
    gap = obj(d) - obj(sol)
    return gap > 1e-7 * (1 + obj(sol)), f"smoothness criterion {obj(d)!r} vs constrained optimum {obj(sol)!r}"


def replay(case):
    ir = load_irispie()
    if case["kind"] == "arip":
        return _replay_arip(ir, case)
    fk, ck, n, nvar, miss = case["fk"], case["ck"], case["n"], case["nvar"], tuple(case["miss"])
    vals = {k: float(Fraction(a, b)) for k, (a, b) in case.get("values", {}).items()}
    for i in range(n):
        for v in range(nvar):
            vals.setdefault(f"x{i}v{v}", 1.5 + 0.37 * ((i * 7) % 5) + 0.11 * v + 0.01 * i)
    kind = case["kind"]

    def close(a, b):
        return abs(a - b) <= 1e-9 * (1 + abs(b))
    if kind == "aggregate":
        start = _period(ir, fk, case["start"])
        x = float_series(ir, start, n, nvar, miss, "x", vals)
        cells = cellmap(x)
        sel = case["select"]
        try:
            y = ir.aggregate(x, _freq(ir, ck), method=case["method"], discard_missing=case["discard"], select=sel)
        except Exception as exc:
            return True, f"raises {type(exc).__name__}: {exc}"
        got = cellmap(y)
        for P in sorted({coarse_of(fk, ck, s) for (s, v) in cells}):
            mem = members_of(fk, ck, P)
            for v in range(nvar):
                o = _agg_oracle(case["method"], [cells.get((s, v)) for s in mem], case["discard"], tuple(sel) if sel else None)
                if isinstance(o, str):
                    continue
                g = got.get((P, v))
                if (o is None) != (g is None):
                    return True, f"coarse period {P} variant {v}: irispie {g!r} vs oracle {o!r}"
                if o is not None and not close(float(g), float(o)):
                    return True, f"coarse period {P} variant {v}: irispie {g!r} vs oracle {o!r}"
        return False, "aggregation agrees with calendar membership"
    start = _period(ir, ck, case["start"])
    x = float_series(ir, start, n, nvar, miss, "x", vals)
    cells = cellmap(x)
    factor = FREQ[fk] // FREQ[ck]
    method = case["method"]
    if kind == "disaggregate":
        y = cellmap(ir.disaggregate(x, _freq(ir, fk), method=method))
        exp = {}
        for (P, v), val in cells.items():
            mem = members_of(fk, ck, P)
            for s in {"flat": mem, "first": mem[:1], "middle": [mem[factor // 2]], "last": mem[-1:]}[method]:
                exp[(s, v)] = val
        if set(y) != set(exp):
            return True, f"positions differ: extra {sorted(set(y) - set(exp))[:3]} missing {sorted(set(exp) - set(y))[:3]}"
        bad = [k for k in exp if not close(float(y[k]), float(exp[k]))]
        return bool(bad), f"cells {bad[:3]}"
    z = cellmap(ir.aggregate(ir.disaggregate(x, _freq(ir, fk), method=method), _freq(ir, ck), method=case["back"]))
    if set(z) != set(cells):
        return True, f"round trip loses/adds cells: {sorted(set(z) ^ set(cells))[:4]}"
    bad = [k for k in cells if not close(float(z[k]), float(cells[k]))]
    return bool(bad), f"cells {bad[:3]}"


if __name__ == "__main__":
    standard_main(PID, main, replay)
