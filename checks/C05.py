"""
C05 -- Steady state returned by solve_steady satisfies the steady-state equations.

The property is conditional on the solver's success, and only the float iteration inside neqs.levenberg is not encodable.
It is replaced by a CONTRACT STUB: steadiers.solver_dispatcher.neqs_levenberg returns fresh symbols g together with the
recorded assumption ||eval_func(g)||inf < func_tolerance (the success criterion read from neqs) and success=True.
Everything around it is the real code running on symbols: SteadyEvaluator.__init__/_update_steady_array, Flat/Nonflat
SteadyEquator.eval, block ordering (blazer), _update_variant_with_final_guess, extract_levels/extract_changes,
Variant.update_*_from_array, get_steady_levels/get_steady_changes.
Oracle: each steady equation AS WRITTEN IN THE SOURCE evaluated by symx/refeval on the path level + change*shift
(geometric for log-variables) built from the values the model REPORTS.  Query: assumptions AND |oracle| >= tol  -> unsat.
"""
from __future__ import annotations

import io
import contextlib
import math
from fractions import Fraction

import numpy as np
import z3

from symx import sreal as S
from symx import npproxy
from symx.lift import exp_log_axioms, div_domain
from symx.refeval import Equation
from symx.series_tools import load_irispie
from symx.concolic import model_values
from symx.report import standard_main

PID = "C05"


class SModel:
    def __init__(self, name, tvars, eqs, params, init, flat, logvars=(), shocks=(), fix_level=(), fix_change=(), swap=(), assign_extra=None, linear=False):
        self.name, self.tvars, self.eqs, self.params, self.init, self.flat = name, tuple(tvars), tuple(eqs), dict(params), dict(init), flat
        self.logvars, self.shocks, self.fix_level, self.fix_change, self.swap = tuple(logvars), tuple(shocks), tuple(fix_level), tuple(fix_change), tuple(swap)
        self.assign_extra = dict(assign_extra or {})
        self.linear = linear

    def source(self):
        s = "!transition-variables\n    " + ", ".join(self.tvars) + "\n"
        if self.shocks:
            s += "!transition-shocks\n    " + ", ".join(self.shocks) + "\n"
        s += "!parameters\n    " + ", ".join(self.params) + "\n"
        if self.logvars:
            s += "!log-variables\n    " + ", ".join(self.logvars) + "\n"
        s += "!transition-equations\n" + "".join(f"    {e};\n" for e in self.eqs)
        return s


def steady_zoo():
    Z = []
    Z.append(SModel("rbc_flat", ("y", "c", "k", "r"),
                    ("y = k[-1]^alpha * exp(e)", "c + k = y + (1-delta)*k[-1]", "1/c = beta*(1/c[+1])*(1 + r[+1] - delta)", "r = alpha*y/k[-1]"),
                    dict(alpha=0.3, beta=0.95, delta=0.1), dict(y=1.0, c=0.8, k=2.0, r=0.15), True, logvars=("y", "c", "k"), shocks=("e",)))
    Z.append(SModel("stat_nl", ("x", "y", "z"),
                    ("x = 0.5*x[-1] + a + 0*e", "y = x^2/4 + 0.5*y[-1] !! y = x^2/2", "z = y*x[-1] - 0.2*z[+1]"),
                    dict(a=1.0), dict(x=1.5, y=1.5, z=2.0), True, shocks=("e",)))
    Z.append(SModel("stat_nl_swap", ("x", "y", "z"),
                    ("x = 0.5*x[-1] + a + 0*e", "y = x^2/4 + 0.5*y[-1]", "z = y*x[-1] - 0.2*z[+1]"),
                    dict(a=1.0), dict(x=3.0, y=1.5, z=2.0), True, shocks=("e",), swap=(("x", "a"),)))
    Z.append(SModel("growth", ("A", "Y", "n"),
                    ("A = A[-1]*exp(ga) * exp(e)", "Y = A * n^0.5", "n = 0.3*n[-1] + 0.7"),
                    dict(ga=0.02), dict(A=2.0, Y=2.0, n=1.0), False, logvars=("A", "Y"), shocks=("e",), fix_level=("A",),
                    assign_extra={"A": (2.0, 1.02), "Y": (2.0, 1.02)}))
    # a growing variable solved in an earlier block enters a later block with a lag (the dating of the background steady array matters)
    Z.append(SModel("growth_lag", ("A", "Y", "n"),
                    ("A = A[-1]*exp(ga) * exp(e)", "Y = A[-1] * n^0.5", "n = 0.3*n[-1] + 0.7"),
                    dict(ga=0.02), dict(A=2.0, Y=2.0, n=1.0), False, logvars=("A", "Y"), shocks=("e",), fix_level=("A",),
                    assign_extra={"A": (2.0, 1.02), "Y": (2.0, 1.02)}))
    # linear=True models WITH a steady plan (the plan must be honoured for linear models too)
    Z.append(SModel("lin_drift_fix", ("l", "g"),
                    ("l = l[-1] + g + e", "g = 0.5*g[-1] + 0.1"),
                    dict(), dict(l=3.0, g=0.1), False, shocks=("e",), fix_level=("l",), assign_extra={"l": (3.0, 0.2)}, linear=True))
    Z.append(SModel("lin_swap", ("x", "y"),
                    ("x = 0.5*x[-1] + a + 0*e", "y = 0.25*x + 0.5*y[-1]"),
                    dict(a=1.0), dict(x=3.0, y=1.5), True, shocks=("e",), swap=(("x", "a"),), linear=True))
    # a variable enters an equation ONLY with a lag, and that equation is written first: the block order must still solve x before y
    Z.append(SModel("lag_only", ("y", "x", "w"),
                    ("y = a*x[-1]^2 + b + 0*e", "x = 0.5*x[-1] + 1", "w = 0.5*w[-1] + y[+1]*x"),
                    dict(a=0.75, b=0.5), dict(y=1.0, x=1.0, w=1.0), True, shocks=("e",)))
    # a simultaneous core followed by a CHAIN of definitions (each peeled off last at a different depth): the chain must be solved in dependency order
    Z.append(SModel("chain_last", ("x1", "x2", "y", "z", "w"),
                    ("x1 = a + 0.5*x2 + 0*e", "x2 = b + 0.25*x1 + 0.1*x1[-1]", "y = 2*x1 + 0.5*y[-1]", "z = 3*y + 1", "w = z*z + y"),
                    dict(a=1.0, b=0.5), dict(x1=1.0, x2=1.0, y=1.0, z=4.0, w=2.0), True, shocks=("e",)))
    Z.append(SModel("ur_drift", ("l", "g"),
                    ("l = l[-1] + g + e", "g = 0.5*g[-1] + 0.1"),
                    dict(), dict(l=1.0, g=0.1), False, shocks=("e",), fix_level=("l",), assign_extra={"l": (1.0, 0.2)}))
    return Z


def by_name(n):
    return [z for z in steady_zoo() if z.name == n][0]


def build(ir, sm, **kw):
    with contextlib.redirect_stdout(io.StringIO()):
        m = ir.Simultaneous.from_string(sm.source(), flat=sm.flat, linear=sm.linear)
    if sm.params:
        m.assign(**sm.params)
    m.assign(**sm.init)
    if sm.assign_extra:
        m.assign(**sm.assign_extra)
    return m


def make_plan(ir, sm, m):
    if not (sm.fix_level or sm.fix_change or sm.swap):
        return None
    plan = ir.SteadyPlan(m)
    if sm.fix_level:
        plan.fix_level(list(sm.fix_level))
    if sm.fix_change:
        plan.fix_change(list(sm.fix_change))
    for (v, p) in sm.swap:
        plan.exogenize(v)
        plan.endogenize(p)
    return plan


class SteadyLift:
    def __init__(self, ir):
        from irispie.steadiers import solver_dispatcher as sd, evaluators as ev, _equators as eq
        from irispie.simultaneous import _steady as st, _variants as va
        from irispie.equators import plain as pl
        self.sd, self.ev, self.eq, self.st, self.va, self.pl = sd, ev, eq, st, va, pl
        self.blocks = []
        self.capture_jacobian = False
        self.array_hook = None     # optional: called with the evaluator after its arrays became object arrays (C20: value-tagged parameters)

    def __enter__(self):
        outer = self

        def stub(steady_evaluator, init_guess, solver_settings):
            e = steady_evaluator
            e._steady_array = np.asarray(e._steady_array).astype(object)
            e._maybelog_init_levels = np.asarray(e._maybelog_init_levels).astype(object)
            e._maybelog_init_changes = np.asarray(e._maybelog_init_changes).astype(object)
            if outer.array_hook is not None:
                outer.array_hook(e)
            b = len(outer.blocks)
            g = np.empty(len(init_guess), dtype=object)
            for i in range(len(init_guess)):
                g[i] = S.sym(f"g{b}_{i}", float(init_guess[i]) if not isinstance(init_guess[i], S.SReal) else init_guess[i].v)
            f = e.eval_func(g)
            tol = solver_settings["func_tolerance"]
            blk = dict(g=g, f=list(np.asarray(f, dtype=object).flat), tol=tol, qids=list(e.wrt_qids))
            if outer.capture_jacobian:
                # the Jacobian the solver would be given, at the same symbolic point (C02: steady-state Jacobian conjunct)
                try:
                    blk["J"] = np.asarray(e.eval_jacob(g), dtype=object)
                except S.SymbolicBranchError:
                    raise
                except Exception as exc:
                    blk["J_error"] = f"{type(exc).__name__}: {str(exc)[:200]}"
            outer.blocks.append(blk)
            import neqs
            return g, True, neqs.ExitStatus.SUCCESS
        self.proxy = npproxy.Proxy()
        extra = [(self.sd, "neqs_levenberg", stub)]
        mods = [self.ev, self.eq, self.va, self.pl, self.st]
        if self.capture_jacobian:
            from irispie.steadiers import _jacobian as sj
            from irispie.jacobians import base as jb
            from irispie.aldi import differentiators as ad
            mods += [sj, jb, ad]
            extra.append(npproxy.adaptations_patch(self.proxy))
        self._ctx = npproxy.installed(self.proxy, *mods, extra=extra)
        self._ctx.__enter__()
        return self

    def __exit__(self, *exc):
        self._ctx.__exit__(*exc)
        return False

    def assumptions(self):
        out = []
        for b in self.blocks:
            tol = S.rv(S.float_fraction(float(b["tol"])))
            for fi in b["f"]:
                t = S.const(fi).t
                out.append(z3.And(t < tol, t > -tol))
        return out


def _path_lookup(sm, levels, changes, t, params):
    """value of name at date t+sh on the reported steady path"""
    def lookup(name, sh):
        if name in sm.shocks:
            return 0
        if name in params and name not in levels:
            return params[name]
        lv = levels[name]
        ch = changes.get(name)
        k = t + sh
        if name in sm.logvars:
            if ch is None or k == 0:
                return lv
            return lv * (S.const(ch) ** k if isinstance(ch, S.SReal) else ch ** k)
        if ch is None or k == 0:
            return lv
        return lv + ch * k
    return lookup


def _clean(d):
    out = {}
    for k, v in d.items():
        if isinstance(v, S.SReal):
            out[k] = v
        elif isinstance(v, (int, float, np.floating)) and not (isinstance(v, float) and math.isnan(v)):
            out[k] = float(v)
    return out


def check_model(run, ir, sm, split):
    key = f"steady:{sm.name}:flat={sm.flat}:split={split}"
    finding = f"steady:{sm.name}"
    case = dict(kind="steady", model=sm.name, split=split)
    m = build(ir, sm)
    plan = make_plan(ir, sm, m)
    kw = dict(split_into_blocks=split)
    if plan is not None:
        kw["plan"] = plan
    with SteadyLift(ir) as L, S.Path() as path, contextlib.redirect_stdout(io.StringIO()):
        m.solve_steady(**kw)
    if not L.blocks:
        if sm.linear and plan is not None:
            # the linear solver (lstsq) ran: nothing was lifted.  The plan conjunct is then decided on the reported numbers.
            run.extra["executed_obligations"] = run.extra.get("executed_obligations", 0) + 1
            lv = _clean(m.get_steady_levels())
            for n in list(sm.fix_level) + [v for v, _ in sm.swap]:
                want = sm.assign_extra.get(n, sm.init.get(n))
                want = want[0] if isinstance(want, tuple) else want
                if isinstance(lv[n], S.SReal) or abs(float(lv[n]) - float(want)) > 1e-9:
                    run.counterexample(key, finding + ":fixed", f"linear model: {n} fixed/exogenized by the steady plan at {want} is reported as {lv[n]}", dict(case, what="fixed"))
                    return
        run.unknown(key, "the solver stub was never called")
        return
    levels = _clean(m.get_steady_levels())
    changes = _clean(m.get_steady_changes())
    params = {k: S.float_fraction(float(v)) if not isinstance(v, S.SReal) else v for k, v in _clean(m.get_parameters()).items() if k in sm.params}
    assume = L.assumptions() + [path.condition()]
    nsym = sum(1 for v in list(levels.values()) + list(changes.values()) if isinstance(v, S.SReal))
    if nsym == 0:
        run.unknown(key, "no symbolic value reached the reported steady state")
        return
    tol = S.rv(S.float_fraction(float(L.blocks[0]["tol"])))
    # fixed / exogenized quantities keep their assigned values
    claims_fixed = []
    for n in list(sm.fix_level) + [v for v, _ in sm.swap]:
        want = sm.assign_extra.get(n, sm.init.get(n))
        want = want[0] if isinstance(want, tuple) else want
        claims_fixed.append((f"fixed:{n}", levels[n], want))
    dates = (0,) if sm.flat else (0, 1)
    terms, claims = [], []
    for t in dates:
        lk = _path_lookup(sm, levels, changes, t, params)
        for i, src in enumerate(sm.eqs):
            r = Equation(src).residual(lk, steady=True, numeric=lambda v: v)
            rt = S.const(r).t
            claims.append((f"eq{i}@t+{t}", rt))
            terms.append(rt)
    ax = exp_log_axioms(terms + [a for a in assume]) + div_domain(terms)
    r0, _ = run.check_sat(assume + ax, timeout_ms=30000)
    if r0 == "unsat":
        # the blocks irispie handed to the solver cannot all be solved (e.g. a block whose equation contains none of its unknowns):
        # no run can report success with the equations holding.  Decided by replay: the real solve_steady either fails (the
        # property is conditional on success) or reports success with equations that do not hold.
        run.counterexample(key, finding + ":blocks", "the sequence of blocks handed to the solver admits no joint solution (success contracts unsatisfiable): "
                           "a success report cannot come with the equations holding", dict(case, what="blocks"))
        return
    if r0 != "sat":
        run.unknown(key, f"reachability witness {r0}")
        return
    run.reach_ok += 1
    for labl, got, want in claims_fixed:
        if isinstance(got, S.SReal):
            res, mdl = run.prove(f"{key}:{labl}", got.t == S.rv(S.float_fraction(float(want))), assume + ax, timeout_ms=30000, nl=True)
            if res != "unsat":
                run.counterexample(key, finding + ":fixed", f"{labl}: reported {got} instead of the assigned {want}", dict(case, what="fixed"))
                return
        elif abs(float(got) - float(want)) > 1e-12:
            run.counterexample(key, finding + ":fixed", f"{labl}: reported {got} instead of the assigned {want}", dict(case, what="fixed"))
            return
    for labl, rt in claims:
        res, mdl = run.prove(f"{key}:{labl}", z3.And(rt < 2 * tol, rt > -2 * tol), assume + ax, timeout_ms=60000, nl=True,
                             sample={"obligation": f"{key}:{labl}", "oracle_residual": str(rt)[:200], "solver_contract": str(assume[0])[:200], "blocks": len(L.blocks)} if labl.startswith("eq0@t+0") else None)
        if res == "unsat":
            continue
        if res == "sat":
            run.counterexample(key, finding, f"{labl}: the source equation is not implied by the solver's success criterion on the reported values: {str(rt)[:120]}",
                               dict(case, what=labl))
            return
        run.unknown(key, f"solver {res} on {labl}")
        return
    run.ok(key)


# ------------------------------------------------------------------------------------------------ linear solver path (lstsq): every date
LIN_MODELS = {
    # name: (source, assign, measurement/transition equations as text, shocks)
    "lin_drift_m": ("!transition-variables\n  l, g\n!transition-shocks\n  el, eg\n!parameters\n  rho, c\n!transition-equations\n  l = l[-1] + g + el;\n  g = rho*g[-1] + c + eg;\n"
                    "!measurement-variables\n  ol, o2\n!measurement-equations\n  ol = l;\n  o2 = 2*l + g + 1;\n",
                    dict(rho=0.5, c=0.1), ("l = l[-1] + g + el", "g = rho*g[-1] + c + eg", "ol = l", "o2 = 2*l + g + 1"), ("el", "eg")),
    # an exogenous variable with a non-zero assigned value (lookup treats it like a parameter: levels come from the model)
    "lin_exog": ("!transition-variables\n  x\n!exogenous-variables\n  z\n!transition-shocks\n  e\n!parameters\n  rho\n!transition-equations\n  x = rho*x[-1] + z + e;\n",
                 dict(rho=0.5, z=2.0), ("x = rho*x[-1] + z + e",), ("e",)),
    "lin_stat_m": ("!transition-variables\n  p, y\n!transition-shocks\n  ep, ey\n!parameters\n  b, k, rho\n!transition-equations\n  p = b*p[+1] + k*(y - 1) + 0.2 + ep;\n"
                   "  y = 1 + rho*(y[-1] - 1) + ey;\n!measurement-variables\n  op\n!measurement-equations\n  op = 2*p + 0.5*y[-1];\n",
                   dict(b=0.9, k=0.25, rho=0.8), ("p = b*p[+1] + k*(y - 1) + 0.2 + ep", "y = 1 + rho*(y[-1] - 1) + ey", "op = 2*p + 0.5*y[-1]"), ("ep", "ey")),
}


def _lin_solve(ir, name):
    src, assign, eqs, shocks = LIN_MODELS[name]
    with contextlib.redirect_stdout(io.StringIO()):
        m = ir.Simultaneous.from_string(src, linear=True)
        m.assign(**assign)
        m.steady()
    lv = {k: float(v) for k, v in m.get_steady_levels().items() if isinstance(v, (int, float, np.floating))}
    ch = {k: float(v) for k, v in m.get_steady_changes().items() if isinstance(v, (int, float, np.floating))}
    return m, lv, ch, assign, eqs, shocks


def check_linear_path(run, ir, name):
    """linear=True models are solved in closed form (lstsq): nothing to lift.  The claim 'the equations hold at EVERY date' is decided by z3
    on the reported numbers with the date t a real symbol: residual_e(level + change*(t+shift)) within 1e-7 for all |t| <= 50."""
    key = f"linear_path:{name}"
    case = dict(kind="linear_path", model=name)
    m, lv, ch, params, eqs, shocks = _lin_solve(ir, name)
    t = S.sym("t", 1)

    def lookup(nm, sh):
        if nm in shocks:
            return S.const(0)
        if nm in params:
            return S.const(S.float_fraction(float(params[nm])))
        return S.const(S.float_fraction(lv[nm])) + S.const(S.float_fraction(ch.get(nm, 0.0))) * (t + sh)
    claims = []
    for src in eqs:
        r = Equation(src).residual(lookup, steady=True, numeric=lambda v: v)
        claims.append((src, S.const(r).t))
    dom = [t.t >= -50, t.t <= 50]
    tol = Fraction(1, 10 ** 7)
    run.reach_ok += 1
    res, mdl = run.check_sat(dom + [z3.Or(*[z3.Or(c > tol, c < -tol) for _, c in claims])], timeout_ms=30000)
    if res == "unsat":
        if len(run.samples) < 12:
            run.samples.append({"obligation": key, "verdict": "unsat: every equation holds (1e-7) on the reported steady path at every real date in [-50, 50]", "example": str(z3.simplify(claims[-1][1]))[:160]})
        run.ok(key)
    elif res == "sat":
        tv = mdl.eval(t.t, model_completion=True)
        tf = Fraction(tv.numerator_as_long(), tv.denominator_as_long())
        bad = [(src, float(Fraction(mdl.eval(c, model_completion=True).numerator_as_long(), mdl.eval(c, model_completion=True).denominator_as_long()))) for src, c in claims]
        bad = [b for b in bad if abs(b[1]) > tol]
        run.counterexample(key, f"steady:linear:{name}", f"at date t={float(tf)} the steady path violates {bad[:3]}", dict(case, t=[tf.numerator, tf.denominator]))
    else:
        run.unknown(key, f"solver {res}")


def _replay_linear_path(ir, case):
    m, lv, ch, params, eqs, shocks = _lin_solve(ir, case["model"])
    tf = float(Fraction(*case["t"]))
    worst, msg = 0.0, "equations hold at that date"
    for tt in (tf, float(round(tf)), float(round(tf)) + 1.0):
        def lookup(nm, sh, tt=tt):
            if nm in shocks:
                return 0.0
            if nm in params:
                return float(params[nm])
            return lv[nm] + ch.get(nm, 0.0) * (tt + sh)
        for src in eqs:
            r = float(Equation(src).residual(lookup, steady=True))
            if abs(r) > worst:
                worst, msg = abs(r), f"{src!r} at t={tt}: residual {r!r} on level+change*t (levels {lv}, changes {ch})"
    return worst > 1e-6, msg


def main(run):
    ir = load_irispie()
    run.extra["proxy_selftest_checks"] = npproxy.selftest()
    run.functions_encoded += [
        "steadiers.evaluators.{SteadyEvaluator.__init__,Flat/NonflatSteadyEvaluator._update_steady_array,_get_maybelog_levels/changes,eval_func,extract_levels,extract_changes}",
        "steadiers._equators.{Flat,Nonflat}SteadyEquator.eval", "equators.plain.PlainEquator.eval", "simultaneous._steady.{_steady_nonlinear,_resolve_steady_wrt,"
        "_calculate_steady_incidence_matrix,_update_variant_with_final_guess}", "incidences.blazer.blaze (concrete incidence)", "simultaneous._variants.Variant.{create_steady_array,"
        "retrieve_*,update_*_from_array}", "plans.steady_plans.SteadyPlan (fix_level, exogenize/endogenize)", "reached through Simultaneous.solve_steady / get_steady_levels / get_steady_changes",
    ]
    run.bounds["structures"] = ("steady zoo of 6 nonlinear models and 2 linear=True models with steady plans (stationary with log-variables and real exponents; stationary with a !! steady variant; "
                                "exogenized variable/endogenized parameter; balanced growth with log-variables; unit root with drift), flat in {T,F} as the model "
                                "requires, split_into_blocks in {T,F}, steady plans fixing a level / swapping; parameters at fixed values")
    run.bounds["values"] = "the solver's answer g is an arbitrary real vector satisfying ||f(g)||inf < func_tolerance; exact arithmetic"
    run.stubs += ["steadiers.solver_dispatcher.neqs_levenberg -> fresh symbols g + assumption ||eval_func(g)||inf < func_tolerance, success=True "
                  "(success criterion of neqs.levenberg with step_tolerance=inf, norm_order=inf)"]
    run.assumptions += ["cells are mathematical reals", "exp/log of numeric constants are evaluated in floats, hence the claim is |residual| < 2*tolerance given ||f||inf < tolerance", "LOG/EXP uninterpreted with normalising constructors; x**a = EXP(a LOG x)", "denominators in the source equations non-zero"]
    run.outside += ["that the iteration converges, or to which root", "dates other than t (and t+1 in growth mode)", "scipy_root", "linear models without a steady plan: only the every-date claim on the reported numbers of two models (fords.steadiers, lstsq not lifted)", "multiple variants"]
    for sm in steady_zoo():
        for split in (True, False):
            if run.tier == "quick" and not split and sm.name in ("stat_nl_swap", "ur_drift"):
                continue
            try:
                check_model(run, ir, sm, split)
            except S.SymbolicBranchError as exc:
                run.unknown(f"steady:{sm.name}:split={split}", exc)
            except Exception as exc:
                run.error(f"steady:{sm.name}:split={split}", exc)
    for name in LIN_MODELS:
        try:
            check_linear_path(run, ir, name)
        except Exception as exc:
            run.error(f"linear_path:{name}", exc)
    run.extra["exhaustive"] = True


def replay(case):
    """no stub: run the real solve_steady and evaluate the source-level oracle in floats on what the API reports"""
    ir = load_irispie()
    if case.get("kind") == "linear_path":
        return _replay_linear_path(ir, case)
    sm = by_name(case["model"])
    m = build(ir, sm)
    plan = make_plan(ir, sm, m)
    kw = dict(split_into_blocks=case["split"])
    if plan is not None:
        kw["plan"] = plan
    try:
        with contextlib.redirect_stdout(io.StringIO()):
            m.solve_steady(**kw)
    except Exception as exc:
        return False, f"real solver did not complete ({type(exc).__name__}: {str(exc)[:100]}): the property is conditional on success"
    levels = _clean(m.get_steady_levels())
    changes = _clean(m.get_steady_changes())
    if case.get("what") == "fixed":
        for n in list(sm.fix_level) + [v for v, _ in sm.swap]:
            want = sm.assign_extra.get(n, sm.init.get(n))
            want = want[0] if isinstance(want, tuple) else want
            if abs(levels[n] - want) > 1e-9:
                return True, f"{n}: reported {levels[n]} instead of assigned {want}"
        return False, "fixed quantities keep their values"
    params = {k: v for k, v in _clean(m.get_parameters()).items() if k in sm.params}
    worst, msg = 0.0, "all steady equations hold"
    for t in ((0,) if sm.flat else (0, 1)):
        lk = _path_lookup(sm, levels, changes, t, params)
        for i, src in enumerate(sm.eqs):
            try:
                r = float(Equation(src).residual(lk, steady=True))
            except (ValueError, ZeroDivisionError, OverflowError):
                continue
            if abs(r) > worst:
                worst, msg = abs(r), f"equation {src!r} at t+{t}: residual {r!r}"
    return worst > 1e-6, msg


if __name__ == "__main__":
    standard_main(PID, main, replay)
