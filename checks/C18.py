"""
C18 -- Reduced-form VAR estimates are the least-squares solution and reproduce the data (estimation conjuncts).

RedVAR.estimate runs through the public API; at red_vars._estimators._estimate_variant the float data of the dataslate are
replaced by one symbol per non-missing cell; numpy.linalg.solve inside fords.least_squares.ordinary_least_squares is stubbed by
its contract (beta fresh, Mx beta' = My).  Real code on symbols: _get_estimation_data (lag stacking, intercept row,
get_where_observations), ordinary_least_squares (moment matrices), coefficient slicing A/B/c, residuals, cov_residuals,
_write_residual_estimates, Variant/System storage.  z3 decides (exact, polynomial identities):
  (i)   the pair (Mx, My) handed to the solver equals X X', X Y' built independently from the lag-stacked tagged data on exactly
        the periods with complete data  (=> with the contract: the normal equations; residuals orthogonal to regressors);
  (ii)  stored residual = y - A y(-1..-p) - B x - c on every period, in terms of the returned beta;
  (iii) cov_residuals = u u' / (n - dof) over the fitted periods; fitted periods are exactly the complete ones.
"""
from __future__ import annotations

import itertools
import math
from fractions import Fraction

import numpy as np
import z3

from symx import sreal as S
from symx import npproxy
from symx.lift import lift_matrix
from symx.series_tools import load_irispie
from symx.concolic import model_values
from symx.report import standard_main

PID = "C18"


def _build_db(ir, endo, exo, ncol, miss, values=None):
    start = ir.qq(2000, 1)
    db = ir.Databox()
    for i, n in enumerate(list(endo) + list(exo)):
        vals = []
        for j in range(ncol):
            if (n, j) in miss:
                vals.append(float("nan"))
            elif values is not None and f"{n}__{j}" in values:
                vals.append(float(values[f"{n}__{j}"]))
            else:
                vals.append(0.3 + 0.17 * ((3 * i + 5 * j) % 7) - 0.05 * j)
        db[n] = ir.Series(start=start, values=tuple(vals))
    return db, start >> (start + ncol - 1)


def _structures(tier):
    out = []
    for (endo, exo) in ((("a",), ()), (("a", "b"), ()), (("a", "b"), ("x",))):
        for order in ((1, 2) if tier == "thorough" or len(endo) == 1 else (1,)):
            for intercept in (True, False):
                for dof in (False, True):
                    ncol = 6
                    masks = [frozenset(), frozenset({(endo[0], 2)}), frozenset({(endo[-1], 0)}), frozenset({(endo[0], ncol - 1)})]
                    if exo:
                        masks.append(frozenset({(exo[0], 3)}))
                    if tier == "quick":
                        masks = masks[:2] + masks[-1:]
                        if dof and not intercept:
                            continue
                    for miss in masks:
                        out.append((endo, exo, order, intercept, dof, ncol, miss))
    return out


PRIOR_PARS = dict(rho=0.5, mu_minnesota=2.0, kappa=1, mean=(0.5, -0.25, 0.75), mu_mean=1.5)


def _prior_objects(kind, ne):
    """irispie prior objects for kind in {None, 'minnesota', 'mean', 'both'}"""
    if not kind:
        return None
    from irispie.red_vars.prior_obs import MinnesotaPriorObs, MeanPriorObs
    P = PRIOR_PARS
    objs = []
    if kind in ("minnesota", "both"):
        objs.append(MinnesotaPriorObs(rho=P["rho"], mu=P["mu_minnesota"], kappa=P["kappa"]))
    if kind in ("mean", "both"):
        objs.append(MeanPriorObs(mean=np.array(P["mean"][:ne], dtype=float), mu=P["mu_mean"]))
    return objs


def _prior_dummies(kind, ne, nx, order, intercept):
    """dummy observations written from the definition of the priors, as (regressor vector, regressand vector) pairs in the regressor order
    [lag 1 of every variable, ..., lag p of every variable, exogenous, intercept]:
    Minnesota (rho, mu, kappa): one observation per (lag l, variable i): regressor (l, i) = mu * l^kappa, all else 0; regressand i = mu * rho if l == 1 else 0
    mean (m, mu), only with an intercept: every lag of variable i = m_i * mu, exogenous 0, intercept mu; regressand i = m_i * mu"""
    P = PRIOR_PARS
    nreg = ne * order + nx + (1 if intercept else 0)
    out = []
    if kind in ("minnesota", "both"):
        for l in range(1, order + 1):
            for i in range(ne):
                reg = [0.0] * nreg
                reg[(l - 1) * ne + i] = P["mu_minnesota"] * l ** P["kappa"]
                y = [0.0] * ne
                if l == 1:
                    y[i] = P["mu_minnesota"] * P["rho"]
                out.append((reg, y))
    if kind in ("mean", "both") and intercept:
        reg = [0.0] * nreg
        for l in range(1, order + 1):
            for i in range(ne):
                reg[(l - 1) * ne + i] = P["mean"][i] * P["mu_mean"]
        reg[-1] = P["mu_mean"]
        out.append((reg, [P["mean"][i] * P["mu_mean"] for i in range(ne)]))
    return out


def _lifted_estimate(ir, endo, exo, order, intercept, dof, ncol, miss, values=None, prior=None):
    from irispie.red_vars import _estimators as est
    from irispie.fords import least_squares as ls, covariances as cv
    cap = {"solves": []}
    contract = []
    real = est._estimate_variant

    def solve(Mx, My):
        Mx, My = np.asarray(Mx, dtype=object), np.asarray(My, dtype=object)
        beta = np.empty(My.shape, dtype=object)
        c = len(cap["solves"])
        for idx in np.ndindex(*My.shape):
            beta[idx] = S.sym(f"beta{c}_" + "_".join(map(str, idx)), Fraction(1, 4))
        prod = Mx @ beta
        for idx in np.ndindex(*My.shape):
            contract.append(S.const(prod[idx]).t == S.const(My[idx]).t)
        cap["solves"].append((Mx, My, beta))
        return beta

    def lifted(invariant, dataslate, **kw):
        v = dataslate._variants[0]
        data = v.data
        names = tuple(dataslate.names)
        obj, syms = lift_matrix(data, names, values=values)
        v.data = obj
        cap.update(names=names, inp=obj.copy(), syms=syms)
        try:
            out = real(invariant, dataslate, **kw)
            cap["variant"] = out
            cap["out"] = np.array(v.data, dtype=object)
        finally:
            v.data = S.shadow_float(v.data) if "out" in cap else data
        return out
    la = npproxy.SubProxy(np.linalg, {"solve": solve})
    proxy = npproxy.Proxy(linalg=la)
    db, span = _build_db(ir, endo, exo, ncol, miss, values=values)
    model = ir.RedVAR(list(endo), exogenous_names=list(exo) or None, order=order, intercept=intercept)
    with npproxy.installed(proxy, est, ls, cv, extra=[(est, "_estimate_variant", lifted)]), S.Path() as path:
        out_db = model.estimate(db, span, omit_missing=True, dof_correction=dof, prior_obs=_prior_objects(prior, len(endo)))
    cap["contract"] = contract + [path.condition()]
    cap["model"] = model
    return cap


def _spec(cap, endo, exo, order, intercept, ncol):
    """lag-stacked tagged regressors / regressands and the complete periods, built independently from the input cells"""
    names, inp = cap["names"], cap["inp"]
    row = {n: i for i, n in enumerate(names)}

    def cell(n, j):
        v = inp[row[n], j]
        return None if (isinstance(v, float) and math.isnan(v)) else v
    periods = []
    for t in range(order, inp.shape[1]):          # the slate holds `order` pre-sample columns in front of the estimation span
        y = [cell(n, t) for n in endo]
        reg = [cell(n, t - l) for l in range(1, order + 1) for n in endo] + [cell(n, t) for n in exo] + ([S.const(1)] if intercept else [])
        complete = all(v is not None for v in y + reg)
        periods.append((t, y, reg, complete))
    return periods


def check_structure(run, ir, endo, exo, order, intercept, dof, ncol, miss, prior=None):
    key = f"var:endo={endo}:exo={exo}:order={order}:intercept={intercept}:dof={dof}:miss={sorted(miss)}" + (f":prior={prior}" if prior else "")
    case = dict(kind="var", endo=list(endo), exo=list(exo), order=order, intercept=intercept, dof=dof, ncol=ncol, miss=[list(m) for m in sorted(miss)], prior=prior)
    finding = f"redvar:intercept={intercept}" + (f":prior={prior}" if prior else "")
    try:
        cap = _lifted_estimate(ir, endo, exo, order, intercept, dof, ncol, miss, prior=prior)
    except S.SymbolicBranchError:
        raise
    except Exception as exc:
        run.counterexample(key, f"redvar:raises:intercept={intercept}", f"RedVAR(...intercept={intercept}).estimate raises {type(exc).__name__}: {str(exc)[:120]}", dict(case, values={}))
        return
    if len(cap["solves"]) != (1 if not prior else (2 if (exo or intercept) else 1)) and not (prior and len(cap["solves"]) in (1, 2)):
        run.unknown(key, f"{len(cap['solves'])} calls of linalg.solve")
        return
    # with prior dummy observations an auxiliary regression (scale of the data) comes first; the LAST solve is the estimate
    Mx, My, beta = cap["solves"][-1]
    dummies = _prior_dummies(prior, len(endo), len(exo), order, intercept)
    periods = _spec(cap, endo, exo, order, intercept, ncol)
    fitted = [p for p in periods if p[3]]
    ne, nreg = len(endo), len(fitted[0][2]) if fitted else 0
    claims = []
    # (i) moment matrices handed to the solver
    if Mx.shape != (nreg, nreg) or My.shape != (nreg, ne):
        run.counterexample(key, finding, f"moment matrices have shapes {Mx.shape}, {My.shape}, expected {(nreg, nreg)}, {(nreg, ne)}", dict(case, values={}))
        return
    for a in range(nreg):
        for b in range(nreg):
            want = S.const(0)
            for (_, y, reg, _) in fitted:
                want = want + reg[a] * reg[b]
            for (dreg, dy) in dummies:
                want = want + S.const(S.float_fraction(dreg[a] * dreg[b]))
            claims.append((f"Mx[{a},{b}]", Mx[a, b], want))
        for e in range(ne):
            want = S.const(0)
            for (_, y, reg, _) in fitted:
                want = want + reg[a] * y[e]
            for (dreg, dy) in dummies:
                want = want + S.const(S.float_fraction(dreg[a] * dy[e]))
            claims.append((f"My[{a},{e}]", My[a, e], want))
    # (ii) residuals on every period in terms of beta (beta' is returned transposed: coefficient of regressor a in equation e = beta[a, e])
    names, out = cap["names"], cap["out"]
    row = {n: i for i, n in enumerate(names)}
    res_rows = [row[n] for n in names if n.startswith("res_")]
    if len(res_rows) != ne:
        run.unknown(key, f"residual rows not found in {names}")
        return
    for (t, y, reg, complete) in periods:
        for e in range(ne):
            got = out[res_rows[e], t]
            if y[e] is None or any(v is None for v in reg):
                if not (isinstance(got, float) and math.isnan(got)):
                    run.counterexample(key, finding, f"residual of equation {e} at period {t} is defined although data are missing", dict(case, values={}))
                    return
                continue
            want = y[e]
            for a in range(nreg):
                want = want - beta[a, e] * reg[a]
            claims.append((f"residual[{e}]@{t}", got, want))
    # (iii) covariance of residuals and fitted periods
    var = cap["variant"]
    n_fit = len(fitted)
    num_rhs = nreg - ne * order       # exogenous + intercept ("non-endogenous" regressors)
    denom = n_fit - (num_rhs if dof else 0)
    cov = np.asarray(var.system.cov_residuals, dtype=object)
    for e1 in range(ne):
        for e2 in range(ne):
            want = S.const(0)
            for (t, y, reg, _) in fitted:
                want = want + out[res_rows[e1], t] * out[res_rows[e2], t]
            claims.append((f"cov_residuals[{e1},{e2}]", cov[e1, e2], want / denom))
    start = ir.qq(2000, 1)
    want_fitted = tuple(start + (t - order) for (t, _, _, c) in periods if c)
    if tuple(var.fitted_periods) != want_fitted:
        run.counterexample(key, finding, f"fitted periods {var.fitted_periods} != complete periods {want_fitted}", dict(case, values={}))
        return
    syms = cap["syms"]
    names_s = sorted(syms)
    assume = cap["contract"]
    r0, _ = run.check_sat(assume, timeout_ms=30000)
    if r0 != "sat":
        run.unknown(key, f"reachability witness {r0}")
        return
    run.reach_ok += 1
    for labl, a, b in claims:
        at, bt = S.const(a).t, S.const(b).t
        diff = z3.simplify(at - bt, som=True)
        if z3.is_rational_value(diff) and diff.numerator_as_long() == 0:
            res, mdl = run.prove(f"{key}:{labl}", diff == 0, [], timeout_ms=10000,
                                 sample={"obligation": f"{key}:{labl}", "impl": str(at)[:120], "spec": str(bt)[:120]} if labl == "My[0,0]" else None)
        else:
            res, mdl = run.prove(f"{key}:{labl}", at == bt, [], timeout_ms=60000, nl=True)
        if res == "unsat":
            continue
        if res == "sat":
            vals = model_values(mdl, names_s)
            run.counterexample(key, finding, f"{labl}: {str(at)[:80]} differs from the least-squares specification {str(bt)[:80]}",
                               dict(case, label=labl, values={k: [v.numerator, v.denominator] for k, v in vals.items()}))
            return
        run.unknown(key, f"solver {res} on {labl}")
        return
    run.ok(key)


def _sim_setup(ir, endo, exo, order, intercept, ncol, values=None):
    """estimate on concrete data (real code, floats); data for the simulation: the same series plus residual series"""
    db, span = _build_db(ir, endo, exo, ncol, frozenset())
    model = ir.RedVAR(list(endo), exogenous_names=list(exo) or None, order=order, intercept=intercept)
    model.estimate(db, span, omit_missing=True)
    start = ir.qq(2000, 1)
    sim_span = (start + order) >> (start + ncol - 1)
    dbs = ir.Databox()
    for i, n in enumerate(list(endo) + list(exo)):
        dbs[n] = ir.Series(start=start, values=tuple((values or {}).get(f"{n}__{j}", 0.3 + 0.17 * ((3 * i + 5 * j) % 7) - 0.05 * j) for j in range(ncol)))
    for i, n in enumerate(endo):
        dbs["res_" + n] = ir.Series(start=start + order, values=tuple((values or {}).get(f"res_{n}__{j}", 0.05 * ((2 * i + j) % 3) - 0.04) for j in range(order, ncol)))
    return model, dbs, sim_span, start


def lifted_simulate(ir, model, endo, exo, order, dbs, sim_span, start, all_variants=False):
    """run model.simulate(dbs, sim_span) with the dataslate lifted (initial conditions, exogenous data, residuals); returns (cap, path), or
    (list of caps in variant order, path) with all_variants=True.  Symbols of variant v > 0 carry the suffix _v{v}.  Raises whatever the
    real code raises."""
    from irispie.red_vars import _simulators as rs
    from irispie.fords import simulators as fs
    from irispie.dataslates import _variants as dv
    caps = {}            # id(dataslate variant) -> cap
    order_seen = []
    real = fs.simulate_flat
    real_exo = rs._simulate_exogenous_impact

    def ensure_lifted(ds_v):
        var = ds_v._variants[0]
        if id(var) in caps:
            return var, caps[id(var)]
        vi = len(order_seen)
        data = var.data
        names = tuple(ds_v.names)
        periods = tuple(ds_v.periods)
        label = lambda j: str(periods[j] - start) + (f"_v{vi}" if vi else "")
        # initial conditions of the endogenous variables (before the simulation span), exogenous data and residuals inside it
        k_of = lambda j: periods[j] - start
        where = lambda nm, j: (nm in endo and k_of(j) < order) or (nm in exo) or nm.startswith("res_")
        obj, syms = lift_matrix(data, names, where=where, col_label=label)
        var.data = obj
        cap = dict(names=names, periods=periods, inp=obj.copy(), syms=syms, float_data=data, var=var)
        caps[id(var)] = cap
        order_seen.append(cap)
        return var, cap

    def lifted_exo(model_v, ds_v):
        ensure_lifted(ds_v)          # the exogenous impact B x_t is computed before simulate_flat, from the same dataslate
        return real_exo(model_v, ds_v)

    def lifted(model_v, ds_v, frame, **kw):
        var, cap = ensure_lifted(ds_v)
        try:
            r = real(model_v, ds_v, frame, **kw)
            cap["out"] = np.array(var.data, dtype=object)
        finally:
            var.data = S.shadow_float(var.data) if "out" in cap else cap["float_data"]
        return r
    proxy = npproxy.Proxy()
    with npproxy.installed(proxy, fs, rs, extra=[(rs._simulators, "simulate_flat", lifted), (rs, "_simulate_exogenous_impact", lifted_exo)]), \
            npproxy.installed(npproxy.Proxy(object_alloc=False), dv), S.Path() as path:
        model.simulate(dbs, sim_span)
    if all_variants:
        return order_seen, path
    return (order_seen[0] if order_seen else {}), path


def _sim_setup_multi(ir, endo, exo, order, intercept, ncol, nvar, values=None):
    """nvar-variant data (different numbers per variant) -> nvar-variant estimate; simulation data likewise"""
    start = ir.qq(2000, 1)
    db = ir.Databox()
    for i, n in enumerate(list(endo) + list(exo)):
        db[n] = ir.Series(start=start, values=np.array([[0.3 + 0.17 * ((3 * i + 5 * j + 2 * v) % 7) - 0.05 * j + 0.02 * v * ((i + j) % 3) for v in range(nvar)] for j in range(ncol)]))
    model = ir.RedVAR(list(endo), exogenous_names=list(exo) or None, order=order, intercept=intercept, num_variants=nvar)
    model.estimate(db, start >> (start + ncol - 1), omit_missing=True)
    sim_span = (start + order) >> (start + ncol - 1)

    def val(name, j, v, default):
        return (values or {}).get(f"{name}__{j}" + (f"_v{v}" if v else ""), default)
    dbs = ir.Databox()
    for i, n in enumerate(list(endo) + list(exo)):
        dbs[n] = ir.Series(start=start, values=np.array([[val(n, j, v, 0.3 + 0.17 * ((3 * i + 5 * j + v) % 7) - 0.05 * j + 0.03 * v) for v in range(nvar)] for j in range(ncol)]))
    for i, n in enumerate(endo):
        dbs["res_" + n] = ir.Series(start=start + order, values=np.array([[val("res_" + n, j, v, 0.05 * ((2 * i + j + v) % 3) - 0.04) for v in range(nvar)] for j in range(order, ncol)]))
    return model, dbs, sim_span, start


def check_simulate_variants(run, ir, endo, exo, order, intercept, nvar=2):
    """every variant of a multi-variant VAR follows ITS OWN recursion (own coefficients, own exogenous data, own residuals)"""
    ncol = order + 2 + order * len(endo) + len(exo) + 1
    key = f"simulate:endo={endo}:exo={exo}:order={order}:intercept={intercept}:variants={nvar}"
    case = dict(kind="simulate_variants", endo=list(endo), exo=list(exo), order=order, intercept=intercept, ncol=ncol, nvar=nvar)
    finding = f"redvar:simulate:variants:exo={len(exo)}"
    model, dbs, sim_span, start = _sim_setup_multi(ir, endo, exo, order, intercept, ncol, nvar)
    try:
        caps, path = lifted_simulate(ir, model, endo, exo, order, dbs, sim_span, start, all_variants=True)
    except S.SymbolicBranchError:
        raise
    except Exception as exc:
        run.counterexample(key, finding + ":raises", f"RedVAR.simulate raises {type(exc).__name__}: {str(exc)[:140]}", dict(case, values={}))
        return
    if len(caps) != nvar or any("out" not in c for c in caps):
        run.unknown(key, f"{len(caps)} variants reached simulate_flat")
        return
    sms = model.get_system_matrices()
    claims, syms = [], {}
    ne = len(endo)
    for v, cap in enumerate(caps):
        names, periods, out, inp = cap["names"], cap["periods"], cap["out"], cap["inp"]
        syms.update(cap["syms"])
        row = {n: i for i, n in enumerate(names)}
        col = {periods[j] - start: j for j in range(len(periods))}
        sm = sms[v]
        A = np.asarray(sm.A, dtype=float)
        B = np.asarray(sm.B, dtype=float) if exo else None
        c = np.asarray(sm.c, dtype=float).reshape(-1) if intercept and sm.c is not None else None
        ypath = {(n, k): inp[row[n], col[k]] for n in endo for k in range(order)}
        for k in range(order, ncol):
            for e, n in enumerate(endo):
                want = S.const(0)
                for l in range(1, order + 1):
                    for e2, n2 in enumerate(endo):
                        want = want + S.float_fraction(float(A[e, (l - 1) * ne + e2])) * ypath[(n2, k - l)]
                for x_i, xn in enumerate(exo):
                    want = want + S.float_fraction(float(B[e, x_i])) * inp[row[xn], col[k]]
                if c is not None:
                    want = want + S.float_fraction(float(c[e]))
                want = want + inp[row["res_" + n], col[k]]
                ypath[(n, k)] = want
            for e, n in enumerate(endo):
                got = out[row[n], col[k]]
                if isinstance(got, float) and math.isnan(got):
                    run.counterexample(key, finding, f"simulated {n} missing at period {k} (variant {v})", dict(case, values={}))
                    return
                claims.append((f"{n}@{k}[variant {v}]", S.const(got).t, S.const(ypath[(n, k)]).t))
    box = [z3.And(s_.t >= -1, s_.t <= 1) for s_ in syms.values()]
    assume = box + [path.condition()]
    r0, _ = run.check_sat(assume, timeout_ms=30000)
    if r0 != "sat":
        run.unknown(key, f"reachability witness {r0}")
        return
    run.reach_ok += 1
    tol = Fraction(1, 10 ** 8)
    big = Fraction(1, 1000)
    res, mdl = run.check_sat(assume + [z3.Or(*[z3.Or(a - b > tol, a - b < -tol) for _, a, b in claims])], timeout_ms=60000)
    if res == "unsat":
        run.ok(key)
    elif res == "sat":
        r2, m2 = run.check_sat(assume + [z3.Or(*[z3.Or(a - b > big, a - b < -big) for _, a, b in claims])], timeout_ms=60000)
        if r2 == "sat":
            mdl = m2
        bad = []
        for labl, a, b in claims:
            d = mdl.eval(a - b, model_completion=True)
            fv = Fraction(d.numerator_as_long(), d.denominator_as_long())
            if abs(fv) > tol:
                bad.append((labl, float(fv)))
        vals = model_values(mdl, sorted(syms))
        run.counterexample(key, finding, f"a variant does not follow its own VAR recursion: {bad[:4]}", dict(case, bad=bad[:6], values={k: [v_.numerator, v_.denominator] for k, v_ in vals.items()}))
    else:
        run.unknown(key, f"solver {res}")


def _replay_simulate_variants(ir, case):
    endo, exo, order, intercept, ncol, nvar = tuple(case["endo"]), tuple(case["exo"]), case["order"], case["intercept"], case["ncol"], case["nvar"]
    vals = {k: float(Fraction(a, b)) for k, (a, b) in case.get("values", {}).items()}
    model, dbs, sim_span, start = _sim_setup_multi(ir, endo, exo, order, intercept, ncol, nvar, values=vals)
    try:
        out = model.simulate(dbs, sim_span)
    except Exception as exc:
        return True, f"simulate raises {type(exc).__name__}: {exc}"
    out = out[0] if isinstance(out, tuple) else out
    sms = model.get_system_matrices()
    ne = len(endo)
    worst, msg = 0.0, "every variant follows its recursion"
    for v in range(nvar):
        sm = sms[v]
        A = np.asarray(sm.A, dtype=float)
        B = np.asarray(sm.B, dtype=float) if exo else None
        c = np.asarray(sm.c, dtype=float).reshape(-1) if intercept and sm.c is not None else None
        g = lambda box, n, k: float(np.asarray(box[n].get_data(start + k)).reshape(-1)[v])
        y = {(n, k): g(dbs, n, k) for n in endo for k in range(order)}
        for k in range(order, ncol):
            for e, n in enumerate(endo):
                w = sum(A[e, (l - 1) * ne + e2] * y[(n2, k - l)] for l in range(1, order + 1) for e2, n2 in enumerate(endo))
                w += sum(B[e, i] * g(dbs, xn, k) for i, xn in enumerate(exo)) + (c[e] if c is not None else 0.0) + g(dbs, "res_" + n, k)
                y[(n, k)] = w
            for n in endo:
                d = abs(g(out, n, k) - y[(n, k)])
                if not d <= worst:
                    worst, msg = (d if d == d else float("inf")), f"variant {v}, {n}@{k}: simulated {g(out, n, k)!r} vs recursion {y[(n, k)]!r}"
    return worst > 1e-7, msg


def check_simulate(run, ir, endo, exo, order, intercept, ncol=6):
    """RedVAR.simulate lifted at fords.simulators.simulate_flat: with arbitrary initial conditions, exogenous data and residuals the simulated
    path is the VAR recursion y_t = sum_l A_l y_{t-l} + B x_t + c + res_t -- hence, with the estimated residuals, the original data"""
    key = f"simulate:endo={endo}:exo={exo}:order={order}:intercept={intercept}"
    case = dict(kind="simulate", endo=list(endo), exo=list(exo), order=order, intercept=intercept, ncol=ncol)
    finding = f"redvar:simulate:order={order}:exo={len(exo)}"
    model, dbs, sim_span, start = _sim_setup(ir, endo, exo, order, intercept, ncol)
    try:
        cap, path = lifted_simulate(ir, model, endo, exo, order, dbs, sim_span, start)
    except S.SymbolicBranchError:
        raise
    except Exception as exc:
        run.counterexample(key, finding + ":raises", f"RedVAR.simulate raises {type(exc).__name__}: {str(exc)[:140]}", dict(case, values={}))
        return
    if "out" not in cap:
        run.unknown(key, "simulate_flat was not reached")
        return
    names, periods, out, inp = cap["names"], cap["periods"], cap["out"], cap["inp"]
    row = {n: i for i, n in enumerate(names)}
    col = {periods[j] - start: j for j in range(len(periods))}
    sm = model.get_system_matrices()
    A = np.asarray(sm.A, dtype=float)
    B = np.asarray(sm.B, dtype=float) if exo else None
    c = np.asarray(sm.c, dtype=float).reshape(-1) if intercept and sm.c is not None else None
    ne = len(endo)
    ypath = {}           # (name, k) -> term of the oracle recursion
    for n in endo:
        for k in range(order):
            ypath[(n, k)] = inp[row[n], col[k]]
    claims = []
    for k in range(order, ncol):
        for e, n in enumerate(endo):
            want = S.const(0)
            for l in range(1, order + 1):
                for e2, n2 in enumerate(endo):
                    want = want + S.float_fraction(float(A[e, (l - 1) * ne + e2])) * ypath[(n2, k - l)]
            for x_i, xn in enumerate(exo):
                want = want + S.float_fraction(float(B[e, x_i])) * inp[row[xn], col[k]]
            if c is not None:
                want = want + S.float_fraction(float(c[e]))
            want = want + inp[row["res_" + n], col[k]]
            ypath[(n, k)] = want
        for e, n in enumerate(endo):
            got = out[row[n], col[k]]
            if isinstance(got, float) and math.isnan(got):
                run.counterexample(key, finding, f"simulated {n} missing at period {k}", dict(case, values={}))
                return
            claims.append((f"{n}@{k}", S.const(got).t, S.const(ypath[(n, k)]).t))
    syms = cap["syms"]
    box = [z3.And(s.t >= -1, s.t <= 1) for s in syms.values()]
    assume = box + [path.condition()]
    r0, _ = run.check_sat(assume, timeout_ms=30000)
    if r0 != "sat":
        run.unknown(key, f"reachability witness {r0}")
        return
    run.reach_ok += 1
    tol = Fraction(1, 10 ** 8)
    viol = z3.Or(*[z3.Or(a - b > tol, a - b < -tol) for _, a, b in claims])
    res, mdl = run.check_sat(assume + [viol], timeout_ms=60000)
    if res == "unsat":
        if len(run.samples) < 12:
            run.samples.append({"obligation": key, "verdict": "unsat: the simulated path is the VAR recursion on initial conditions, exogenous data and residuals (1e-8) for all inputs in the unit box",
                                "claims": len(claims), "example": str(z3.simplify(claims[-1][1]))[:160]})
        run.ok(key)
    elif res == "sat":
        bad = []
        for labl, a, b in claims:
            d = mdl.eval(a - b, model_completion=True)
            fv = Fraction(d.numerator_as_long(), d.denominator_as_long())
            if abs(fv) > tol:
                bad.append((labl, float(fv)))
        vals = model_values(mdl, sorted(syms))
        run.counterexample(key, finding, f"simulate does not follow the VAR recursion: {bad[:4]}", dict(case, bad=bad[:6], values={k: [v.numerator, v.denominator] for k, v in vals.items()}))
    else:
        run.unknown(key, f"solver {res}")


def _replay_simulate(ir, case):
    endo, exo, order, intercept, ncol = tuple(case["endo"]), tuple(case["exo"]), case["order"], case["intercept"], case["ncol"]
    vals = {k: float(Fraction(a, b)) for k, (a, b) in case.get("values", {}).items()}
    model, dbs, sim_span, start = _sim_setup(ir, endo, exo, order, intercept, ncol, values=vals)
    try:
        out = model.simulate(dbs, sim_span)
    except Exception as exc:
        return True, f"simulate raises {type(exc).__name__}: {exc}"
    out = out[0] if isinstance(out, tuple) else out
    sm = model.get_system_matrices()
    A = np.asarray(sm.A, dtype=float)
    B = np.asarray(sm.B, dtype=float) if exo else None
    c = np.asarray(sm.c, dtype=float).reshape(-1) if intercept and sm.c is not None else None
    g = lambda box, n, k: float(np.asarray(box[n].get_data(start + k)).reshape(-1)[0])
    y = {(n, k): g(dbs, n, k) for n in endo for k in range(order)}
    worst, msg = 0.0, "simulated path follows the recursion"
    ne = len(endo)
    for k in range(order, ncol):
        for e, n in enumerate(endo):
            w = sum(A[e, (l - 1) * ne + e2] * y[(n2, k - l)] for l in range(1, order + 1) for e2, n2 in enumerate(endo))
            w += sum(B[e, i] * g(dbs, xn, k) for i, xn in enumerate(exo)) + (c[e] if c is not None else 0.0) + g(dbs, "res_" + n, k)
            y[(n, k)] = w
        for n in endo:
            d = abs(g(out, n, k) - y[(n, k)])
            if not d <= worst:
                worst, msg = (d if d == d else float("inf")), f"{n}@{k}: simulated {g(out, n, k)!r} vs recursion {y[(n, k)]!r}"
    return worst > 1e-7, msg


# ------------------------------------------------------------------------------------------
# companion-form moments: get_acov / get_mean on a VAR whose coefficient matrices are SYMBOLS
# ------------------------------------------------------------------------------------------
def _moments_setup(ir, endo, order, intercept, values=None):
    """a RedVAR object (estimated concretely so that it is populated) whose system matrices are then replaced: by symbols (values=None)
    or by the given floats (replay)"""
    n, N = len(endo), len(endo) * order
    model, *_ = _sim_setup(ir, endo, (), order, intercept, ncol=order + 2 + order * n + 1)
    v = model._variants[0]
    if values is None:
        A = np.empty((n, N), dtype=object)
        for i in range(n):
            for j in range(N):
                A[i, j] = S.sym(f"A_{i}_{j}", Fraction(1 + ((2 * i + 3 * j) % 4), 8 * N))
        c = np.array([S.sym(f"c_{i}", Fraction(1 + i, 4)) for i in range(n)], dtype=object) if intercept else None
        Sg = np.empty((n, n), dtype=object)
        for i in range(n):
            for j in range(i, n):
                Sg[i, j] = Sg[j, i] = S.sym(f"s_{i}_{j}", Fraction(1) if i == j else Fraction(1, 8))
    else:
        A = np.array([[values.get(f"A_{i}_{j}", (1 + ((2 * i + 3 * j) % 4)) / (8 * N)) for j in range(N)] for i in range(n)], dtype=float)
        c = np.array([values.get(f"c_{i}", (1 + i) / 4) for i in range(n)], dtype=float) if intercept else None
        Sg = np.array([[values.get(f"s_{min(i, j)}_{max(i, j)}", 1.0 if i == j else 0.125) for j in range(n)] for i in range(n)], dtype=float)
    v.system.A, v.system.c, v.system.cov_residuals = A, c, Sg
    v._companion_T = None
    v._eigenvalues = None
    v._max_abs_eigenvalue = None
    return model, v, A, c, Sg


def _companion_oracle(A, Sg, n, order):
    """companion transition matrix and covariance written from the definition: y_t = A_1 y_{t-1} + ... + A_p y_{t-p} + u_t"""
    N = n * order
    zero = S.const(0) if A.dtype == object else 0.0
    one = S.const(1) if A.dtype == object else 1.0
    T = np.full((N, N), zero, dtype=A.dtype)
    Q = np.full((N, N), zero, dtype=A.dtype)
    for i in range(n):
        for j in range(N):
            T[i, j] = A[i, j]            # first block row: [A_1 ... A_p]
        for j in range(n):
            Q[i, j] = Sg[i, j]
    for i in range(n, N):
        T[i, i - n] = one                # y_{t-l} is copied down one block
    return T, Q


def check_moments(run, ir, endo, order, intercept, up_to=3):
    """RedVAR.get_acov(up_to_order) and get_mean() are those of the companion form, for ALL coefficient matrices: the Lyapunov solver and the
    linear solve are replaced by their contracts (fresh symbols), the arguments they receive are compared with the companion form built
    from the definition, and C_k must be the top-left block of T^k Omega"""
    from irispie.red_vars import _variants as rv
    import scipy
    n, N = len(endo), len(endo) * order
    key = f"moments:endo={len(endo)}:order={order}:intercept={intercept}:up_to={up_to}"
    case = dict(kind="moments", endo=list(endo), order=order, intercept=intercept, up_to=up_to)
    finding = "redvar:moments"
    model, v, A, c, Sg = _moments_setup(ir, endo, order, intercept)
    calls = dict(lyap=[], solve=[])

    def lyap(T_, Q_, *a, **k):
        T_, Q_ = np.asarray(T_), np.asarray(Q_)
        Om = np.empty((N, N), dtype=object)
        for i in range(N):
            for j in range(i, N):
                Om[i, j] = Om[j, i] = S.sym(f"Om_{i}_{j}", Fraction(2 if i == j else 1, 4))
        calls["lyap"].append((T_, Q_, Om))
        return Om

    def solve(M_, r_):
        M_, r_ = np.asarray(M_), np.asarray(r_)
        mm = np.array([S.sym(f"mean_{i}", Fraction(1 + i, 2)) for i in range(M_.shape[0])], dtype=object)
        calls["solve"].append((M_, r_, mm))
        return mm
    sl = npproxy.SubProxy(scipy.linalg, {"solve_discrete_lyapunov": lyap})
    sp = npproxy.SubProxy(scipy, {"linalg": sl})
    proxy = npproxy.Proxy(linalg=npproxy.SubProxy(np.linalg, {"solve": solve}))
    try:
        with npproxy.installed(proxy, rv, extra=[(rv, "_sp", sp)]), S.Path() as path:
            acov = model.get_acov(up_to_order=up_to)
            mean = model.get_mean()
    except S.SymbolicBranchError:
        raise
    except Exception as exc:
        run.counterexample(key, finding + ":raises", f"get_acov/get_mean raises {type(exc).__name__}: {str(exc)[:140]}", dict(case, values={}))
        return
    problems, eqs = [], []

    def same(label, X, Y):
        X, Y = np.asarray(X, dtype=object), np.asarray(Y, dtype=object)
        if X.shape != Y.shape:
            problems.append(f"{label}: shape {X.shape} vs {Y.shape}")
            return
        for idx in np.ndindex(*X.shape):
            eqs.append((f"{label}{list(idx)}", S.const(X[idx]).t - S.const(Y[idx]).t))
    if len(calls["lyap"]) != 1:
        problems.append(f"the Lyapunov solver was called {len(calls['lyap'])} times")
    else:
        T_arg, Q_arg, Om = calls["lyap"][0]
        T_or, Q_or = _companion_oracle(A, Sg, n, order)
        same("companion_T", T_arg, T_or)
        same("companion_sigma", Q_arg, Q_or)
        if len(acov) != up_to + 1:
            problems.append(f"{len(acov)} autocovariance matrices returned for up_to_order={up_to}")
        else:
            Bk = Om
            for k in range(up_to + 1):
                same(f"C_{k}", acov[k], Bk[:n, :n])
                Bk = T_or @ Bk
    if intercept:
        if len(calls["solve"]) != 1:
            problems.append(f"the linear solver was called {len(calls['solve'])} times for the mean")
        else:
            M_arg, r_arg, mm = calls["solve"][0]
            Msum = np.full((n, n), S.const(0), dtype=object)
            for i in range(n):
                for j in range(n):
                    Msum[i, j] = (S.const(1) if i == j else S.const(0)) - sum((A[i, l * n + j] for l in range(order)), S.const(0))
            same("mean_matrix", M_arg, Msum)
            same("mean_rhs", r_arg, c)
            same("mean", mean, mm)
    else:
        same("mean", mean, np.full((n,), S.const(0), dtype=object))
    if problems:
        run.counterexample(key, finding, "; ".join(problems)[:300], dict(case, values={}))
        return
    # domain of the witness: a stable VAR (row sums of |A| <= 1/2) with a positive definite residual covariance, so that the replay's own
    # Lyapunov solve is well posed; the identities themselves are decided for these values
    dom = [path.condition()]
    for i in range(n):
        for j in range(N):
            dom.append(z3.And(A[i, j].t >= -Fraction(1, 2 * N), A[i, j].t <= Fraction(1, 2 * N)))
        for j in range(i, n):
            dom.append(z3.And(Sg[i, j].t >= 1, Sg[i, j].t <= 2) if i == j else z3.And(Sg[i, j].t >= -Fraction(1, 4), Sg[i, j].t <= Fraction(1, 4)))
    if intercept:
        dom += [z3.And(ci.t >= Fraction(1, 8), ci.t <= 1) for ci in c]
    r0, _ = run.check_sat(dom, timeout_ms=30000)
    if r0 != "sat":
        run.unknown(key, f"reachability witness {r0}")
        return
    run.reach_ok += 1
    res, mdl = run.check_sat(dom + [z3.Or(*[t != 0 for _, t in eqs])], timeout_ms=120000, nl=True)
    if res == "unsat":
        if len(run.samples) < 12:
            run.samples.append({"obligation": key, "verdict": "unsat: the solvers receive the companion form built from the definition, C_k is the top-left block of T^k Omega, "
                                "the mean solves (I - sum A_j) m = c -- exact polynomial identities in the coefficient symbols", "claims": len(eqs)})
        run.ok(key)
    elif res == "sat":
        names = sorted([f"A_{i}_{j}" for i in range(n) for j in range(N)] + [f"s_{i}_{j}" for i in range(n) for j in range(i, n)] + ([f"c_{i}" for i in range(n)] if intercept else []))
        vals = model_values(mdl, names)
        bad = []
        for labl, t in eqs:
            try:
                d = mdl.eval(t, model_completion=True)
                if not (z3.is_rational_value(d) and d.numerator_as_long() == 0):
                    bad.append(labl)
            except Exception:
                pass
        run.counterexample(key, finding, f"moments are not those of the companion form: {bad[:5]}",
                           dict(case, bad=bad[:8], values={k_: [x.numerator, x.denominator] for k_, x in vals.items()}))
    else:
        run.unknown(key, f"solver {res}")


def _replay_moments(ir, case):
    import scipy.linalg
    endo, order, intercept, up_to = tuple(case["endo"]), case["order"], case["intercept"], case["up_to"]
    n, N = len(endo), len(endo) * order
    vals = {k: float(Fraction(a, b)) for k, (a, b) in case.get("values", {}).items()}
    model, v, A, c, Sg = _moments_setup(ir, endo, order, intercept, values=vals)
    try:
        acov = model.get_acov(up_to_order=up_to)
        mean = np.asarray(model.get_mean(), dtype=float)
    except Exception as exc:
        return True, f"raises {type(exc).__name__}: {exc}"
    T, Q = _companion_oracle(A, Sg, n, order)
    Om = scipy.linalg.solve_discrete_lyapunov(T, Q)
    worst, msg = 0.0, "moments are those of the companion form"
    if len(acov) != up_to + 1:
        return True, f"{len(acov)} autocovariance matrices returned for up_to_order={up_to}"
    Bk = Om
    for k in range(up_to + 1):
        d = float(np.max(np.abs(np.asarray(acov[k], dtype=float) - Bk[:n, :n])))
        if d > worst:
            worst, msg = d, f"C_{k} differs from the top-left block of T^{k} Omega by {d!r}"
        Bk = T @ Bk
    want = np.linalg.solve(np.eye(n) - sum(A[:, l * n:(l + 1) * n] for l in range(order)), c) if intercept else np.zeros(n)
    d = float(np.max(np.abs(mean - want)))
    if d > worst:
        worst, msg = d, f"mean {mean!r} vs {want!r}"
    return worst > 1e-8, msg



def main(run):
    ir = load_irispie()
    run.extra["proxy_selftest_checks"] = npproxy.selftest()
    run.functions_encoded += ["red_vars._estimators.{Inlay.estimate,_estimate_variant,_get_estimation_data,get_where_observations,_write_residual_estimates}",
                              "fords.least_squares.ordinary_least_squares", "fords.covariances.symmetrize", "red_vars._variants.{Variant,System}", "red_vars._invariants.Invariant",
                              "dataslates (from_databox_for_slatable, to_databox) around the kernel"]
    run.bounds["structures"] = ("1-2 endogenous, 0-1 exogenous variables, order 1-2, intercept on/off, dof_correction on/off, 6 periods, masks: none / one interior / first / last / "
                                "exogenous missing; one variant")
    run.bounds["values"] = "every data cell an independent real; exact polynomial identities (no tolerance)"
    run.stubs += ["numpy.linalg.solve in ordinary_least_squares -> fresh beta with the contract Mx beta' = My",
                  "simulate: coefficients come from a concrete estimate (floats); initial conditions, exogenous data and residuals are symbols"]
    run.functions_encoded += ["red_vars._simulators.{Inlay.simulate,_simulate,_simulate_exogenous_impact}, fords.simulators.{simulate_flat,get_init_xi}, red_vars._variants (companion matrices), "
                              "red_vars._invariants._populate_solution_vectors (executed)"]
    run.stubs += ["moments: scipy.linalg.solve_discrete_lyapunov and numpy.linalg.solve -> fresh symbols (their arguments are compared with the companion form built from the definition)"]
    run.functions_encoded += ["red_vars._variants.Variant.{get_acov,get_mean,companion_T,_populate_companion_T,_get_companion_sigma}, red_vars.main.RedVAR.{get_acov,get_mean}"]
    run.bounds["moments"] = "1-2 (thorough: 3) endogenous variables, order 1-2 (thorough: 3), intercept on/off, autocovariances up to order 3 (thorough: 4); every coefficient, intercept and covariance entry a symbol"
    run.bounds["priors"] = "Minnesota (rho=0.5, mu=2, kappa=1) and mean (mu=1.5) prior dummy observations, alone and together, written from their definitions; hyperparameters concrete"
    run.outside += ["'noise-free data return the generating VAR' (needs uniqueness of the solve, i.e. LAPACK)", "scaling of the prior by the data (irispie computes the scale and does not use it)",
                    "eigenvalues of the companion form (LAPACK eig; the companion matrix itself is decided)", "estimation with several variants (simulate is checked with 2 variants), resampling"]
    for args in _structures(run.tier):
        try:
            check_structure(run, ir, *args)
        except S.SymbolicBranchError as exc:
            run.unknown(f"var:{args[:5]}", exc)
        except Exception as exc:
            run.error(f"var:{args[:5]}:{sorted(args[6])}", exc)
    for (endo, exo, order, intercept, prior) in (((("a", "b"), ("x",), 1, True, "mean"), (("a",), ("x",), 2, True, "both"), (("a", "b"), (), 2, False, "minnesota")) +
                                                 (((("a", "b"), ("x",), 2, True, "both"), (("a",), (), 1, True, "mean"), (("a", "b"), ("x",), 1, False, "both")) if run.tier == "thorough" else ())):
        try:
            check_structure(run, ir, endo, exo, order, intercept, False, 6 if order == 1 else 8, frozenset(), prior=prior)
        except S.SymbolicBranchError as exc:
            run.unknown(f"var:prior:{endo}:{exo}:{order}:{prior}", exc)
        except Exception as exc:
            run.error(f"var:prior:{endo}:{exo}:{order}:{prior}", exc)
    for (endo, exo, order, intercept) in ((("a",), (), 1, True), (("a", "b"), (), 1, True), (("a",), (), 2, True), (("a", "b"), (), 2, False), (("a", "b"), ("x",), 1, True),
                                          (("a",), ("x",), 2, True), (("a", "b"), ("x",), 2, True)) + (((("a", "b"), (), 3, True), (("a",), ("x",), 3, False)) if run.tier == "thorough" else ()):
        try:
            check_simulate(run, ir, endo, exo, order, intercept, ncol=order + 2 + order * len(endo) + len(exo) + 1)
        except S.SymbolicBranchError as exc:
            run.unknown(f"simulate:{endo}:{exo}:{order}", exc)
        except Exception as exc:
            run.error(f"simulate:{endo}:{exo}:{order}", exc)
    for (endo, exo, order, intercept) in ((("a",), ("x",), 1, True), (("a", "b"), (), 1, True)) + (((("a", "b"), ("x",), 2, True),) if run.tier == "thorough" else ()):
        try:
            check_simulate_variants(run, ir, endo, exo, order, intercept, nvar=2)
        except S.SymbolicBranchError as exc:
            run.unknown(f"simulate_variants:{endo}:{exo}:{order}", exc)
        except Exception as exc:
            run.error(f"simulate_variants:{endo}:{exo}:{order}", exc)
    for (endo, order, intercept) in ((("a",), 1, True), (("a", "b"), 1, True), (("a",), 2, False), (("a", "b"), 2, True)) + (((("a", "b"), 3, True), (("a", "b", "d"), 2, True)) if run.tier == "thorough" else ()):
        try:
            check_moments(run, ir, endo, order, intercept, up_to=3 if run.tier == "quick" else 4)
        except S.SymbolicBranchError as exc:
            run.unknown(f"moments:{endo}:{order}", exc)
        except Exception as exc:
            run.error(f"moments:{endo}:{order}", exc)
    run.extra["exhaustive"] = True


def replay(case):
    ir = load_irispie()
    if case.get("kind") == "moments":
        return _replay_moments(ir, case)
    if case.get("kind") == "simulate":
        return _replay_simulate(ir, case)
    if case.get("kind") == "simulate_variants":
        return _replay_simulate_variants(ir, case)
    endo, exo, order, intercept, dof, ncol = tuple(case["endo"]), tuple(case["exo"]), case["order"], case["intercept"], case["dof"], case["ncol"]
    miss = frozenset(tuple(m) for m in case["miss"])
    vals = {k: float(Fraction(a, b)) for k, (a, b) in case.get("values", {}).items()}
    db, span = _build_db(ir, endo, exo, ncol, miss, values=vals or None)
    model = ir.RedVAR(list(endo), exogenous_names=list(exo) or None, order=order, intercept=intercept)
    try:
        out = model.estimate(db, span, omit_missing=True, dof_correction=dof, prior_obs=_prior_objects(case.get("prior"), len(endo)))
    except Exception as exc:
        return True, f"estimate raises {type(exc).__name__}: {exc}"
    v = model._variants[0]
    start = span.start

    def cell(n, j):
        if j < 0:
            return None
        x = float(np.asarray(db[n].get_data(start + j)).reshape(-1)[0])
        return None if math.isnan(x) else x
    A, B, c = np.asarray(v.system.A, dtype=float), np.asarray(v.system.B, dtype=float), v.system.c
    worst, msg = 0.0, "normal equations, residuals and covariance agree"
    X, Y, U, fitted = [], [], [], []
    for t in range(0, ncol):
        y = [cell(n, t) for n in endo]
        reg = [cell(n, t - l) for l in range(1, order + 1) for n in endo] + [cell(n, t) for n in exo] + ([1.0] if intercept else [])
        if any(x is None for x in y + reg):
            continue
        fitted.append(t)
        y, reg = np.array(y), np.array(reg)
        coef = np.hstack([A, B] + ([np.asarray(c, dtype=float).reshape(-1, 1)] if intercept else []))
        u = y - coef @ reg
        for e, n in enumerate(endo):
            got = float(np.asarray(out["res_" + n].get_data(start + t)).reshape(-1)[0])
            if abs(got - u[e]) > worst:
                worst, msg = abs(got - u[e]), f"stored residual of {n} at {t}: {got!r} vs {u[e]!r}"
        X.append(reg); Y.append(y); U.append(u)
    X, Y, U = np.array(X).T, np.array(Y).T, np.array(U).T
    if case.get("prior"):
        # augmented least squares: the coefficients solve the normal equations of data + dummy observations
        dums = _prior_dummies(case["prior"], len(endo), len(exo), order, intercept)
        Xa = np.hstack([X] + [np.array(d[0]).reshape(-1, 1) for d in dums]) if dums else X
        Ya = np.hstack([Y] + [np.array(d[1]).reshape(-1, 1) for d in dums]) if dums else Y
        coef = np.hstack([A, B] + ([np.asarray(c, dtype=float).reshape(-1, 1)] if intercept else []))
        orth = np.abs(Xa @ (Ya - coef @ Xa).T).max() if Xa.size else 0.0
    else:
        orth = np.abs(X @ U.T).max() if X.size else 0.0
    if orth > max(worst, 0):
        worst, msg = max(worst, orth), f"residuals not orthogonal to regressors: {orth!r}"
    if tuple(v.fitted_periods) != tuple(start + t for t in fitted):
        return True, f"fitted periods {v.fitted_periods}"
    denom = len(fitted) - ((X.shape[0] - len(endo) * order) if dof else 0)
    covd = np.abs(np.asarray(v.system.cov_residuals, dtype=float) - U @ U.T / denom).max()
    if covd > worst:
        worst, msg = covd, f"cov_residuals differs by {covd!r}"
    return worst > 1e-8, msg


if __name__ == "__main__":
    standard_main(PID, main, replay)
