"""
C20 -- copies, pickles and parameter variants are independent, equivalent models.

Differential solver check on shared symbols.  A *history* is: build a model, assign tagged parameter values, (steady,
solve), create a duplicate by one of {copy, pickle, dill, deepcopy, portable(JSON)}, then apply a sequence of operations,
each addressed to the original or to the duplicate.  The oracle pair is built by running the operations addressed to
each side on a model parsed afresh from the source, so nothing can be shared between the two oracle models.

Observables are terms, not numbers:
  * equator terms (dynamic and steady) of the compiled functions on one symbol per (quantity, column);
  * the first-order simulation, lifted at fords.simulators.simulate_frame: every output cell is a term over the
    initial-condition and shock symbols (coefficients come from the model's own solution and steady state);
  * the function handed to the steady-state solver (solver replaced by its contract stub as in C05), with the
    parameter cells of the steady array lifted BY VALUE through a tag registry: each value ever assigned in the
    history is a distinct number with its own symbol, so a parameter cell that holds the other model's value becomes
    the wrong symbol;
  * the Kalman smoother terms over the observation symbols (models with measurement equations);
  * the reported parameters, lifted by value through the same registry.
z3 decides, for all values of all symbols, that each observable of (original, duplicate) equals the observable of the
oracle pair; a `sat` model is replayed by re-running the same history in floats without any lifting.

Variants: variant k of an n-variant model vs a single-variant model assigned variant k's values (same observables),
and model[k].  Sequential: same scheme with the lifted sequential simulator.
"""
from __future__ import annotations

import contextlib
import copy as _copy
import io
import itertools
import json
import math
import os
import pickle
import sys
import time
from fractions import Fraction

import numpy as np
import z3

from symx import sreal as S
from symx import npproxy, fo, kf, zoo
from symx.lift import lift_matrix
from symx.series_tools import load_irispie
from symx.report import standard_main, Run
from checks import C05 as c05

PID = "C20"
NCOL, T0 = 5, 2


# ------------------------------------------------------------------------------------------------ model specs
class Spec:
    def __init__(self, name, source, params, init, flags, tvars, shocks, mvars=(), logvars=(), nonlinear_steady=False, assign_extra=None):
        self.name, self.source, self.params, self.init, self.flags = name, source, dict(params), dict(init), dict(flags)
        self.tvars, self.shocks, self.mvars, self.logvars = tuple(tvars), tuple(shocks), tuple(mvars), tuple(logvars)
        self.nonlinear_steady = nonlinear_steady
        self.assign_extra = dict(assign_extra or {})


def specs():
    out = []
    for n in ("pc_const", "ar2m"):
        z = zoo.by_name(n)
        out.append(Spec(n, z.source(), z.float_params(), {}, dict(linear=True), z.tvars, z.tshocks, z.mvars))
    # unit root with drift: the steady state has non-zero CHANGES that depend on the parameters (non-flat)
    out.append(Spec("drift", "!transition-variables\n    l, g\n!transition-shocks\n    el, eg\n!parameters\n    rho, c\n!transition-equations\n"
                    "    l = l[-1] + g + el;\n    g = rho*g[-1] + c + eg;\n", dict(rho=0.5, c=0.1), {}, dict(linear=True), ("l", "g"), ("el", "eg")))
    for n in ("stat_nl", "rbc_flat"):
        s = c05.by_name(n)
        out.append(Spec(n, s.source(), s.params, s.init, dict(linear=s.linear, flat=s.flat), s.tvars, s.shocks, (), s.logvars,
                        nonlinear_steady=True, assign_extra=s.assign_extra))
    return out


def spec_by_name(n):
    return [s for s in specs() if s.name == n][0]


def tagval(spec, pname, i):
    """i-th distinct value of parameter pname (i=0: the base value); small steps keep the model well behaved"""
    return float(spec.params[pname]) * (1.0 + i / 64.0)


def registry(spec, ntags=24):
    reg = {}
    for p in spec.params:
        for i in range(ntags):
            reg[tagval(spec, p, i)] = f"{p}#{i}"
    return reg


# ------------------------------------------------------------------------------------------------ operations
def quiet():
    return contextlib.redirect_stdout(io.StringIO())


def fresh(ir, spec):
    with quiet():
        m = ir.Simultaneous.from_string(spec.source, **spec.flags)
    m.assign(**{p: tagval(spec, p, 0) for p in spec.params})
    if spec.init:
        m.assign(**spec.init)
    if spec.assign_extra:
        m.assign(**spec.assign_extra)
    return m


def apply_op(m, spec, op, log):
    """apply one operation with the real code; failures are part of the behaviour (logged, compared)"""
    kind = op[0]
    try:
        with quiet():
            if kind == "assign":
                m.assign(**{op[1]: tagval(spec, op[1], op[2])})
            elif kind == "assign_all":
                m.assign(**{p: tagval(spec, p, op[1]) for p in spec.params})
            elif kind == "assign_variants":
                m.assign(**{op[1]: [tagval(spec, op[1], op[2] + j) for j in range(m.num_variants)]})
            elif kind == "steady":
                m.steady()
            elif kind == "solve":
                m.solve()
            elif kind == "expand":
                m.alter_num_variants(op[1])
            elif kind == "shrink":
                m.alter_num_variants(1)
            elif kind == "change_logly":
                m.change_logly(False, [spec.logvars[0]])
            elif kind == "tolerance":
                m.override_tolerance(eigenvalue=1e-9)
            elif kind == "assign_level":
                m.assign(**{op[1]: float(spec.init.get(op[1], 1.0)) * (1.0 + op[2] / 32.0)})
            else:
                raise ValueError(kind)
        log.append((kind, "ok"))
    except Exception as exc:
        log.append((kind, type(exc).__name__))


def duplicate(ir, m, how):
    if how == "copy":
        return m.copy()
    if how == "pickle":
        return pickle.loads(pickle.dumps(m))
    if how == "pickle_bytes":
        return pickle.loads(m.to_pickle_bytes())
    if how == "dill":
        import dill
        return dill.loads(m.to_dill_bytes())
    if how == "deepcopy":
        return _copy.deepcopy(m)
    if how == "portable":
        return ir.Simultaneous.from_portable(json.loads(json.dumps(m.to_portable())))
    raise ValueError(how)


PREFIXES = {"assigned": (), "solved": (("steady",), ("solve",))}


class DuplicateFailed(Exception):
    """copy / pickle / dill / portable round trip raised: the duplicate does not exist, so it cannot behave identically"""


def run_history(ir, spec, hist, lifted=True):
    """
    hist = dict(prefix=, how=, ops=[(target, op), ...]).  Returns the four models (M, C, FM, FC) and their logs.
    """
    prefix = PREFIXES[hist["prefix"]]
    logs = {k: [] for k in ("M", "C", "FM", "FC")}
    if hist.get("late"):
        # late duplicate: every operation is applied to the original first, THEN the duplicate is taken; the duplicate must behave like
        # a freshly built model put through the same operations (and so must the original, which duplication may not disturb)
        M, FM, FC = fresh(ir, spec), fresh(ir, spec), fresh(ir, spec)
        for op in list(prefix) + [tuple(op) for _, op in hist["ops"]]:
            apply_op(M, spec, op, logs["M"])
            apply_op(FM, spec, op, logs["FM"])
            apply_op(FC, spec, op, logs["FC"])
        try:
            C = duplicate(ir, M, hist["how"])
        except Exception as exc:
            raise DuplicateFailed(f"duplicating the model by {hist['how']} after {[op for _, op in hist['ops']]} raises {type(exc).__name__}: {str(exc)[:160]}")
        logs["C"] = list(logs["M"])
        if hist["how"] == "portable":
            # the portable form carries values, not the solution: recompute on both sides
            for op in (("steady",), ("solve",)):
                apply_op(C, spec, op, logs["C"])
                apply_op(FC, spec, op, logs["FC"])
        return dict(M=M, C=C, FM=FM, FC=FC), logs
    M = fresh(ir, spec)
    for op in prefix:
        apply_op(M, spec, op, logs["M"])
    try:
        C = duplicate(ir, M, hist["how"])
    except Exception as exc:
        raise DuplicateFailed(f"duplicating the model by {hist['how']} raises {type(exc).__name__}: {str(exc)[:160]}")
    logs["C"] = list(logs["M"])
    FM = fresh(ir, spec)
    for op in prefix:
        apply_op(FM, spec, op, logs["FM"])
    FC = fresh(ir, spec)
    for op in prefix:
        if hist["how"] == "portable" and op[0] == "solve":
            # the portable representation carries values, not the solution
            logs["FC"].append(("solve", "ok"))
            continue
        apply_op(FC, spec, op, logs["FC"])
    for target, op in hist["ops"]:
        op = tuple(op)
        if target == "M":
            apply_op(M, spec, op, logs["M"])
            apply_op(FM, spec, op, logs["FM"])
        else:
            apply_op(C, spec, op, logs["C"])
            apply_op(FC, spec, op, logs["FC"])
    return dict(M=M, C=C, FM=FM, FC=FC), logs


# ------------------------------------------------------------------------------------------------ observables
def _sim_db(ir, spec, start, nsim, values=None):
    db = ir.Databox()
    first = start - 2
    for i, n in enumerate(spec.tvars):
        vals = [(1.0 + 0.25 * i + 0.125 * j) for j in range(2)]
        if values:
            vals = [values.get(f"{n}__m{2 - j}", vals[j]) for j in range(2)]
        db[n] = ir.Series(start=first, values=tuple(vals))
    for i, s in enumerate(spec.shocks):
        v0 = 0.03 + 0.01 * i
        a1 = 0.02 + 0.01 * i
        if values:
            v0 = values.get(f"{s}__0", v0)
            a1 = values.get(f"ant_{s}__1", a1)
        db[s] = ir.Series(start=start, values=(v0,) + (0.0,) * (nsim - 1))
        db["ant_" + s] = ir.Series(start=start, values=(0.0, a1) + (0.0,) * (nsim - 2))
    return db


def obs_equators(ir, m):
    from irispie.equators import plain as pl
    inv = m._invariant
    nq = len(inv.quantities)
    name_of = {q.id: q.human for q in inv.quantities}
    data = np.empty((nq, NCOL), dtype=object)
    for i in range(nq):
        for j in range(NCOL):
            nm = f"q_{name_of[i]}__{j}"
            data[i, j] = S.sym(nm, Fraction(3 + i, 2) + Fraction(j, 8))
    proxy = npproxy.Proxy(object_alloc=False)
    with npproxy.installed(proxy, pl):
        d = list(np.asarray(inv._plain_dynamic_equator.eval(data, T0), dtype=object).flat)
        s = list(np.asarray(inv._plain_steady_equator.eval(data, T0), dtype=object).flat)
    return {"equator:dynamic": d, "equator:steady": s,
            "structure": [json.dumps([(q.id, q.human, str(q.kind), q.logly) for q in inv.quantities]),
                          json.dumps([(e.id, e.human, str(e.kind)) for e in inv.dynamic_equations]),
                          json.dumps([(e.id, e.human, str(e.kind)) for e in inv.steady_equations]),
                          str(int(m.get_flags())), json.dumps(m.get_tolerance(), sort_keys=True)]}


def obs_params(m, reg):
    out = []
    for v in m._variants:
        for q in m._invariant.quantities:
            if "PARAMETER" in str(q.kind) and not q.human.startswith("std_"):
                x = v.levels.get(q.id)
                if x is None:
                    out.append("None")
                elif float(x) in reg:
                    out.append(S.sym(reg[float(x)], float(x)))
                else:
                    out.append(float(x))
    # stored steady state (levels and changes of variables), concrete numbers computed by the real code on each side
    st = []
    for v in m._variants:
        for q in m._invariant.quantities:
            if "VARIABLE" in str(q.kind):
                for d in (v.levels, v.changes):
                    x = d.get(q.id)
                    st.append("None" if x is None else (x if isinstance(x, S.SReal) else float(x)))
    return {"parameters": out, "num_variants": [str(m.num_variants)], "steady_values": st}


def obs_sim(ir, spec, m, deviation):
    start = ir.qq(2020, 1)
    nsim = 3
    span = start >> (start + nsim - 1)
    db = _sim_db(ir, spec, start, nsim)
    lift_rows = set(spec.tvars) | set(spec.shocks) | {"ant_" + s for s in spec.shocks}

    def where(name, k):
        if name.startswith("ant_"):
            return k == 1
        if name in spec.shocks:
            return k == 0
        return k < 0
    label = f"simulate:dev={deviation}"
    try:
        with fo.FirstOrderLift(ir, lift_rows, lift_where=where) as L, S.Path() as path, quiet():
            m.simulate(db, span, method="first_order", deviation=deviation)
    except S.SymbolicBranchError:
        raise
    except Exception as exc:
        return {label: [f"raises:{type(exc).__name__}"]}
    cells = []
    for vi, cap in enumerate(L.caps):
        names = cap["names"]
        for n in spec.tvars:
            i = names.index(n)
            for j in cap["base_columns"]:
                cells.append(cap["out"][i, j])
    cells.append(str(len(L.caps)))
    return {label: cells}


def obs_steady(ir, spec, m, reg):
    """destructive (writes the stub's symbols into the variants): call last"""
    pq = [q.id for q in m._invariant.quantities if "PARAMETER" in str(q.kind)]

    def hook(e):
        arr = e._steady_array
        for i in pq:
            for j in range(arr.shape[1]):
                x = arr[i, j]
                if isinstance(x, float) and x in reg:
                    arr[i, j] = S.sym(reg[x], x)
    try:
        with c05.SteadyLift(ir) as L, S.Path() as path, quiet():
            L.array_hook = hook
            m.steady()
    except S.SymbolicBranchError:
        raise
    except Exception as exc:
        return {"steady_function": [f"raises:{type(exc).__name__}"]}
    # the stub numbers its unknowns by a global block counter: renumber per variant so that variant k of an n-variant
    # model and a single-variant model use the same symbol names
    nv = max(1, m.num_variants)
    bpv = max(1, len(L.blocks) // nv)
    ren = []
    for bi, b in enumerate(L.blocks):
        for i, g in enumerate(b["g"]):
            ren.append((g.t, z3.Real(f"h{bi % bpv}_{i}")))
    cells = []
    for b in L.blocks:
        cells.append(json.dumps([int(q) for q in b["qids"]]))
        for f in b["f"]:
            cells.append(z3.substitute(S.const(f).t, *ren) if ren else f)
    cells.append(str(len(L.blocks)))
    return {"steady_function": cells}


def obs_kalman(ir, spec, m):
    start = ir.qq(2020, 1)
    nper = 3
    span = start >> (start + nper - 1)
    db = ir.Databox()
    for r, n in enumerate(spec.mvars):
        db[n] = ir.Series(start=start, values=tuple(0.3 + 0.1 * r - 0.05 * t for t in range(nper)))
    try:
        with kf.KalmanLift(ir, spec.mvars) as L, S.Path() as path, quiet():
            out = m.kalman_filter(db, span, deviation=False)
    except S.SymbolicBranchError:
        raise
    except Exception as exc:
        return {"kalman": [f"raises:{type(exc).__name__}"]}
    cells = []
    for n in spec.tvars:
        for c in kf.series_cells(out["smooth_med"][n], start, nper):
            cells.append(c)
    return {"kalman": cells}


def observe_nondestructive(ir, spec, m, reg, deep):
    ob = {}
    ob.update(obs_equators(ir, m))
    ob.update(obs_params(m, reg))
    ob.update(obs_sim(ir, spec, m, False))
    if deep:
        ob.update(obs_sim(ir, spec, m, True))
        if spec.mvars and m.num_variants == 1:
            ob.update(obs_kalman(ir, spec, m))
    return ob


# ------------------------------------------------------------------------------------------------ comparison
def _as_term(x):
    if isinstance(x, S.SReal):
        return x.t
    if isinstance(x, (int, float, Fraction, np.floating, np.integer)):
        f = float(x)
        if math.isnan(f):
            return "nan"
        return S.rv(S.float_fraction(f))
    if isinstance(x, z3.ExprRef):
        return x
    return str(x)


def _shadow_pins(terms):
    """symbol == its shadow-independent default: pin every free constant to a fixed rational (used only to decide `sat` on unknown)"""
    seen = {}
    stack = list(terms)
    while stack:
        t = stack.pop()
        if z3.is_const(t) and t.decl().kind() == z3.Z3_OP_UNINTERPRETED:
            seen[str(t)] = t
        else:
            stack.extend(t.children())
    pins = []
    for i, (n, t) in enumerate(sorted(seen.items())):
        pins.append(t == z3.RealVal(Fraction(7 + 3 * i, 8)))
    return pins


def compare(run, got, want, side):
    """returns (status, detail): 'ok' | 'sat' | 'unknown'"""
    nontrivial = False
    for label in sorted(set(got) | set(want)):
        a, b = got.get(label), want.get(label)
        if a is None or b is None or len(a) != len(b):
            return "sat", f"{side}: observable {label} has {None if a is None else len(a)} cells, oracle {None if b is None else len(b)}", nontrivial
        eqs = []
        for k, (x, y) in enumerate(zip(a, b)):
            tx, ty = _as_term(x), _as_term(y)
            if isinstance(tx, str) or isinstance(ty, str):
                if not (isinstance(tx, str) and isinstance(ty, str) and tx == ty):
                    return "sat", f"{side}: observable {label}[{k}]: {str(tx)[:80]} vs oracle {str(ty)[:80]}", nontrivial
                continue
            if z3.is_rational_value(tx) and z3.is_rational_value(ty):
                # two numbers computed by the real code on the two sides: equal up to float noise
                fa = float(tx.numerator_as_long()) / float(tx.denominator_as_long())
                fb = float(ty.numerator_as_long()) / float(ty.denominator_as_long())
                if abs(fa - fb) > 1e-9 * max(1.0, abs(fa), abs(fb)):
                    return "sat", f"{side}: observable {label}[{k}]: {fa!r} vs oracle {fb!r}", nontrivial
                continue
            nontrivial = True
            eqs.append((k, tx, ty))
        if eqs:
            claim = z3.And(*[tx == ty for _, tx, ty in eqs])
            res, mdl = run.prove(f"{side}:{label}", claim, [], timeout_ms=20000)
            if res == "unknown":
                res, mdl = run.prove(f"{side}:{label}:pinned", claim, _shadow_pins([t for _, tx, ty in eqs for t in (tx, ty)]), timeout_ms=20000)
                if res == "unsat":
                    res = "unknown"
            if res == "sat":
                bad = [k for k, tx, ty in eqs if not z3.is_true(mdl.eval(tx == ty, model_completion=True))]
                k = bad[0] if bad else eqs[0][0]
                tx, ty = [(x, y) for kk, x, y in eqs if kk == k][0]
                return "sat", f"{side}: observable {label}[{k}] differs from the oracle: {str(tx)[:90]} vs {str(ty)[:90]}", nontrivial
            if res != "unsat":
                return "unknown", f"{side}: solver {res} on {label}", nontrivial
    return "ok", "", nontrivial


def hist_key(spec, hist):
    ops = "+".join(f"{t}.{'_'.join(str(x) for x in op)}" for t, op in hist["ops"]) or "none"
    return f"{spec.name}:{hist['how']}:{hist['prefix']}:{ops}" + (":then-duplicate" if hist.get("late") else "")


def check_history(args):
    """worker: returns a JSON-like result; never raises"""
    spec_name, hist, deep = args
    t0 = time.time()
    run = Run(PID, "worker")
    res = dict(key=None, status="error", what="", q=None, solver_s=0.0, nontrivial=False, hist=hist, spec=spec_name)
    try:
        ir = load_irispie()
        spec = spec_by_name(spec_name)
        res["key"] = hist_key(spec, hist)
        reg = registry(spec)
        models, logs = run_history(ir, spec, hist)
        status, what, nontrivial = "ok", "", False
        for side, ref in (("M", "FM"), ("C", "FC")):
            if logs[side] != logs[ref]:
                status, what = "sat", f"{side}: operation outcomes {logs[side]} differ from the oracle's {logs[ref]}"
                break
        obs = {}
        if status == "ok":
            for k in ("M", "C", "FM", "FC"):
                obs[k] = observe_nondestructive(ir, spec, models[k], reg, deep)
            if spec.nonlinear_steady:
                for k in ("M", "C", "FM", "FC"):
                    obs[k].update(obs_steady(ir, spec, models[k], reg))
            for side, ref in (("M", "FM"), ("C", "FC")):
                status, what, nt = compare(run, obs[side], obs[ref], side)
                nontrivial = nontrivial or nt
                if status != "ok":
                    break
        res.update(status=status, what=what, nontrivial=nontrivial)
    except DuplicateFailed as exc:
        res.update(status="sat", what=str(exc))
    except S.SymbolicBranchError as exc:
        res.update(status="unknown", what=f"symbolic branch: {exc}")
    except Exception as exc:
        import traceback
        res.update(status="error", what="".join(traceback.format_exception(type(exc), exc, exc.__traceback__))[-1200:])
    res["q"] = dict(run.q)
    res["solver_s"] = run.solver_s
    res["wall"] = time.time() - t0
    return res


# ------------------------------------------------------------------------------------------------ histories
def op_alphabet(spec):
    p = list(spec.params)
    ops = [("assign", p[0]), ("assign_all",), ("steady",), ("solve",), ("expand", 2), ("assign_variants", p[-1]), ("shrink",)]
    if spec.init:
        ops.append(("assign_level", list(spec.init)[0]))
    if spec.logvars:
        ops.append(("change_logly",))      # mutates the invariant
    else:
        ops.append(("tolerance",))         # mutates the invariant
    return ops


def histories(spec, tier):
    """enumerated histories; tags are numbered by position so that every assigned value is distinct"""
    alpha = op_alphabet(spec)
    hows = ("copy", "pickle", "dill", "deepcopy", "portable", "pickle_bytes")
    out = []

    def tagged(seq):
        ops = []
        for pos, (target, op) in enumerate(seq):
            tag = 1 + 3 * pos + (0 if target == "M" else 12)
            if op[0] in ("assign", "assign_variants", "assign_level"):
                op = op + (tag,)
            elif op[0] == "assign_all":
                op = op + (tag,)
            ops.append((target, op))
        return ops
    single = [(t, op) for t in ("M", "C") for op in alpha]
    for how in hows:
        for prefix in ("assigned", "solved"):
            out.append(dict(how=how, prefix=prefix, ops=[]))
            maxlen = 1
            if how in ("copy", "pickle", "portable"):
                maxlen = 2 if (tier == "thorough" or (how == "copy" and prefix == "solved")) else 1
            if how == "copy" and tier == "thorough" and spec.name in ("pc_const", "stat_nl") and prefix == "solved":
                maxlen = 3
            for L in range(1, maxlen + 1):
                for seq in itertools.product(single, repeat=L):
                    # prune: histories that never touch one side after the first op are covered by shorter ones only if
                    # the observation is the same -- keep everything for L<=2; for L=3 keep sequences touching both sides
                    if L == 3 and len({t for t, _ in seq}) < 2:
                        continue
                    if L == 3 and not any(op[0] in ("assign", "assign_all", "assign_variants", "assign_level") for _, op in seq):
                        continue
                    out.append(dict(how=how, prefix=prefix, ops=tagged(seq)))
    # late duplicates: operations on the original first, duplicate afterwards
    for how in hows:
        for L in ((1, 2) if (tier == "thorough" or how in ("copy", "pickle", "portable")) else (1,)):
            for seq in itertools.product([("M", op) for op in alpha], repeat=L):
                if how == "portable" and any(op[0] == "tolerance" for _, op in seq):
                    continue      # tolerance overrides are not among the things the portable form is stated to carry
                out.append(dict(how=how, prefix="solved", ops=tagged(seq), late=True))
    return out


# ------------------------------------------------------------------------------------------------ variants
def check_variants(args):
    spec_name, nvar, k = args
    run = Run(PID, "worker")
    res = dict(key=f"variants:{spec_name}:n={nvar}:k={k}", status="error", what="", nontrivial=False, spec=spec_name, variant=dict(n=nvar, k=k))
    try:
        ir = load_irispie()
        spec = spec_by_name(spec_name)
        reg = registry(spec)
        M = fresh(ir, spec)
        M.alter_num_variants(nvar)
        M.assign(**{p: [tagval(spec, p, 1 + j + 4 * pi) for j in range(nvar)] for pi, p in enumerate(spec.params)})
        with quiet():
            M.steady()
            M.solve()
        F = fresh(ir, spec)
        F.assign(**{p: tagval(spec, p, 1 + k + 4 * pi) for pi, p in enumerate(spec.params)})
        with quiet():
            F.steady()
            F.solve()
        Mk = M[k]
        obs_view = observe_nondestructive(ir, spec, Mk, reg, True)
        obs_f = observe_nondestructive(ir, spec, F, reg, True)
        status, what, nt = compare(run, obs_view, obs_f, f"model[{k}]")
        if status == "ok":
            # the k-th slice of the multi-variant run: simulate on all variants, take variant k's frame
            start = ir.qq(2020, 1)
            whole = obs_sim(ir, spec, M, False)["simulate:dev=False"]
            one = obs_sim(ir, spec, F, False)["simulate:dev=False"]
            per = (len(whole) - 1) // nvar
            status, what, nt2 = compare(run, {"simulate:variant_slice": whole[k * per:(k + 1) * per]}, {"simulate:variant_slice": one[:-1]}, f"variant {k} of {nvar}")
            nt = nt or nt2
        if status == "ok" and spec.nonlinear_steady:
            a = obs_steady(ir, spec, M, reg)["steady_function"]
            b = obs_steady(ir, spec, F, reg)["steady_function"]
            nb = int(b[-1])
            per = (len(a) - 1) // nvar
            status, what, nt3 = compare(run, {"steady_function:variant_slice": a[k * per:(k + 1) * per]}, {"steady_function:variant_slice": b[:-1]}, f"variant {k} of {nvar}")
            nt = nt or nt3
        if status == "ok":
            # an operation on the whole model reaches EVERY variant: rescale_stds on the n-variant model vs on the single-variant model
            def stds_of(model, vi):
                return [float(model._variants[vi].levels[q.id]) for q in model._invariant.quantities if q.human.startswith("std_")]
            M2, F2 = fresh(ir, spec), fresh(ir, spec)
            M2.alter_num_variants(nvar)
            M2.rescale_stds(3)
            F2.rescale_stds(3)
            status, what, nt4 = compare(run, {"stds_after_rescale": stds_of(M2, k)}, {"stds_after_rescale": stds_of(F2, 0)}, f"variant {k} of {nvar}")
        res.update(status=status, what=what, nontrivial=nt)
    except S.SymbolicBranchError as exc:
        res.update(status="unknown", what=f"symbolic branch: {exc}")
    except Exception as exc:
        import traceback
        res.update(status="error", what="".join(traceback.format_exception(type(exc), exc, exc.__traceback__))[-1200:])
    res["q"] = dict(run.q)
    res["solver_s"] = run.solver_s
    return res


# ------------------------------------------------------------------------------------------------ Sequential
SEQ_PARAMS = {"a": 0.3, "b": 1.25}
SEQ_TEMPLATES = (("A", "none", "log"), ("B", "diff", "roc"))


def seq_tag(p, i):
    return SEQ_PARAMS[p] * (1.0 + i / 64.0)


def seq_registry():
    return {seq_tag(p, i): f"{p}#{i}" for p in SEQ_PARAMS for i in range(40)}


def seq_fresh(ir, tpl):
    from checks.C17 import model_source
    src, eqs = model_source(*tpl)
    m = ir.Sequential.from_string(src)
    m.assign(**{p: seq_tag(p, 0) for p in SEQ_PARAMS})
    return m


def seq_apply(m, op, log):
    try:
        if op[0] == "assign":
            m.assign(**{op[1]: seq_tag(op[1], op[2])})
        elif op[0] == "assign_view":        # per-variant assignment through the variant view model[k]
            m[m.num_variants - 1].assign(**{op[1]: seq_tag(op[1], op[2])})
        elif op[0] == "expand":
            m.alter_num_variants(op[1])
        elif op[0] == "shrink":
            m.alter_num_variants(1)
        else:
            raise ValueError(op[0])
        log.append((op[0], "ok"))
    except Exception as exc:
        log.append((op[0], type(exc).__name__))


def seq_duplicate(m, how):
    if how == "copy":
        return m.copy()
    if how == "pickle":
        return pickle.loads(pickle.dumps(m))
    if how == "dill":
        import dill
        return dill.loads(dill.dumps(m))
    if how == "deepcopy":
        return _copy.deepcopy(m)
    raise ValueError(how)


def _seq_db(ir, nper):
    start = ir.qq(2020, 1)
    db = ir.Databox()
    for i, n in enumerate(("x", "y", "z", "w")):
        db[n] = ir.Series(start=start - 2, values=tuple(1.5 + 0.25 * i + 0.125 * j for j in range(nper + 2)))
    for n in ("res_x", "res_z"):
        db[n] = ir.Series(start=start - 2, values=tuple(0.0625 + 0.03125 * j for j in range(nper + 2)))
    return db, start >> (start + nper - 1)


def seq_observe(ir, m, reg, lifted=True):
    from irispie.sequentials import _simulate as ss
    from irispie.explanatories import main as em
    from irispie.plans import transforms as pt
    nper = 2
    db, span = _seq_db(ir, nper)
    ob = {"num_variants": [str(m.num_variants)]}
    pars = []
    for v in m._variants:
        for p in SEQ_PARAMS:
            x = v.parameters.get(p)
            pars.append("None" if x is None else (S.sym(reg[float(x)], float(x)) if float(x) in reg else float(x)))
    ob["parameters"] = pars
    caps = []
    real = ss._SIMULATION_METHOD_DISPATCH["sequential"]

    def lifted_fn(model_v, ds, plan_, vid, **kw):
        var = ds._variants[0]
        data = var.data
        names = tuple(ds.names)
        obj, syms = lift_matrix(data, names, where=lambda nm, j: nm not in SEQ_PARAMS)
        for i, nm in enumerate(names):
            if nm in SEQ_PARAMS:
                for j in range(obj.shape[1]):
                    x = float(data[i, j])
                    if x in reg:
                        obj[i, j] = S.sym(reg[x], x)
        var.data = obj
        try:
            out = real(model_v, ds, plan_, vid, **kw)
            o = np.array(var.data, dtype=object)
            caps.append([o[names.index(n), j] for n in ("x", "z", "w") for j in tuple(ds.base_columns)])
        finally:
            var.data = data
        return out
    proxy = npproxy.Proxy(object_alloc=False)
    ss._SIMULATION_METHOD_DISPATCH["sequential"] = lifted_fn
    try:
        with npproxy.installed(proxy, ss, em, pt), S.Path() as path, quiet():
            m.simulate(db, span, when_simulates_nan="silent")
        cells = [c for cap in caps for c in cap] + [str(len(caps))]
    except S.SymbolicBranchError:
        raise
    except Exception as exc:
        cells = [f"raises:{type(exc).__name__}"]
    finally:
        ss._SIMULATION_METHOD_DISPATCH["sequential"] = real
    ob["simulate"] = cells
    ob["equations"] = [json.dumps([e.equation.human for e in m._invariant.explanatories])]
    return ob


def seq_run_history(ir, tpl, hist):
    logs = {k: [] for k in ("M", "C", "FM", "FC")}
    M = seq_fresh(ir, tpl)
    try:
        C = seq_duplicate(M, hist["how"])
    except Exception as exc:
        raise DuplicateFailed(f"duplicating the Sequential model by {hist['how']} raises {type(exc).__name__}: {str(exc)[:160]}")
    FM, FC = seq_fresh(ir, tpl), seq_fresh(ir, tpl)
    for target, op in hist["ops"]:
        op = tuple(op)
        if target == "M":
            seq_apply(M, op, logs["M"]); seq_apply(FM, op, logs["FM"])
        else:
            seq_apply(C, op, logs["C"]); seq_apply(FC, op, logs["FC"])
    return dict(M=M, C=C, FM=FM, FC=FC), logs


def seq_histories(tier):
    alpha = [("assign", "a"), ("assign", "b"), ("expand", 2), ("assign_view", "a"), ("shrink",)]
    single = [(t, op) for t in ("M", "C") for op in alpha]
    out = []
    for how in ("copy", "pickle", "dill", "deepcopy"):
        maxlen = 3 if (tier == "thorough" and how in ("copy", "pickle")) else 2
        out.append(dict(how=how, ops=[]))
        for L in range(1, maxlen + 1):
            for seq in itertools.product(single, repeat=L):
                if L == 3 and len({t for t, _ in seq}) < 2:
                    continue
                ops = []
                for pos, (target, op) in enumerate(seq):
                    if op[0] in ("assign", "assign_view"):
                        op = op + (1 + 3 * pos + (0 if target == "M" else 12),)
                    ops.append((target, op))
                out.append(dict(how=how, ops=ops))
    return out


def check_seq_history(args):
    tpl, hist = args
    run = Run(PID, "worker")
    ops = "+".join(f"{t}.{'_'.join(str(x) for x in op)}" for t, op in hist["ops"]) or "none"
    res = dict(key=f"sequential:{'-'.join(tpl)}:{hist['how']}:{ops}", status="error", what="", nontrivial=False, hist=hist, spec="-".join(tpl), tpl=list(tpl))
    try:
        ir = load_irispie()
        reg = seq_registry()
        models, logs = seq_run_history(ir, tuple(tpl), hist)
        status, what, nontrivial = "ok", "", False
        for side, ref in (("M", "FM"), ("C", "FC")):
            if logs[side] != logs[ref]:
                status, what = "sat", f"{side}: operation outcomes {logs[side]} differ from the oracle's {logs[ref]}"
                break
        if status == "ok":
            obs = {k: seq_observe(ir, models[k], reg) for k in ("M", "C", "FM", "FC")}
            for side, ref in (("M", "FM"), ("C", "FC")):
                status, what, nt = compare(run, obs[side], obs[ref], side)
                nontrivial = nontrivial or nt
                if status != "ok":
                    break
        res.update(status=status, what=what, nontrivial=nontrivial)
    except DuplicateFailed as exc:
        res.update(status="sat", what=str(exc))
    except S.SymbolicBranchError as exc:
        res.update(status="unknown", what=f"symbolic branch: {exc}")
    except Exception as exc:
        import traceback
        res.update(status="error", what="".join(traceback.format_exception(type(exc), exc, exc.__traceback__))[-1200:])
    res["q"] = dict(run.q)
    res["solver_s"] = run.solver_s
    return res


def check_seq_variants(args):
    tpl, nvar, k = args
    run = Run(PID, "worker")
    res = dict(key=f"sequential:variants:{'-'.join(tpl)}:n={nvar}:k={k}", status="error", what="", nontrivial=False, spec="-".join(tpl), tpl=list(tpl), variant=dict(n=nvar, k=k))
    try:
        ir = load_irispie()
        reg = seq_registry()
        M = seq_fresh(ir, tuple(tpl))
        M.alter_num_variants(nvar)
        for j in range(nvar):
            M[j].assign(a=seq_tag("a", 1 + j), b=seq_tag("b", 5 + j))
        F = seq_fresh(ir, tuple(tpl))
        F.assign(a=seq_tag("a", 1 + k), b=seq_tag("b", 5 + k))
        status, what, nt = compare(run, seq_observe(ir, M[k], reg), seq_observe(ir, F, reg), f"model[{k}]")
        if status == "ok":
            whole = seq_observe(ir, M, reg)["simulate"]
            one = seq_observe(ir, F, reg)["simulate"]
            per = (len(whole) - 1) // nvar
            status, what, nt2 = compare(run, {"simulate:variant_slice": whole[k * per:(k + 1) * per]}, {"simulate:variant_slice": one[:-1]}, f"variant {k} of {nvar}")
            nt = nt or nt2
        res.update(status=status, what=what, nontrivial=nt)
    except S.SymbolicBranchError as exc:
        res.update(status="unknown", what=f"symbolic branch: {exc}")
    except Exception as exc:
        import traceback
        res.update(status="error", what="".join(traceback.format_exception(type(exc), exc, exc.__traceback__))[-1200:])
    res["q"] = dict(run.q)
    res["solver_s"] = run.solver_s
    return res


# ------------------------------------------------------------------------------------------------ RedVAR
RV_STRUCTS = ((("a", "b"), (), 1, True), (("a",), ("x",), 2, True))


def _rv_db(ir, endo, exo, k, ncol=10):
    """data set number k (different numbers for different k)"""
    start = ir.qq(2000, 1)
    db = ir.Databox()
    for i, n in enumerate(list(endo) + list(exo)):
        db[n] = ir.Series(start=start, values=tuple(0.3 + 0.17 * ((3 * i + 5 * j + 2 * k) % 7) - 0.05 * j + 0.01 * k * ((i + j) % 3) for j in range(ncol)))
    return db, start >> (start + ncol - 1), start


def rv_fresh(ir, struct):
    endo, exo, order, intercept = struct
    return ir.RedVAR(list(endo), exogenous_names=list(exo) or None, order=order, intercept=intercept)


def rv_apply(ir, m, struct, op, log):
    try:
        if op[0] == "estimate":
            db, span, _ = _rv_db(ir, struct[0], struct[1], op[1])
            m.estimate(db, span, omit_missing=True)
        else:
            raise ValueError(op[0])
        log.append((op[0], "ok"))
    except Exception as exc:
        log.append((op[0], type(exc).__name__))


def rv_observe(ir, m, struct):
    from checks.C18 import lifted_simulate
    endo, exo, order, intercept = struct
    ob = {"num_variants": [str(m.num_variants)]}
    v = m._variants[0]
    mats = []
    for nm in ("A", "B", "c", "cov_residuals"):
        x = getattr(v.system, nm, None)
        mats.append("None" if x is None else json.dumps(list(np.asarray(x, dtype=float).shape)))
        if x is not None:
            mats.extend(float(t) for t in np.asarray(x, dtype=float).ravel())
    ob["system"] = mats
    ob["fitted_periods"] = [json.dumps([str(p) for p in v.fitted_periods])]
    if v.system.A is None:
        ob["simulate"] = ["not estimated"]
        return ob
    ncol = 10
    start = ir.qq(2000, 1)
    dbs = ir.Databox()
    for i, n in enumerate(list(endo) + list(exo)):
        dbs[n] = ir.Series(start=start, values=tuple(0.4 + 0.1 * ((i + j) % 4) for j in range(ncol)))
    for i, n in enumerate(endo):
        dbs["res_" + n] = ir.Series(start=start + order, values=tuple(0.05 * ((2 * i + j) % 3) - 0.04 for j in range(order, order + 3)))
    sim_span = (start + order) >> (start + order + 2)
    try:
        cap, path = lifted_simulate(ir, m, endo, exo, order, dbs, sim_span, start)
        names, periods, out = cap["names"], cap["periods"], cap["out"]
        row = {n: i for i, n in enumerate(names)}
        col = {periods[j] - start: j for j in range(len(periods))}
        ob["simulate"] = [out[row[n], col[k]] for n in endo for k in range(order, order + 3)]
    except S.SymbolicBranchError:
        raise
    except Exception as exc:
        ob["simulate"] = [f"raises:{type(exc).__name__}"]
    return ob


def rv_histories(tier):
    alpha = [("estimate", 1), ("estimate", 2)]
    out = []
    for how in ("copy", "pickle", "dill", "deepcopy"):
        for prefix in ((), (("estimate", 0),)):
            single = [(t, op) for t in ("M", "C") for op in alpha]
            out.append(dict(how=how, prefix=list(prefix), ops=[]))
            for L in (1, 2):
                for seq in itertools.product(single, repeat=L):
                    out.append(dict(how=how, prefix=list(prefix), ops=list(seq)))
    return out


def check_rv_history(args):
    struct, hist = args
    run = Run(PID, "worker")
    sname = f"{'+'.join(struct[0])}|{'+'.join(struct[1])}|p{struct[2]}"
    ops = "+".join(f"{t}.{'_'.join(str(x) for x in op)}" for t, op in hist["ops"]) or "none"
    res = dict(key=f"redvar:{sname}:{hist['how']}:prefix={len(hist['prefix'])}:{ops}", status="error", what="", nontrivial=False, hist=hist, spec=sname,
               struct=[list(struct[0]), list(struct[1]), struct[2], struct[3]])
    try:
        ir = load_irispie()
        logs = {k: [] for k in ("M", "C", "FM", "FC")}
        M, FM, FC = rv_fresh(ir, struct), rv_fresh(ir, struct), rv_fresh(ir, struct)
        for op in hist["prefix"]:
            for k, mm in (("M", M), ("FM", FM), ("FC", FC)):
                rv_apply(ir, mm, struct, tuple(op), logs[k])
        try:
            C = seq_duplicate(M, hist["how"])
        except Exception as exc:
            raise DuplicateFailed(f"duplicating the RedVAR by {hist['how']} raises {type(exc).__name__}: {str(exc)[:160]}")
        logs["C"] = list(logs["M"])
        for target, op in hist["ops"]:
            op = tuple(op)
            if target == "M":
                rv_apply(ir, M, struct, op, logs["M"]); rv_apply(ir, FM, struct, op, logs["FM"])
            else:
                rv_apply(ir, C, struct, op, logs["C"]); rv_apply(ir, FC, struct, op, logs["FC"])
        status, what, nontrivial = "ok", "", False
        models = dict(M=M, C=C, FM=FM, FC=FC)
        for side, ref in (("M", "FM"), ("C", "FC")):
            if logs[side] != logs[ref]:
                status, what = "sat", f"{side}: operation outcomes {logs[side]} differ from the oracle's {logs[ref]}"
                break
        if status == "ok":
            obs = {k: rv_observe(ir, models[k], struct) for k in models}
            for side, ref in (("M", "FM"), ("C", "FC")):
                status, what, nt = compare(run, obs[side], obs[ref], side)
                nontrivial = nontrivial or nt
                if status != "ok":
                    break
        res.update(status=status, what=what, nontrivial=nontrivial)
    except DuplicateFailed as exc:
        res.update(status="sat", what=str(exc))
    except S.SymbolicBranchError as exc:
        res.update(status="unknown", what=f"symbolic branch: {exc}")
    except Exception as exc:
        import traceback
        res.update(status="error", what="".join(traceback.format_exception(type(exc), exc, exc.__traceback__))[-1200:])
    res["q"] = dict(run.q)
    res["solver_s"] = run.solver_s
    return res


def _rv_replay(ir, case):
    struct = (tuple(case["struct"][0]), tuple(case["struct"][1]), case["struct"][2], case["struct"][3])
    hist = case["hist"]
    logs = {k: [] for k in ("M", "C", "FM", "FC")}
    M, FM, FC = rv_fresh(ir, struct), rv_fresh(ir, struct), rv_fresh(ir, struct)
    for op in hist["prefix"]:
        for k, mm in (("M", M), ("FM", FM), ("FC", FC)):
            rv_apply(ir, mm, struct, tuple(op), logs[k])
    try:
        C = seq_duplicate(M, hist["how"])
    except Exception as exc:
        return True, f"duplicating the RedVAR by {hist['how']} raises {type(exc).__name__}: {exc}"
    logs["C"] = list(logs["M"])
    for target, op in hist["ops"]:
        op = tuple(op)
        if target == "M":
            rv_apply(ir, M, struct, op, logs["M"]); rv_apply(ir, FM, struct, op, logs["FM"])
        else:
            rv_apply(ir, C, struct, op, logs["C"]); rv_apply(ir, FC, struct, op, logs["FC"])

    def conc(m):
        v = m._variants[0]
        out = {"fitted": json.dumps([str(p) for p in v.fitted_periods])}
        for nm in ("A", "B", "c", "cov_residuals"):
            x = getattr(v.system, nm, None)
            out[nm] = "None" if x is None else np.asarray(x, dtype=float)
        if v.system.A is not None:
            endo, exo, order, _ = struct
            start = ir.qq(2000, 1)
            dbs = ir.Databox()
            for i, n in enumerate(list(endo) + list(exo)):
                dbs[n] = ir.Series(start=start, values=tuple(0.4 + 0.1 * ((i + j) % 4) for j in range(10)))
            for i, n in enumerate(endo):
                dbs["res_" + n] = ir.Series(start=start + order, values=tuple(0.05 * ((2 * i + j) % 3) - 0.04 for j in range(order, order + 3)))
            sp = (start + order) >> (start + order + 2)
            try:
                o = m.simulate(dbs, sp)
                o = o[0] if isinstance(o, tuple) else o
                out["simulate"] = {n: np.asarray(o[n].get_data(sp), dtype=float) for n in endo}
            except Exception as exc:
                out["simulate"] = f"raises:{type(exc).__name__}"
        return out
    for side, ref, a, b in (("M", "FM", M, FM), ("C", "FC", C, FC)):
        if logs[side] != logs[ref]:
            return True, f"{side}: operation outcomes {logs[side]} vs freshly built model {logs[ref]}"
        d = _differs(conc(a), conc(b), side)
        if d:
            return True, f"after the history, {('the original' if side == 'M' else 'the duplicate')} RedVAR differs from a freshly built one put through the same operations: {d}"
    return False, "floats agree"


# ------------------------------------------------------------------------------------------------ main
def _pool_map(fn, jobs):
    import multiprocessing as mp
    n = min(len(jobs), max(1, min(16, (os.cpu_count() or 2))))
    if n <= 1:
        return [fn(j) for j in jobs]
    ctx = mp.get_context("fork")
    with ctx.Pool(n) as pool:
        return pool.map(fn, jobs, chunksize=max(1, len(jobs) // (n * 8)))


def _absorb(run, results, finding_of, case_of):
    for r in results:
        for k, v in (r.get("q") or {}).items():
            run.q[k] = run.q.get(k, 0) + v
        run.solver_s += r.get("solver_s", 0.0)
        key = r["key"] or "worker"
        if r["status"] == "ok":
            run.ok(key, nontrivial=r["nontrivial"])
        elif r["status"] == "sat":
            run.counterexample(key, finding_of(r), r["what"], case_of(r))
        elif r["status"] == "unknown":
            run.unknown(key, r["what"])
        else:
            run.obligations[key] = "error"
            run.errors.append({"obligation": key, "error": r["what"]})
            print(f"HARNESS-ERROR property={PID} obligation={key}: {r['what'][-300:]}", flush=True)


def main(run):
    ir = load_irispie()
    run.extra["proxy_selftest_checks"] = npproxy.selftest()
    run.functions_encoded += ["Simultaneous.copy / __getstate__ / __setstate__ / to_portable / from_portable / alter_num_variants / get_variant / assign / steady / solve "
                              "(executed concretely as the history)", "simultaneous._invariants.Invariant.{copy,__getstate__,__setstate__,_populate_derived_attributes,to_portable,from_portable}",
                              "simultaneous._variants.Variant.copy", "equators.plain.PlainEquator.{__getstate__,__setstate__,_create_function,eval} (lifted)",
                              "fords.simulators.simulate_frame (lifted)", "RedVAR.copy / Variant.copy / System.copy, RedVAR.estimate (executed), RedVAR.simulate (lifted as in C18)", "steadiers.evaluators / simultaneous._steady (lifted, solver stubbed)", "fords.kalmans (lifted)"]
    run.bounds["structures"] = ("models pc_const, ar2m (linear, measurement), drift (unit root, parameter-dependent steady change), stat_nl, rbc_flat (non-linear, log-variables); duplicates by copy, pickle, to_pickle_bytes, dill, "
                                "copy.deepcopy, portable via JSON; duplicate taken before or after steady+solve; histories of <=1 operation for every duplicate kind, <=2 for "
                                "copy (quick) and copy/pickle/portable (thorough), 3 for copy on two models (thorough), each operation addressed to either side, from "
                                "{assign one, assign all, assign per variant, assign level, steady, solve, alter_num_variants(2), alter_num_variants(1), change_logly / override_tolerance}; variants n<=3")
    run.bounds["values"] = "initial conditions, shocks, anticipated shocks, observations and equator cells are real symbols; parameters are value-tagged symbols (24 distinct values per parameter)"
    run.stubs += ["steady-state solver -> contract stub of C05 (fresh symbols, real eval_func executed)", "Kalman inverse/det shims of symx/kf.py"]
    run.assumptions += ["cells are mathematical reals", "the oracle pair is parsed afresh from the same source and put through the same operations with the real code: "
                        "equivalence is relative to the behaviour of a freshly built model", "QZ solution and steady-state numbers are concrete (computed by the real code on each side)"]
    run.outside += ["file-based save/load", "object identity as such", "RedVAR with several variants", "stacked-time simulation of the duplicates", "histories longer than the bound"]
    quick = run.tier == "quick"
    jobs = []
    for spec in specs():
        if quick and spec.name == "ar2m":
            continue
        deep_all = not quick
        for h in histories(spec, run.tier):
            deep = deep_all or len(h["ops"]) == 0
            jobs.append((spec.name, h, deep))
    results = _pool_map(check_history, jobs)
    _absorb(run, results, lambda r: f"history:{r['spec']}:{r['hist']['how']}", lambda r: dict(kind="history", spec=r["spec"], hist=r["hist"]))
    vjobs = []
    for spec in specs():
        for nvar in ((2,) if quick else (2, 3)):
            for k in range(nvar):
                vjobs.append((spec.name, nvar, k))
    if quick:
        vjobs.append((specs()[0].name, 3, 1))        # three variants created by ONE alter_num_variants call: the middle one
    vres = _pool_map(check_variants, vjobs)
    _absorb(run, vres, lambda r: f"variants:{r['spec']}", lambda r: dict(kind="variants", spec=r["spec"], **r["variant"]))
    sjobs = [(tpl, h) for tpl in (SEQ_TEMPLATES[:1] if quick else SEQ_TEMPLATES) for h in seq_histories(run.tier)]
    sres = _pool_map(check_seq_history, sjobs)
    _absorb(run, sres, lambda r: f"sequential:history:{r['hist']['how']}", lambda r: dict(kind="seq_history", tpl=r["tpl"], hist=r["hist"], spec=r["spec"]))
    svjobs = [(tpl, nvar, k) for tpl in SEQ_TEMPLATES for nvar in ((2,) if quick else (2, 3)) for k in range(nvar)]
    if quick:
        svjobs.append((SEQ_TEMPLATES[0], 3, 1))
    svres = _pool_map(check_seq_variants, svjobs)
    _absorb(run, svres, lambda r: "sequential:variants", lambda r: dict(kind="seq_variants", tpl=r["tpl"], spec=r["spec"], **r["variant"]))
    rjobs = [(st, h) for st in (RV_STRUCTS[:1] if quick else RV_STRUCTS) for h in rv_histories(run.tier)]
    rres = _pool_map(check_rv_history, rjobs)
    _absorb(run, rres, lambda r: f"redvar:history:{r['hist']['how']}", lambda r: dict(kind="rv_history", struct=r["struct"], hist=r["hist"], spec=r["spec"]))
    run.extra["redvar_histories"] = len(rjobs)
    results = results + sres + rres
    vres = vres + svres
    run.extra["sequential_histories"] = len(sjobs)
    run.reach_ok = sum(1 for r in results + vres if r.get("nontrivial"))
    run.extra["histories"] = len(jobs)
    run.extra["exhaustive"] = True


# ------------------------------------------------------------------------------------------------ replay
def _concrete_obs(ir, spec, m):
    """float observables through the public API only"""
    out = {}
    out["parameters"] = json.dumps({k: (list(v) if isinstance(v, (list, tuple)) else v) for k, v in m.get_parameters().items()}, default=str)
    try:
        lv = m.get_steady_levels()
        out["steady"] = {k: np.atleast_1d(np.array(v, dtype=float)) for k, v in lv.items()}
        out["steady_changes"] = {k: np.atleast_1d(np.array(v, dtype=float)) for k, v in m.get_steady_changes().items()}
    except Exception as exc:
        out["steady"] = f"raises:{type(exc).__name__}"
    start = ir.qq(2020, 1)
    span = start >> (start + 2)
    db = _sim_db(ir, spec, start, 3)
    try:
        with quiet():
            s = m.simulate(db, span, method="first_order", deviation=False)
        s = s[0] if isinstance(s, tuple) else s
        out["simulate"] = {n: np.asarray(s[n].get_data(span), dtype=float) for n in spec.tvars}
    except Exception as exc:
        out["simulate"] = f"raises:{type(exc).__name__}"
    inv = m._invariant
    nq = len(inv.quantities)
    data = np.array([[1.5 + 0.5 * i + 0.125 * j for j in range(NCOL)] for i in range(nq)])
    out["equators"] = {"d": np.asarray(inv._plain_dynamic_equator.eval(data, T0), dtype=float), "s": np.asarray(inv._plain_steady_equator.eval(data, T0), dtype=float)}
    out["structure"] = json.dumps([(q.id, q.human, str(q.kind), q.logly) for q in inv.quantities]) + str(int(m.get_flags())) + json.dumps(m.get_tolerance(), sort_keys=True)
    return out


def _differs(a, b, path=""):
    if isinstance(a, dict) and isinstance(b, dict):
        if set(a) != set(b):
            return f"{path}: keys {sorted(a)} vs {sorted(b)}"
        for k in a:
            d = _differs(a[k], b[k], f"{path}/{k}")
            if d:
                return d
        return None
    if isinstance(a, np.ndarray) and isinstance(b, np.ndarray):
        if a.shape != b.shape:
            return f"{path}: shape {a.shape} vs {b.shape}"
        if not np.allclose(a, b, rtol=1e-9, atol=1e-9, equal_nan=True):
            return f"{path}: {a.ravel()[:6]} vs {b.ravel()[:6]}"
        return None
    if type(a) != type(b) or a != b:
        return f"{path}: {str(a)[:120]} vs {str(b)[:120]}"
    return None


def _seq_concrete(ir, m):
    db, span = _seq_db(ir, 2)
    out = {"parameters": json.dumps({k: (list(np.ravel(v)) if not isinstance(v, (int, float)) else v) for k, v in m.get_parameters().items()}, default=str)}
    try:
        with quiet():
            s = m.simulate(db, span, when_simulates_nan="silent")
        s = s[0] if isinstance(s, tuple) else s
        out["simulate"] = {n: np.asarray(s[n].get_data(span), dtype=float) for n in ("x", "z", "w")}
    except Exception as exc:
        out["simulate"] = f"raises:{type(exc).__name__}"
    return out


def _seq_replay(ir, case):
    tpl = tuple(case["tpl"])
    if case["kind"] == "seq_history":
        hist = case["hist"]
        hist["ops"] = [(t, tuple(op)) for t, op in hist["ops"]]
        try:
            models, logs = seq_run_history(ir, tpl, hist)
        except DuplicateFailed as exc:
            return True, str(exc)
        for side, ref in (("M", "FM"), ("C", "FC")):
            if logs[side] != logs[ref]:
                return True, f"{side}: operation outcomes {logs[side]} vs freshly built model {logs[ref]}"
            d = _differs(_seq_concrete(ir, models[side]), _seq_concrete(ir, models[ref]), side)
            if d:
                return True, f"after the history, {('the original' if side == 'M' else 'the duplicate')} differs from a freshly built model put through the same operations: {d}"
        return False, "floats agree"
    nvar, k = case["n"], case["k"]
    M = seq_fresh(ir, tpl)
    M.alter_num_variants(nvar)
    for j in range(nvar):
        M[j].assign(a=seq_tag("a", 1 + j), b=seq_tag("b", 5 + j))
    F = seq_fresh(ir, tpl)
    F.assign(a=seq_tag("a", 1 + k), b=seq_tag("b", 5 + k))
    d = _differs(_seq_concrete(ir, M[k]), _seq_concrete(ir, F), f"model[{k}]")
    if d:
        return True, d
    a, b = _seq_concrete(ir, M), _seq_concrete(ir, F)
    for n in ("x", "z", "w"):
        x = a["simulate"][n]
        x = x[:, k] if x.ndim == 2 else x
        if not np.allclose(x.ravel(), b["simulate"][n].ravel(), rtol=1e-9, atol=1e-9, equal_nan=True):
            return True, f"variant {k} column of the {nvar}-variant simulation differs: {n} {x.ravel()} vs {b['simulate'][n].ravel()}"
    return False, "floats agree"


def replay(case):
    ir = load_irispie()
    if case["kind"] in ("seq_history", "seq_variants"):
        return _seq_replay(ir, case)
    if case["kind"] == "rv_history":
        return _rv_replay(ir, case)
    spec = spec_by_name(case["spec"])
    if case["kind"] == "history":
        hist = case["hist"]
        hist["ops"] = [(t, tuple(op)) for t, op in hist["ops"]]
        try:
            models, logs = run_history(ir, spec, hist)
        except DuplicateFailed as exc:
            return True, str(exc)
        for side, ref in (("M", "FM"), ("C", "FC")):
            if logs[side] != logs[ref]:
                return True, f"{side}: operation outcomes {logs[side]} vs freshly built model {logs[ref]}"
            d = _differs(_concrete_obs(ir, spec, models[side]), _concrete_obs(ir, spec, models[ref]), side)
            if d:
                return True, f"after the history, {('the original' if side == 'M' else 'the duplicate')} differs from a freshly built model put through the same operations: {d}"
        # steady state as the last, state-changing observation
        for side, ref in (("M", "FM"), ("C", "FC")):
            la, lb = [], []
            apply_op(models[side], spec, ("steady",), la)
            apply_op(models[ref], spec, ("steady",), lb)
            d = None if la != lb else _differs(_concrete_obs(ir, spec, models[side]), _concrete_obs(ir, spec, models[ref]), side + "+steady")
            if la != lb or d:
                return True, f"steady() afterwards: {la} vs {lb} {d}"
        return False, "floats agree"
    if case["kind"] == "variants":
        nvar, k = case["n"], case["k"]
        M = fresh(ir, spec)
        M.alter_num_variants(nvar)
        M.assign(**{p: [tagval(spec, p, 1 + j + 4 * pi) for j in range(nvar)] for pi, p in enumerate(spec.params)})
        F = fresh(ir, spec)
        F.assign(**{p: tagval(spec, p, 1 + k + 4 * pi) for pi, p in enumerate(spec.params)})
        with quiet():
            M.steady(); M.solve(); F.steady(); F.solve()
        d = _differs(_concrete_obs(ir, spec, M[k]), _concrete_obs(ir, spec, F), f"model[{k}]")
        if d:
            return True, d
        a, b = _concrete_obs(ir, spec, M), _concrete_obs(ir, spec, F)
        for n in spec.tvars:
            x = a["simulate"][n]
            x = x[:, k] if x.ndim == 2 else x
            if not np.allclose(x.ravel(), b["simulate"][n].ravel(), rtol=1e-9, atol=1e-9):
                return True, f"variant {k} column of the {nvar}-variant simulation differs: {n} {x.ravel()} vs {b['simulate'][n].ravel()}"
        M2, F2 = fresh(ir, spec), fresh(ir, spec)
        M2.alter_num_variants(nvar)
        M2.rescale_stds(3); F2.rescale_stds(3)
        sa = [float(M2._variants[k].levels[q.id]) for q in M2._invariant.quantities if q.human.startswith("std_")]
        sb = [float(F2._variants[0].levels[q.id]) for q in F2._invariant.quantities if q.human.startswith("std_")]
        if not np.allclose(sa, sb):
            return True, f"rescale_stds(3) on the {nvar}-variant model leaves variant {k} with stds {sa}, a single-variant model gets {sb}"
        return False, "floats agree"
    return False, "unknown case"


if __name__ == "__main__":
    standard_main(PID, main, replay)
