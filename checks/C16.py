"""
C16 -- Block decomposition of an incidence matrix is a valid sequential ordering.

Concolic execution with SYMBOLIC BOOLEAN incidence entries (SBool in numpy object arrays) through the real
incidences.blazer.{blaze, prefetch, _prefetch_first, _prefetch_last, _split_ids, triangularize_inner_block,
_get_column_reordering, _get_row_reordering, _generate_inner_blocks, sequentialize_strictly, is_sequential}: numpy's
sum/where/delete/argsort/flip/any act on the objects, comparisons fork concolically.  Every explored path's condition is
blocked and z3 is asked for an uncovered matrix (with a perfect matching) until unsat: all behaviours for the given n are
covered.  Per path z3 decides, under the path condition: blocks partition equations and quantities, are square, have a
perfect matching, and im[e, q] is false for every e in a block and q in a LATER block.
"""
from __future__ import annotations

import itertools
import os
from fractions import Fraction

import numpy as np
import z3

from symx import sreal as S
from symx.concolic import explore, model_bools
from symx.series_tools import load_irispie
from symx.report import standard_main, Run

PID = "C16"


def _names(n):
    return [f"m_{i}_{j}" for i in range(n) for j in range(n)]


def _V(n):
    return {(i, j): z3.Bool(f"m_{i}_{j}") for i in range(n) for j in range(n)}


def _perfect_matching(V, rows, cols):
    rows, cols = list(rows), list(cols)
    if len(rows) != len(cols):
        return z3.BoolVal(False)
    if not rows:
        return z3.BoolVal(True)
    return z3.Or(*[z3.And(*[V[(r, p[k])] for k, r in enumerate(rows)]) for p in itertools.permutations(cols)])


def _matrix(n, values):
    im = np.empty((n, n), dtype=object)
    for i in range(n):
        for j in range(n):
            nm = f"m_{i}_{j}"
            im[i, j] = S.SBool(z3.Bool(nm), bool(values[nm]))
    return im


def _cubes(n):
    """partition of the input space: n<=2 one cube; n=3 the 8 assignments of the first row; n=4 the 256 assignments of the first two rows (explored in parallel,
    each with its own incremental solver and its own, much shorter, list of blocking clauses)"""
    if n <= 2:
        return [{}]
    bits = [f"m_{i}_{j}" for i in range(1 if n == 3 else 2) for j in range(n)]
    return [dict(zip(bits, vals)) for vals in itertools.product((False, True), repeat=len(bits))]


def _cube_formulas(cube):
    return [z3.Bool(k) if v else z3.Not(z3.Bool(k)) for k, v in cube.items()]


def _blaze_cube(args):
    n, labels, cube, max_paths = args
    from irispie.incidences import blazer
    eids, qids = labels
    q = {}
    out = dict(status="ok", paths=0, what="", case=None, q=q, sample=None, solver_s=0.0)
    V = _V(n)
    pm = _perfect_matching(V, range(n), range(n))
    names = _names(n)
    sub = Run(PID, "worker")

    def runner(values):
        im = _matrix(n, values)
        return blazer.blaze(im, eids=eids, qids=qids)
    try:
        results, exhausted = explore([], runner, domain=[pm] + _cube_formulas(cube), max_paths=max_paths, bool_names=names, stats=sub.q, timeout_ms=60000, init_from_solver=True)
    except S.SymbolicBranchError as exc:
        out.update(status="unknown", what=f"symbolic branch: {exc}")
        return out
    out["paths"] = len(results)
    if not exhausted:
        out.update(status="unknown", what=f"path enumeration not exhausted after {len(results)} paths (bound {max_paths}) in cube {cube}", q=dict(sub.q))
        return out
    e_index = {e: i for i, e in enumerate(eids or range(n))}
    q_index = {q_: i for i, q_ in enumerate(qids or range(n))}
    for path, blocks, values in results:
        eb, qb = {}, {}
        ok_struct = True
        for b_, blk in enumerate(blocks):
            ok_struct = ok_struct and len(blk.eids) == len(blk.qids) and len(blk.eids) > 0
            for e in blk.eids:
                ok_struct = ok_struct and int(e) in e_index and int(e) not in eb
                eb[int(e)] = b_
            for q_ in blk.qids:
                ok_struct = ok_struct and int(q_) in q_index and int(q_) not in qb
                qb[int(q_)] = b_
        ok_struct = ok_struct and len(eb) == n and len(qb) == n
        case = dict(kind="blaze", n=n, eids=list(eids) if eids else None, qids=list(qids) if qids else None,
                    matrix=[[bool(values[f"m_{i}_{j}"]) for j in range(n)] for i in range(n)])
        if not ok_struct:
            out.update(status="sat", finding="blazer:partition", case=case,
                       what=f"blocks {[(b_.eids, b_.qids) for b_ in blocks]} do not partition equations and quantities into square blocks")
            break
        pc = path.condition()
        bad_upper = z3.Or(*([V[(e_index[e], q_index[q_])] for e in eb for q_ in qb if qb[q_] > eb[e]] + [z3.BoolVal(False)]))
        bad_match = z3.Or(*[z3.Not(_perfect_matching(V, [e_index[e] for e in blk.eids], [q_index[q_] for q_ in blk.qids])) for blk in blocks])
        r, mdl = sub.check_sat([pm, pc, z3.Or(bad_upper, bad_match)], timeout_ms=60000)
        if r == "sat":
            mb = model_bools(mdl, names)
            case["matrix"] = [[mb[f"m_{i}_{j}"] for j in range(n)] for i in range(n)]
            out.update(status="sat", finding="blazer:block_triangular", case=case,
                       what="an equation of an earlier block involves a quantity of a later block (or a block has no perfect matching)")
            break
        if r != "unsat":
            out.update(status="unknown", what=f"solver {r}")
            break
    if results and out["status"] == "ok":
        p0, b0, v0 = results[min(1, len(results) - 1)]
        out["sample"] = {"matrix": [[int(v0[f"m_{i}_{j}"]) for j in range(n)] for i in range(n)], "blocks": [(list(b_.eids), list(b_.qids)) for b_ in b0],
                         "branch_conditions": len(p0.conds)}
    out["q"] = dict(sub.q)
    out["solver_s"] = sub.solver_s
    return out


def _pool_map(fn, jobs):
    import multiprocessing as mp
    nproc = min(len(jobs), max(1, min(16, (os.cpu_count() or 2))))
    if nproc <= 1:
        return [fn(j) for j in jobs]
    with mp.get_context("fork").Pool(nproc) as pool:
        return pool.map(fn, jobs, chunksize=1)


def _merge(run, key, outs, finding_default):
    for o in outs:
        for k, v in (o.get("q") or {}).items():
            run.q[k] = run.q.get(k, 0) + v
        run.solver_s += o.get("solver_s", 0.0)
        run.paths += o["paths"]
    for o in outs:
        if o["status"] == "sat":
            run.counterexample(key, o.get("finding", finding_default), o["what"], o["case"])
            return False
    for o in outs:
        if o["status"] != "ok":
            run.unknown(key, o["what"])
            return False
    return True


def check_blaze(run, blazer, n, labels, max_paths):
    eids, qids = labels
    key = f"blaze:n={n}:eids={eids}:qids={qids}"
    cubes = _cubes(n)
    outs = _pool_map(_blaze_cube, [(n, labels, c, max_paths) for c in cubes])
    if not _merge(run, key, outs, "blazer:block_triangular"):
        return
    V = _V(n)
    r0, _ = run.check_sat([_perfect_matching(V, range(n), range(n))])
    if r0 == "sat":
        run.reach_ok += 1
    smp = [o["sample"] for o in outs if o.get("sample")]
    if len(run.samples) < 12 and smp:
        run.samples.append({"obligation": key, "verdict": "all behaviours covered (path conditions block the whole space of matrices with a perfect matching); "
                            "block-triangularity and matchings unsat-violated on every path", "paths": sum(o["paths"] for o in outs), "cubes": len(cubes),
                            "example_path": smp[0]})
    run.ok(key)


def _seq_cube(args):
    n, cube, max_paths = args
    from irispie.incidences import blazer
    out = dict(status="ok", paths=0, what="", case=None, q={}, solver_s=0.0)
    V = _V(n)
    diag = z3.And(*[V[(i, i)] for i in range(n)])
    names = _names(n)
    sub = Run(PID, "worker")

    def strict_order_exists():
        alts = []
        for p in itertools.permutations(range(n)):
            conds = []
            for k, e in enumerate(p):
                for q_ in range(n):
                    if q_ not in p[:k + 1]:
                        conds.append(z3.Not(V[(e, q_)]))
            alts.append(z3.And(*conds) if conds else z3.BoolVal(True))
        return z3.Or(*alts)

    def runner(values):
        im = _matrix(n, values)
        return blazer.sequentialize_strictly(im)
    try:
        results, exhausted = explore([], runner, domain=[diag] + _cube_formulas(cube), max_paths=max_paths, bool_names=names, stats=sub.q, timeout_ms=60000, init_from_solver=True)
    except S.SymbolicBranchError as exc:
        out.update(status="unknown", what=f"symbolic branch: {exc}")
        return out
    out["paths"] = len(results)
    if not exhausted:
        out.update(status="unknown", what=f"path enumeration not exhausted after {len(results)} paths in cube {cube}", q=dict(sub.q))
        return out
    exists = strict_order_exists()
    for path, order, values in results:
        order = tuple(int(e) for e in order)
        pc = path.condition()
        case = dict(kind="sequentialize", n=n, matrix=[[bool(values[f"m_{i}_{j}"]) for j in range(n)] for i in range(n)])
        if sorted(order) == list(range(n)):
            # a permutation is returned: it must be a valid strict order
            bad = z3.Or(*([V[(e, q_)] for k, e in enumerate(order) for q_ in range(n) if q_ not in order[:k + 1]] + [z3.BoolVal(False)]))
            r, mdl = sub.check_sat([diag, pc, bad], timeout_ms=60000)
            what = "the returned order uses a left-hand variable before it is determined"
        else:
            # no permutation (Sequential.sequentialize then raises and leaves the model untouched): no strict order may exist
            r, mdl = sub.check_sat([diag, pc, exists], timeout_ms=60000)
            what = "no order is returned although a strictly sequential order exists"
        if r == "sat":
            mb = model_bools(mdl, names)
            case["matrix"] = [[mb[f"m_{i}_{j}"] for j in range(n)] for i in range(n)]
            out.update(status="sat", what=what, case=case, finding="blazer:sequentialize_strictly")
            break
        if r != "unsat":
            out.update(status="unknown", what=f"solver {r}")
            break
    out["q"] = dict(sub.q)
    out["solver_s"] = sub.solver_s
    return out


def check_sequentialize(run, blazer, n, max_paths):
    """sequentialize_strictly on matrices with a true diagonal (every equation determines its own LHS)"""
    key = f"sequentialize_strictly:n={n}"
    outs = _pool_map(_seq_cube, [(n, c, max_paths) for c in _cubes(n)])
    if not _merge(run, key, outs, "blazer:sequentialize_strictly"):
        return
    run.reach_ok += 1
    run.ok(key)


def check_sequential_model(run, ir):
    """executed: Sequential.sequentialize on a cyclic model raises and leaves the model untouched; on a reorderable model returns a valid order"""
    key = "Sequential.sequentialize (executed)"
    run.extra["executed_obligations"] = run.extra.get("executed_obligations", 0) + 1
    ok, msg = _sequential_exec(ir)
    if ok:
        run.ok(key, nontrivial=False)
    else:
        run.counterexample(key, "sequential:sequentialize", msg, dict(kind="sequential_exec"))


def _sequential_exec(ir):
    src_cyc = "!equations\n  x = y + 1;\n  y = x + z[-1];\n  z = 0.5*z[-1];\n"
    m = ir.Sequential.from_string(src_cyc)
    before = [e.lhs_name for e in m.iter_equations()]
    try:
        m.sequentialize()
        raised = False
    except Exception:
        raised = True
    after = [e.lhs_name for e in m.iter_equations()]
    if not raised:
        return False, f"sequentialize on a cyclic model did not raise; order {after}"
    if before != after:
        return False, f"sequentialize raised but changed the model: {before} -> {after}"
    # the loop may sit anywhere: first, in the middle, last, or be the whole model
    for src in ("!equations\n  c = 0.5*c[-1];\n  d = c;\n  a = b + d;\n  b = a;\n", "!equations\n  a = b;\n  b = a;\n",
                "!equations\n  c = 0.5*c[-1];\n  a = b + c;\n  b = a;\n  d = c + 1;\n"):
        mm = ir.Sequential.from_string(src)
        bef = [e.lhs_name for e in mm.iter_equations()]
        try:
            got = mm.sequentialize()
            rs = False
        except Exception:
            rs = True
        aft = [e.lhs_name for e in mm.iter_equations()]
        if not rs:
            return False, f"sequentialize on a model with the loop a<->b ({bef}) did not raise; returned {got}, equations now {aft}"
        if bef != aft:
            return False, f"sequentialize raised on {bef} but changed the model to {aft}"
    src_ok = "!equations\n  w = x + z;\n  x = y + 1;\n  y = 0.5*y[-1];\n  z = y - x;\n"
    m2 = ir.Sequential.from_string(src_ok)
    order = m2.sequentialize()
    names = [e.lhs_name for e in m2.iter_equations()]
    deps = {"w": {"x", "z"}, "x": {"y"}, "y": set(), "z": {"y", "x"}}
    seen = set()
    for nme in names:
        if not deps[nme] <= seen:
            return False, f"order {names}: {nme} is evaluated before {deps[nme] - seen}"
        seen.add(nme)
    if sorted(names) != ["w", "x", "y", "z"]:
        return False, f"equations lost: {names}"
    return True, "ok"


# ------------------------------------------------------------------------------------------
# from equations to the incidence matrix: every Sequential model of 3 equations over {none, zero shift, lag, zero shift + lag} usages
# ------------------------------------------------------------------------------------------
_USAGE = ("none", "zero", "lag", "both", "lead")       # a lead, like a lag, is not a zero-shift dependency


def _model_from_usage(states, own):
    """states[(i, j)] in _USAGE for i != j (how equation i uses x_j), own[i] = equation i has a lag of its own left-hand variable"""
    n = len(own)
    lines = []
    for i in range(n):
        rhs = ["0.5"]
        if own[i]:
            rhs.append(f"0.25*x{i}[-1]")
        for j in range(n):
            if j == i:
                continue
            st = states[(i, j)]
            if st in ("zero", "both"):
                rhs.append(f"0.5*x{j}")
            if st in ("lag", "both"):
                rhs.append(f"0.125*x{j}[-1]")
            if st == "lead":
                rhs.append(f"0.0625*x{j}[+1]")
        lines.append(f"  x{i} = " + " + ".join(rhs) + ";")
    return "!equations\n" + "\n".join(lines) + "\n"


def _usage_verdict(ir, states, own):
    """(ok, message) for one model: incidence matrix = zero-shift usage; sequentialize returns a valid order, or raises and leaves the model
    untouched exactly when no order exists"""
    n = len(own)
    D = [[(i == j) or states[(i, j)] in ("zero", "both") for j in range(n)] for i in range(n)]
    m = ir.Sequential.from_string(_model_from_usage(states, own))
    im = np.asarray(m.incidence_matrix, dtype=bool)
    if im.shape != (n, n) or any(bool(im[i, j]) != D[i][j] for i in range(n) for j in range(n)):
        return False, f"incidence matrix {im.astype(int).tolist()} differs from the zero-shift usage {[[int(v) for v in r] for r in D]}"
    before = [e.lhs_name for e in m.iter_equations()]
    valid = lambda order: all((j == e) or (not D[e][j]) or (j in order[:k]) for k, e in enumerate(order) for j in range(n))
    exists = any(valid(p) for p in itertools.permutations(range(n)))
    try:
        got = tuple(int(e) for e in m.sequentialize())
        raised = False
    except Exception:
        raised = True
    after = [e.lhs_name for e in m.iter_equations()]
    if raised:
        if exists:
            return False, "sequentialize raises although a sequential order exists"
        if after != before:
            return False, f"sequentialize raised but changed the model: {before} -> {after}"
        return True, "ok"
    if not exists:
        return False, f"sequentialize returns {got} on a model without a sequential order"
    if sorted(got) != list(range(n)) or not valid(got):
        return False, f"sequentialize returns {got}: a left-hand variable is used at zero shift before it is determined"
    if after != [f"x{e}" for e in got]:
        return False, f"equations are now {after}, returned order {got}"
    return True, "ok"


def _usage_chunk(args):
    """worker: all models with the given own-lag pattern and the given usage of the first pair; returns (count, first failure or None)"""
    own, first = args
    ir = load_irispie()
    n = len(own)
    pairs = [(i, j) for i in range(n) for j in range(n) if i != j]
    count = 0
    for combo in itertools.product(_USAGE, repeat=len(pairs) - 1):
        states = dict(zip(pairs, (first,) + combo))
        count += 1
        try:
            ok, msg = _usage_verdict(ir, states, own)
        except Exception as exc:
            ok, msg = False, f"raises {type(exc).__name__}: {str(exc)[:120]}"
        if not ok:
            return count, dict(msg=msg, states=[[i, j, st] for (i, j), st in states.items()], own=list(own), src=_model_from_usage(states, own))
    return count, None


def check_usage_models(run, ir, tier):
    """executed (no solver: the program text is enumerated, there is no value dimension): all 3-equation models"""
    key = "Sequential.incidence_matrix + sequentialize on every 3-equation usage pattern (executed)"
    n = 3
    owns = list(itertools.product((False, True), repeat=n)) if tier == "thorough" else [(False,) * n, (True,) * n, (True, False, False)]
    outs = _pool_map(_usage_chunk, [(own, first) for own in owns for first in _USAGE])
    run.extra["usage_models_executed"] = sum(c for c, _ in outs)
    for c, fail in outs:
        if fail is not None:
            run.counterexample(key, "sequential:incidence", (fail["msg"] + f" [model: {fail['src']!r}]")[:300], dict(kind="usage_model", states=fail["states"], own=fail["own"]))
            return
    run.extra["executed_obligations"] = run.extra.get("executed_obligations", 0) + 1
    run.ok(key, nontrivial=False)


def main(run):
    ir = load_irispie()
    from irispie.incidences import blazer
    run.functions_encoded += ["incidences.blazer.{blaze,prefetch,_prefetch_first,_prefetch_last,_split_ids,triangularize_inner_block,_get_column_reordering,"
                              "_get_row_reordering,_generate_inner_blocks,Block,sequentialize_strictly}", "sequentials.main.Sequential.{sequentialize,is_sequential,incidence_matrix}, "
                              "sequentials._invariants.reorder_equations (executed)"]
    run.bounds["structures"] = ("all boolean n x n incidence matrices with a perfect matching, n<=3 (quick) / n<=4 (thorough), exhaustively by path enumeration; "
                                "identity and two non-trivial id labelings; sequentialize_strictly on all n x n matrices with a true diagonal, n<=3 / n<=4")
    run.bounds["paths"] = "path bound 400 (n<=3) / 70000 (n=4); hitting the bound is reported as inconclusive"
    run.assumptions += ["a perfect matching exists (disjunction over the n! permutations)", "numpy sum/where/delete/argsort/flip act on the symbolic objects; "
                        "every comparison is a recorded concolic branch"]
    run.bounds["usage_models"] = ("executed: every Sequential model of 3 equations in which equation i uses x_j not at all / at zero shift / at a lag / at both / "
                                  "or at a lead, with own lags (3 patterns quick, all 8 thorough): 46875 / 125000 models, in a worker pool; incidence matrix compared with the zero-shift usage, sequentialize outcome checked")
    run.functions_encoded += ["equations.calculate_incidence_matrix, sequentials.main.Sequential.incidence_matrix (executed on the enumerated models)"]
    run.outside += ["n > 4 (the property's sampled larger cases)", "_dulmage_mendelsohn (unused by blaze)"]
    quick = run.tier == "quick"
    sizes = (1, 2, 3) if quick else (1, 2, 3, 4)
    for n in sizes:
        bound = 400 if n <= 3 else 70000
        labelings = [(None, None)]
        if n == 3:
            labelings += [((10, 20, 30), (7, 5, 9)), ((2, 0, 1), (1, 2, 0))]
        for lab in labelings:
            try:
                check_blaze(run, blazer, n, lab, bound)
            except S.SymbolicBranchError as exc:
                run.unknown(f"blaze:n={n}:{lab}", exc)
            except Exception as exc:
                run.error(f"blaze:n={n}:{lab}", exc)
        try:
            check_sequentialize(run, blazer, n, bound)
        except S.SymbolicBranchError as exc:
            run.unknown(f"sequentialize_strictly:n={n}", exc)
        except Exception as exc:
            run.error(f"sequentialize_strictly:n={n}", exc)
    try:
        check_sequential_model(run, ir)
    except Exception as exc:
        run.error("sequential_exec", exc)
    try:
        check_usage_models(run, ir, run.tier)
    except Exception as exc:
        run.error("usage_models", exc)
    run.extra["exhaustive"] = True


def replay(case):
    ir = load_irispie()
    from irispie.incidences import blazer
    if case["kind"] == "usage_model":
        states = {(i, j): st for i, j, st in case["states"]}
        ok, msg = _usage_verdict(ir, states, tuple(case["own"]))
        return (not ok), msg
    if case["kind"] == "sequential_exec":
        ok, msg = _sequential_exec(ir)
        return (not ok), msg
    n = case["n"]
    im = np.array(case["matrix"], dtype=bool)
    if case["kind"] == "blaze":
        eids, qids = case.get("eids"), case.get("qids")
        blocks = blazer.blaze(im, eids=tuple(eids) if eids else None, qids=tuple(qids) if qids else None)
        e_index = {e: i for i, e in enumerate(eids or range(n))}
        q_index = {q: i for i, q in enumerate(qids or range(n))}
        eb, qb = {}, {}
        for b, blk in enumerate(blocks):
            if len(blk.eids) != len(blk.qids):
                return True, f"non-square block {blk.eids} x {blk.qids}"
            for e in blk.eids:
                eb[int(e)] = b
            for q in blk.qids:
                qb[int(q)] = b
        if sorted(eb) != sorted(e_index) or sorted(qb) != sorted(q_index):
            return True, f"blocks do not partition: {[(b.eids, b.qids) for b in blocks]}"
        for e in eb:
            for q in qb:
                if qb[q] > eb[e] and im[e_index[e], q_index[q]]:
                    return True, f"equation {e} (block {eb[e]}) involves quantity {q} of later block {qb[q]}; blocks {[(b.eids, b.qids) for b in blocks]}"
        for blk in blocks:
            rows, cols = [e_index[e] for e in blk.eids], [q_index[q] for q in blk.qids]
            if not any(all(im[r, p[k]] for k, r in enumerate(rows)) for p in itertools.permutations(cols)):
                return True, f"block {blk.eids} x {blk.qids} has no perfect matching"
        return False, "valid block-triangular ordering"
    order = tuple(int(e) for e in blazer.sequentialize_strictly(im))
    exists = any(all(not im[e, q] for k, e in enumerate(p) for q in range(n) if q not in p[:k + 1]) for p in itertools.permutations(range(n)))
    if sorted(order) == list(range(n)):
        bad = [(e, q) for k, e in enumerate(order) for q in range(n) if q not in order[:k + 1] and im[e, q]]
        return bool(bad), f"order {order} uses {bad[:3]} before determined"
    return exists, f"no order returned ({order}) although one exists: {exists}"


if __name__ == "__main__":
    standard_main(PID, main, replay)
