"""
C14 -- Trend filters return the optimum of their problem; trend plus gap is the data (hpf; lonf not claimed).

series._hp (_data_hpf, _ConstrainedHodrickPrescottFilter.__init__/filter_data/_add_eye_for_observations/_extend_data/
_add_level_constraints/_add_change_constraints, _prepare_constraints, _remove_first_date_change) runs through the public
hpf_trend / hpf_gap methods on Series with symbolic data, level and change constraint values; numpy.linalg.solve is stubbed by
its contract (fresh trend and multipliers z with F z = b).  Oracle: the KKT conditions of the Hodrick-Prescott problem
  min  sum_{t observed} (y_t - tau_t)^2 + lambda sum (tau_t - 2 tau_{t-1} + tau_{t-2})^2   s.t.  tau_j = L_j,  tau_j - tau_{j-1} = C_j
built independently: constraints hold and the gradient is orthogonal to every feasible direction (QF_LRA on the unit box).
"""
from __future__ import annotations

import itertools
import math
from fractions import Fraction

import numpy as np
import z3

from symx import sreal as S
from symx import npproxy
from symx.lift import exp_log_axioms
from symx.series_tools import load_irispie, series_modules, tagged, float_series, cellmap, none_is_nan_patch
from symx.concolic import model_values
from symx.report import standard_main

PID = "C14"
B0 = 8080
TOL = Fraction(1, 10 ** 8)


def _qq(k):
    from irispie import dates as D
    return D.QuarterlyPeriod(B0 + k)


class Lift:
    """proxies + numpy.linalg.solve contract stub installed in the series modules"""

    def __init__(self):
        self.contract = []
        self.calls = []

    def __enter__(self):
        outer = self

        def solve(F, b):
            Fa, ba = np.asarray(F), np.asarray(b)
            if Fa.dtype != object and ba.dtype != object:
                return np.linalg.solve(Fa, ba)
            z = np.empty(ba.shape, dtype=object)
            c = len(outer.calls)
            for idx in np.ndindex(*ba.shape):
                z[idx] = S.sym(f"z{c}_" + "_".join(map(str, idx)), 1)
            prod = Fa.astype(object) @ z
            for idx in np.ndindex(*ba.shape):
                outer.contract.append(S.const(prod[idx]).t == S.const(ba[idx]).t)
            outer.calls.append((Fa, ba, z))
            return z
        la = npproxy.SubProxy(np.linalg, {"solve": solve})
        self.proxy = npproxy.Proxy(linalg=la)
        ir = load_irispie()
        self._ctx = npproxy.installed(self.proxy, *series_modules(), extra=[none_is_nan_patch(ir)])
        self._ctx.__enter__()
        return self

    def __exit__(self, *exc):
        self._ctx.__exit__(*exc)
        return False


def _kkt_claims(n, lam, obs, y, tau, level, change):
    """claims [(label, term, 0)] : constraints + gradient orthogonal to feasible directions; y/tau lists over the filter span"""
    K = np.zeros((max(n - 2, 0), n))
    for i in range(n - 2):
        K[i, i], K[i, i + 1], K[i, i + 2] = 1, -2, 1
    G = K.T @ K
    grad = []
    for i in range(n):
        g = S.const(0)
        for j in range(n):
            if G[i, j] != 0:
                g = g + (lam * S.float_fraction(float(G[i, j]))) * tau[j]
        if obs[i]:
            g = g + (tau[i] - y[i])
        grad.append(g)
    rows, claims = [], []
    for j, val in level:
        r = np.zeros(n); r[j] = 1
        rows.append(r)
        claims.append((f"level constraint @{j}", tau[j] - val))
    for j, val in change:
        r = np.zeros(n); r[j], r[j - 1] = 1, -1
        rows.append(r)
        claims.append((f"change constraint @{j}", tau[j] - tau[j - 1] - val))
    if rows:
        R = np.vstack(rows)
        u, sv, vt = np.linalg.svd(R)
        rank = int((sv > 1e-10).sum())
        null = vt[rank:]
    else:
        null = np.eye(n)
    for k, d in enumerate(null):
        t = S.const(0)
        for i in range(n):
            if abs(d[i]) > 1e-14:
                t = t + S.float_fraction(float(d[i])) * grad[i]
        claims.append((f"optimality direction {k}", t))
    return claims


def _structures(tier):
    out = []
    for n in ((4, 5) if tier == "quick" else (3, 4, 5, 6, 7)):
        masks = [()] + [(i,) for i in range(1, n - 1)] + ([(1, n - 2)] if n >= 5 else [])
        if tier == "quick":
            masks = masks[:3]
        for miss in masks:
            for level in ([], [n - 2], [0, n - 1]):
                for change in ([], [2]):
                    if tier == "quick" and level == [0, n - 1] and change:
                        continue
                    if len(level) + len(change) > n - 1:
                        continue
                    out.append((n, miss, tuple(level), tuple(change)))
    return out


def _run_hpf(ir, n, miss, level_pos, change_pos, lam, log=False, span=None, values=None, lifted=True, nvar=1):
    """returns dict(trend cells, gap cells, y symbols, level/change symbols, contract)"""
    if lifted:
        x, ys = tagged(ir, _qq(0), n, nvar, miss, "y", values=values)
    else:
        x, ys = float_series(ir, _qq(0), n, nvar, miss, "y", values), {}
    level = change = None
    ls, cs = {}, {}
    if level_pos:
        lmiss = tuple(i for i in range(n) if i not in level_pos)
        level, ls = (tagged(ir, _qq(0), n, 1, lmiss, "L", values=values) if lifted else (float_series(ir, _qq(0), n, 1, lmiss, "L", values), {}))
    if change_pos:
        cmiss = tuple(i for i in range(n) if i not in change_pos)
        change, cs = (tagged(ir, _qq(0), n, 1, cmiss, "C", values=values) if lifted else (float_series(ir, _qq(0), n, 1, cmiss, "C", values), {}))
    kw = dict(smooth=lam, level=level, change=change, log=log)
    if span is not None:
        kw["span"] = _qq(span[0]) >> _qq(span[1])
    t = x.copy(); t.hpf_trend(**kw)
    g = x.copy(); g.hpf_gap(**kw)
    return dict(trend=cellmap(t), gap=cellmap(g), ys=ys, ls=ls, cs=cs, x=cellmap(x))


def check_structure(run, ir, n, miss, level_pos, change_pos, lam, nvar=1):
    """miss: positions missing in every variant, or (position, variant) pairs"""
    key = f"kkt:n={n}:miss={list(miss)}:level@{list(level_pos)}:change@{list(change_pos)}:lambda={lam}" + (f":variants={nvar}" if nvar > 1 else "")
    case = dict(kind="kkt", n=n, miss=[list(m) if isinstance(m, tuple) else m for m in miss], level=list(level_pos), change=list(change_pos), lam=float(lam), nvar=nvar)
    finding = "hpf:kkt" if nvar == 1 else "hpf:kkt:variants"
    with Lift() as L, S.Path() as path:
        r = _run_hpf(ir, n, miss, level_pos, change_pos, lam, nvar=nvar)
    syms = {**r["ys"], **r["ls"], **r["cs"]}
    names = sorted(syms)
    claims = []
    for v in range(nvar):
        tau = [r["trend"].get((B0 + i, v)) for i in range(n)]
        if any(t is None for t in tau):
            run.counterexample(key, finding, f"trend has missing cells inside the filter span (variant {v})", dict(case, values={}))
            return
        obs = [(i not in miss and (i, v) not in miss) for i in range(n)]
        y = [syms[f"y{i}v{v}"][2] if obs[i] else None for i in range(n)]
        level = [(j, syms[f"L{j}v0"][2]) for j in level_pos]
        change = [(j, syms[f"C{j}v0"][2]) for j in change_pos if j != 0]
        tagv = f" [variant {v}]" if nvar > 1 else ""
        claims += [(labl + tagv, t) for labl, t in _kkt_claims(n, S.float_fraction(float(lam)), obs, y, tau, level, change)]
        # trend + gap = data where observed; gap missing elsewhere
        for i in range(n):
            gcell = r["gap"].get((B0 + i, v))
            if obs[i]:
                if gcell is None:
                    run.counterexample(key, "hpf:gap", f"gap missing at observed period {i}{tagv}", dict(case, values={}))
                    return
                claims.append((f"trend+gap=data @{i}{tagv}", tau[i] + gcell - y[i]))
            elif gcell is not None:
                run.counterexample(key, "hpf:gap", f"gap defined at unobserved period {i}{tagv}", dict(case, values={}))
                return
    box = [z3.And(s[2].t >= -1, s[2].t <= 1) for s in syms.values()]
    assume = box + L.contract + [path.condition()]
    r0, _ = run.check_sat(assume, timeout_ms=30000)
    if r0 != "sat":
        run.unknown(key, f"reachability witness {r0}")
        return
    run.reach_ok += 1
    viol = z3.Or(*[z3.Or(S.const(t).t > TOL, S.const(t).t < -TOL) for _, t in claims])
    res, mdl = run.check_sat(assume + [viol], timeout_ms=120000)
    if res == "unsat":
        if len(run.samples) < 12:
            run.samples.append({"obligation": key, "verdict": "unsat: contract F z = b implies constraints, optimality and trend+gap=data for all data in the unit box",
                                "claims": [c[0] for c in claims], "contract_equations": len(L.contract)})
        run.ok(key)
    elif res == "sat":
        bad = []
        for labl, t in claims:
            dv = mdl.eval(S.const(t).t, model_completion=True)
            fv = Fraction(dv.numerator_as_long(), dv.denominator_as_long())
            if abs(fv) > TOL:
                bad.append((labl, float(fv)))
        vals = model_values(mdl, names)
        run.counterexample(key, finding, f"hpf output violates {bad[:3]}", dict(case, bad=bad[:5], values={k: [v.numerator, v.denominator] for k, v in vals.items()}))
    else:
        run.unknown(key, f"solver {res}")


def check_line(run, ir, n, lam):
    """a straight line is returned unchanged"""
    key = f"line:n={n}:lambda={lam}"
    a, b = S.sym("a", Fraction(1, 3)), S.sym("b", Fraction(1, 5))
    vals = {f"y{i}v0": None for i in range(n)}
    with Lift() as L, S.Path() as path:
        x, ys = tagged(ir, _qq(0), n, 1, (), "y")
        for i in range(n):
            x.data[i, 0] = a + b * i
        t = x.copy(); t.hpf_trend(smooth=lam)
        g = x.copy(); g.hpf_gap(smooth=lam)
    tc, gc = cellmap(t), cellmap(g)
    claims = [(f"trend@{i}", tc[(B0 + i, 0)] - (a + b * i)) for i in range(n)] + [(f"gap@{i}", gc[(B0 + i, 0)]) for i in range(n)]
    assume = [a.t >= -1, a.t <= 1, b.t >= -1, b.t <= 1] + L.contract + [path.condition()]
    viol = z3.Or(*[z3.Or(S.const(t_).t > TOL, S.const(t_).t < -TOL) for _, t_ in claims])
    r0, _ = run.check_sat(assume)
    res, mdl = run.check_sat(assume + [viol], timeout_ms=60000)
    if r0 == "sat" and res == "unsat":
        run.reach_ok += 1
        run.ok(key)
    elif res == "sat":
        vals = model_values(mdl, ["a", "b"])
        run.counterexample(key, "hpf:line", "a straight line is not a fixed point of the filter",
                           dict(kind="line", n=n, lam=float(lam), values={k: [v.numerator, v.denominator] for k, v in vals.items()}))
    else:
        run.unknown(key, f"{r0}/{res}")


def check_log(run, ir, n, miss, level_pos, lam):
    """log=True filters logarithms: the trend is EXP(z) with z the KKT point of the problem in LOG(y), LOG(L); trend*gap = data"""
    key = f"log:n={n}:miss={list(miss)}:level@{list(level_pos)}:lambda={lam}"
    case = dict(kind="log", n=n, miss=list(miss), level=list(level_pos), change=[], lam=float(lam))
    with Lift() as L, S.Path() as path:
        r = _run_hpf(ir, n, miss, level_pos, (), lam, log=True)
    syms = {**r["ys"], **r["ls"]}
    names = sorted(syms)
    if len(L.calls) != 2:
        run.unknown(key, f"{len(L.calls)} calls of linalg.solve (expected one for hpf_trend and one for hpf_gap)")
        return
    Fa, ba, z = L.calls[0]
    obs = [i not in miss for i in range(n)]
    logy = [syms[f"y{i}v0"][2].log() if obs[i] else None for i in range(n)]
    level = [(j, syms[f"L{j}v0"][2].log()) for j in level_pos]
    zt = [z[i, 0] for i in range(n)]
    claims = _kkt_claims(n, S.float_fraction(float(lam)), obs, logy, zt, level, [])
    pos = [s[2].t > 0 for s in syms.values()]
    terms = [S.const(t).t for _, t in claims]
    extra = []
    for i in range(n):
        tcell = r["trend"].get((B0 + i, 0))
        if tcell is None:
            run.counterexample(key, "hpf:log", "trend missing", dict(case, values={}))
            return
        extra.append(S.const(tcell).t == S.const(zt[i]).exp().t)          # trend = exp(filtered log)
        if obs[i]:
            gcell = r["gap"].get((B0 + i, 0))
            extra.append(S.const(tcell * gcell).t == syms[f"y{i}v0"][2].t)  # trend * gap = data
    assume = pos + L.contract + [path.condition()]
    assume += exp_log_axioms(terms + extra + assume)
    r0, _ = run.check_sat(assume, timeout_ms=30000)
    if r0 != "sat":
        run.unknown(key, f"reachability witness {r0}")
        return
    run.reach_ok += 1
    viol = z3.Or(*([z3.Or(t > TOL, t < -TOL) for t in terms] + [z3.Not(e) for e in extra]))
    res, mdl = run.check_sat(assume + [viol], timeout_ms=120000, nl=True)
    if res == "unsat":
        run.ok(key)
    elif res == "sat":
        vals = model_values(mdl, names)
        run.counterexample(key, "hpf:log", "log=True does not filter the logarithms / trend*gap != data", dict(case, values={k: [v.numerator, v.denominator] for k, v in vals.items()}))
    else:
        run.unknown(key, f"solver {res}")


def check_span(run, ir, n, miss, lam, span):
    """the requested span only clips (inside) or extends by smoothness (beyond) without changing the trend on the data span"""
    key = f"span:n={n}:miss={list(miss)}:span={span}:lambda={lam}"
    case = dict(kind="span", n=n, miss=list(miss), level=[], change=[], lam=float(lam), span=list(span))
    with Lift() as L, S.Path() as path:
        full = _run_hpf(ir, n, miss, (), (), lam)
        part = _run_hpf(ir, n, miss, (), (), lam, span=span)
    syms = full["ys"]
    names = sorted(syms)
    claims = []
    lo, hi = span
    for which in ("trend", "gap"):
        for (s, v), t in part[which].items():
            if not (B0 + lo <= s <= B0 + hi):
                run.counterexample(key, "hpf:span", f"{which} reported outside the requested span at {s - B0}", dict(case, values={}))
                return
            if (s, v) in full[which]:
                claims.append((f"{which}@{s - B0}", t - full[which][(s, v)]))
        for (s, v) in full[which]:
            if B0 + lo <= s <= B0 + hi and (s, v) not in part[which]:
                run.counterexample(key, "hpf:span", f"{which} missing inside the requested span at {s - B0}", dict(case, values={}))
                return
    # the trend must be reported on the whole requested span
    for k in range(lo, hi + 1):
        if (B0 + k, 0) not in part["trend"]:
            run.counterexample(key, "hpf:span", f"trend missing at requested period {k}", dict(case, values={}))
            return
    box = [z3.And(s[2].t >= -1, s[2].t <= 1) for s in syms.values()]
    assume = box + L.contract + [path.condition()]
    viol = z3.Or(*[z3.Or(S.const(t).t > TOL, S.const(t).t < -TOL) for _, t in claims]) if claims else z3.BoolVal(False)
    r0, _ = run.check_sat(assume, timeout_ms=30000)
    res, mdl = run.check_sat(assume + [viol], timeout_ms=120000)
    if r0 == "sat" and res == "unsat":
        run.reach_ok += 1
        run.ok(key)
    elif res == "sat":
        vals = model_values(mdl, names)
        run.counterexample(key, "hpf:span", "the requested span changes the result on the common periods", dict(case, values={k: [v.numerator, v.denominator] for k, v in vals.items()}))
    else:
        run.unknown(key, f"{r0}/{res}")


# ------------------------------------------------------------------------------------------
# lonf (l1 trend filter): the QP solver (daqp, compiled) cannot be lifted, so nothing is claimed for all data.  For a list of CONCRETE
# data sets z3 decides, per data set, whether a dual certificate of optimality exists for the returned trend:
#   minimise 1/2 |y - z|^2 + smooth * |D z|_1   (D = first / second difference, written here from the definition)
#   z optimal  <=>  exists nu:  y - z = D' nu,  |nu_i| <= smooth,  nu_i = smooth * sign((D z)_i) wherever (D z)_i != 0
# ------------------------------------------------------------------------------------------
_LONF_DATA = ((1.0, 2.0, 4.0, 3.0, 5.0, 9.0, 8.0, 10.0), (0.5, 0.25, 1.5, 1.0, 3.0, 2.5, 2.0, 4.0, 4.5), (2.0, 2.5, 2.0, 6.0, 6.5, 6.0, 1.0))


def _lonf_case(ir, data, order, smooth):
    x = ir.Series(start=_qq(0), values=tuple(data))
    trend, gap = ir.lonf(x, order, smooth)
    n = len(data)
    z = [float(v) for v in np.asarray(trend.get_data(_qq(0) >> _qq(n - 1)), dtype=float).reshape(-1)]
    g = [float(v) for v in np.asarray(gap.get_data(_qq(0) >> _qq(n - 1)), dtype=float).reshape(-1)]
    return z, g


def _lonf_certificate(run, data, z, order, smooth):
    """(verdict, message): z3 decides the existence of the dual certificate (QF_LRA on the concrete numbers)"""
    n = len(data)
    rows = []
    for i in range(n - order):
        r = [0.0] * n
        if order == 1:
            r[i], r[i + 1] = -1.0, 1.0                      # (D z)_i = z_{i+1} - z_i
        else:
            r[i], r[i + 1], r[i + 2] = 1.0, -2.0, 1.0       # (D z)_i = z_i - 2 z_{i+1} + z_{i+2}
        rows.append(r)
    nu = [z3.Real(f"nu_{i}") for i in range(n - order)]
    tol = Fraction(1, 10 ** 6)
    lam = S.float_fraction(float(smooth))
    cons = []
    for t in range(n):
        lhs = sum((S.float_fraction(rows[i][t]) * nu[i] for i in range(n - order) if rows[i][t] != 0.0), z3.RealVal(0))
        rhs = S.float_fraction(float(data[t])) - S.float_fraction(float(z[t]))
        cons += [lhs - rhs <= tol, rhs - lhs <= tol]
    for i in range(n - order):
        dz = sum(rows[i][t] * z[t] for t in range(n))
        cons += [nu[i] <= lam + tol, nu[i] >= -lam - tol]
        if dz > 1e-5:
            cons.append(nu[i] >= lam - Fraction(1, 10 ** 5))
        elif dz < -1e-5:
            cons.append(nu[i] <= -lam + Fraction(1, 10 ** 5))
    r, _ = run.check_sat(cons, timeout_ms=30000)
    return r


def check_lonf(run, ir):
    for di, data in enumerate(_LONF_DATA):
        for order in (1, 2):
            for smooth in (0.5, 2.0):
                key = f"lonf:data{di}:order={order}:smooth={smooth}"
                case = dict(kind="lonf", data=di, order=order, smooth=smooth)
                try:
                    z, g = _lonf_case(ir, data, order, smooth)
                except Exception as exc:
                    run.counterexample(key, "lonf:raises", f"lonf raises {type(exc).__name__}: {str(exc)[:120]}", case)
                    continue
                if len(z) != len(data) or any(abs(z[t] + g[t] - data[t]) > 1e-9 for t in range(len(data))):
                    run.counterexample(key, "lonf:trend+gap", "trend + gap differs from the data", case)
                    continue
                r = _lonf_certificate(run, data, z, order, smooth)
                if r == "sat":
                    run.ok(key, nontrivial=False)
                elif r == "unsat":
                    run.counterexample(key, f"lonf:optimality:order={order}", f"no dual certificate exists: the returned trend is not the minimiser of the l1 trend-filter problem of order {order}", case)
                else:
                    run.unknown(key, f"solver {r}")
    run.extra["executed_obligations"] = run.extra.get("executed_obligations", 0) + 1


def _replay_lonf(ir, case):
    from symx.report import Run as _Run
    data = _LONF_DATA[case["data"]]
    try:
        z, g = _lonf_case(ir, data, case["order"], case["smooth"])
    except Exception as exc:
        return True, f"lonf raises {type(exc).__name__}: {exc}"
    if len(z) != len(data) or any(abs(z[t] + g[t] - data[t]) > 1e-9 for t in range(len(data))):
        return True, "trend + gap differs from the data"
    r = _lonf_certificate(_Run(PID, "replay"), data, z, case["order"], case["smooth"])
    return r == "unsat", f"dual certificate: {r}"


def main(run):
    ir = load_irispie()
    run.extra["proxy_selftest_checks"] = npproxy.selftest()
    run.functions_encoded += ["series._hp.{_data_hpf,_ConstrainedHodrickPrescottFilter.__init__,filter_data,_add_eye_for_observations,_extend_data,_create_plain_filter_matrix,"
                              "_add_level_constraints,_add_change_constraints,_prepare_constraints,_remove_first_date_change,Inlay.hpf_trend,hpf_gap}",
                              "series.main (get_data_from_until, iter_own_data_variants_from_until, _replace_start_and_values, resolve_periods)", "dates.get_encompassing_span"]
    run.bounds["structures"] = ("length 3..7 (4..5 quick), every mask with <=1 interior missing value (+ one with 2), level constraints at {none, one interior, both ends}, "
                                "change constraint at {none, period 2}; smoothing parameter lambda in {10, 1600} (concrete); straight-line fixed point n=5; log=True n=4; "
                                "output spans inside and beyond the data")
    run.bounds["values"] = "data, level and change constraint values independent reals in [-1,1] (positive reals for log=True); tolerance 1e-8 only for the SVD-based feasible directions"
    run.stubs += ["numpy.linalg.solve -> fresh trend and multipliers z with the contract F z = b (F concrete for concrete lambda)"]
    run.assumptions += ["objective: sum over observed (y-tau)^2 + lambda * sum (second differences)^2 (the standard HP objective; the docstring's formula has lambda on the other term, "
                        "which contradicts its own default-lambda table)", "cells are mathematical reals"]
    run.bounds["lonf"] = ("NOT for all data (the daqp QP solver is compiled): for 3 concrete data sets x order in {1,2} x smooth in {0.5, 2} z3 decides whether a dual "
                          "certificate of optimality exists for the returned trend (D written from the definition); trend+gap=data compared concretely")
    run.outside += ["lonf for all data (daqp QP solver: cannot be lifted); only the per-data-set certificate above", "lonf with missing values, several variants, spans", "symbolic lambda", "more than 3 variants; per-variant level/change constraints (the code reads variant 0 of the constraint series only)", "n > 7"]
    lams = (10.0, 1600.0)
    for (n, miss, lv, ch) in _structures(run.tier):
        for lam in (lams if run.tier == "thorough" or (not lv and not ch) else lams[:1]):
            try:
                check_structure(run, ir, n, miss, lv, ch, lam)
            except S.SymbolicBranchError as exc:
                run.unknown(f"kkt:{n}:{miss}:{lv}:{ch}", exc)
            except Exception as exc:
                run.error(f"kkt:{n}:{miss}:{lv}:{ch}:{lam}", exc)
    vstructs = [(5, (), (), (), 2), (5, ((1, 0),), (), (), 2), (5, ((2, 1),), (3,), (), 2), (4, ((1, 1), (2, 2)), (), (2,), 3)]
    if run.tier == "thorough":
        vstructs += [(6, (2, (1, 0), (3, 1)), (0, 5), (), 2), (5, ((1, 0), (3, 2)), (), (), 3), (7, ((3, 1),), (5,), (2,), 2)]
    for (n, miss, lv, ch, nvar) in vstructs:
        try:
            check_structure(run, ir, n, miss, lv, ch, 10.0, nvar=nvar)
        except S.SymbolicBranchError as exc:
            run.unknown(f"kkt:{n}:{miss}:{lv}:{ch}:variants={nvar}", exc)
        except Exception as exc:
            run.error(f"kkt:{n}:{miss}:{lv}:{ch}:variants={nvar}", exc)
    for fn, args in ((check_line, (5, 10.0)), (check_line, (6, 1600.0)), (check_log, (4, (), (), 10.0)), (check_log, (5, (2,), (3,), 10.0)),
                     (check_span, (5, (), 10.0, (1, 3))), (check_span, (5, (2,), 10.0, (0, 6))), (check_span, (4, (), 1600.0, (-2, 2)))):
        try:
            fn(run, ir, *args)
        except S.SymbolicBranchError as exc:
            run.unknown(f"{fn.__name__}:{args}", exc)
        except Exception as exc:
            run.error(f"{fn.__name__}:{args}", exc)
    try:
        check_lonf(run, ir)
    except Exception as exc:
        run.error("lonf", exc)
    run.extra["exhaustive"] = True


def replay(case):
    ir = load_irispie()
    if case.get("kind") == "lonf":
        return _replay_lonf(ir, case)
    vals = {k: float(Fraction(a, b)) for k, (a, b) in case.get("values", {}).items()}
    n, lam = case["n"], case["lam"]
    if case["kind"] == "line":
        a, b = vals.get("a", 0.3), vals.get("b", 0.2)
        x = ir.Series(start=_qq(0), values=tuple(a + b * i for i in range(n)))
        t = ir.hpf_trend(x, smooth=lam)
        err = np.abs(t.get_data().flatten() - x.get_data().flatten()).max()
        return err > 1e-7, f"max |trend - line| = {err!r}"
    miss = tuple(tuple(m) if isinstance(m, list) else m for m in case["miss"])
    level_pos, change_pos = tuple(case["level"]), tuple(case["change"])
    nvar = int(case.get("nvar", 1))
    for i in range(n):
        for v in range(nvar):
            vals.setdefault(f"y{i}v{v}", 0.5 + 0.3 * ((i * 3 + v) % 4))
        vals.setdefault(f"L{i}v0", 0.4)
        vals.setdefault(f"C{i}v0", 0.1)
    log = case["kind"] == "log"
    r = _run_hpf(ir, n, miss, level_pos, change_pos, lam, log=log, values=vals, lifted=False, nvar=nvar)
    if case["kind"] == "span":
        part = _run_hpf(ir, n, miss, (), (), lam, span=tuple(case["span"]), values=vals, lifted=False)
        worst = 0.0
        for which in ("trend", "gap"):
            for k, v in part[which].items():
                if k in r[which]:
                    worst = max(worst, abs(v - r[which][k]))
        lo, hi = case["span"]
        missing = [k for k in range(lo, hi + 1) if (B0 + k, 0) not in part["trend"]]
        return worst > 1e-7 or bool(missing), f"max difference on common periods {worst!r}; trend missing at {missing}"
    f = (lambda v: math.log(v)) if log else (lambda v: v)
    worst, msg = 0.0, "KKT conditions hold"
    for v in range(nvar):
        tau = [f(r["trend"][(B0 + i, v)]) for i in range(n)]
        obs = [(i not in miss and (i, v) not in miss) for i in range(n)]
        y = [f(vals[f"y{i}v{v}"]) if obs[i] else None for i in range(n)]
        level = [(j, f(vals[f"L{j}v0"])) for j in level_pos]
        change = [(j, f(vals[f"C{j}v0"])) for j in change_pos if j != 0]
        claims = _kkt_claims(n, lam, obs, y, tau, level, change)
        for labl, t in claims:
            if abs(float(t)) > worst:
                worst, msg = abs(float(t)), f"{labl} [variant {v}]: {float(t)!r}"
        for i in range(n):
            if obs[i]:
                g = r["gap"].get((B0 + i, v))
                e = abs(r["trend"][(B0 + i, v)] * g - vals[f"y{i}v{v}"]) if log else abs(r["trend"][(B0 + i, v)] + g - vals[f"y{i}v{v}"])
                if e > worst:
                    worst, msg = e, f"trend/gap/data @{i} [variant {v}]: {e!r}"
    return worst > 1e-6, msg


if __name__ == "__main__":
    standard_main(PID, main, replay)
