"""
C02 -- Jacobians from algorithmic differentiation equal the true derivatives.

Layer 1 (rule level, inductive step): every operator/function of aldi.differentiators.Atom is executed
  on operands with arbitrary symbolic (value, diff) pairs; z3 decides that the result's (value, diff)
  equals the calculus rule written independently below, for all reals in the rule's domain.
Layer 2 (placement): fords.systems.System on a symbolic evaluation point vs z3-differentiated residuals.
Layer 3 (steady Jacobian): steadiers evaluator eval_jacob(g) vs derivative of the same evaluator's eval_func(g).
"""
from __future__ import annotations

import math
import os
import sys
import types
from fractions import Fraction

import numpy as np
import z3

from symx import sreal as S
from symx import npproxy
from symx.concolic import explore, model_values
from symx.report import standard_main

PID = "C02"


# ------------------------------------------------------------------------------------------
# generic maths over floats and SReal (used by the oracles, symbolically and in float replay)
# ------------------------------------------------------------------------------------------

from symx.gmath import LOGF, EXPF, SQRTF, EXPIT, ITE, POW


def _expit_sym(x, *a, **k):
    arr = np.asarray(x, dtype=object)
    out = np.empty(arr.shape, dtype=object)
    for idx in np.ndindex(*arr.shape):
        out[idx] = EXPIT(arr[idx])
    return out if out.shape else out[()]


def _sp_proxy():
    import scipy as _sp
    special = npproxy.SubProxy(_sp.special, {"expit": _expit_sym})
    return npproxy.SubProxy(_sp, {"special": special})


# ------------------------------------------------------------------------------------------
# rule table: (name, operand kinds, apply on real Atoms, oracle per cell, domain)
#   operand kinds: "A" Atom, "L" log-variable Atom, "c" numeric constant (concrete list)
#   oracle(u, du, v, dv) -> (value, dvalue) where (u, du) etc. are TRUE value/derivative of operands
# ------------------------------------------------------------------------------------------

def _rules(adp):
    R = []
    def add(name, kinds, apply, oracle, domain=lambda u, v: [], consts=(None,), concolic=False):
        for c in consts:
            R.append(dict(name=name if c is None else f"{name}[{c}]", kinds=kinds, apply=apply, oracle=oracle,
                          domain=domain, const=c, concolic=concolic))
    add("add", "AA", lambda a, b, c: a + b, lambda u, du, v, dv, c: (u + v, du + dv))
    add("sub", "AA", lambda a, b, c: a - b, lambda u, du, v, dv, c: (u - v, du - dv))
    add("mul", "AA", lambda a, b, c: a * b, lambda u, du, v, dv, c: (u * v, du * v + u * dv))
    add("div", "AA", lambda a, b, c: a / b, lambda u, du, v, dv, c: (u / v, (du * v - u * dv) / (v * v)),
        lambda u, v: [v != 0])
    add("pow_atom", "AA", lambda a, b, c: a ** b,
        lambda u, du, v, dv, c: (POW(u, v), POW(u, v) * (dv * LOGF(u) + v * du / u)), lambda u, v: [u > 0])
    add("mul_logly", "LA", lambda a, b, c: a * b, lambda u, du, v, dv, c: (u * v, du * v + u * dv))
    add("div_logly", "AL", lambda a, b, c: a / b, lambda u, du, v, dv, c: (u / v, (du * v - u * dv) / (v * v)),
        lambda u, v: [v > 0])
    add("add_logly", "LL", lambda a, b, c: a + b, lambda u, du, v, dv, c: (u + v, du + dv))
    add("pow_logly", "LL", lambda a, b, c: a ** b,
        lambda u, du, v, dv, c: (POW(u, v), POW(u, v) * (dv * LOGF(u) + v * du / u)), lambda u, v: [u > 0])
    add("neg", "A", lambda a, b, c: -a, lambda u, du, v, dv, c: (-u, -du))
    add("pos", "A", lambda a, b, c: +a, lambda u, du, v, dv, c: (u, du))
    add("neg_logly", "L", lambda a, b, c: -a, lambda u, du, v, dv, c: (-u, -du))
    K = (3, -2.5, 0.5)
    add("add_const", "A", lambda a, b, c: a + c, lambda u, du, v, dv, c: (u + c, du), consts=K)
    add("radd_const", "A", lambda a, b, c: c + a, lambda u, du, v, dv, c: (c + u, du), consts=K)
    add("sub_const", "A", lambda a, b, c: a - c, lambda u, du, v, dv, c: (u - c, du), consts=K)
    add("rsub_const", "A", lambda a, b, c: c - a, lambda u, du, v, dv, c: (c - u, -du), consts=K)
    add("mul_const", "A", lambda a, b, c: a * c, lambda u, du, v, dv, c: (u * c, du * c), consts=K)
    add("rmul_const", "A", lambda a, b, c: c * a, lambda u, du, v, dv, c: (c * u, c * du), consts=K)
    add("div_const", "A", lambda a, b, c: a / c, lambda u, du, v, dv, c: (u / c, du / c), consts=K)
    add("rdiv_const", "A", lambda a, b, c: c / a, lambda u, du, v, dv, c: (c / u, -c * du / (u * u)),
        lambda u, v: [u != 0], consts=K)
    add("rdiv_const_logly", "L", lambda a, b, c: c / a, lambda u, du, v, dv, c: (c / u, -c * du / (u * u)),
        lambda u, v: [u > 0], consts=(3,))
    add("pow_int", "A", lambda a, b, c: a ** c, lambda u, du, v, dv, c: (POW(u, c), c * POW(u, c - 1) * du),
        lambda u, v: [u != 0], consts=(2, 3, -1, 2.0))
    add("pow_real", "A", lambda a, b, c: a ** c, lambda u, du, v, dv, c: (POW(u, c), c * POW(u, c - 1) * du),
        lambda u, v: [u > 0], consts=(0.5, -1.5, 2.25))
    add("pow_real_logly", "L", lambda a, b, c: a ** c, lambda u, du, v, dv, c: (POW(u, c), c * POW(u, c - 1) * du),
        lambda u, v: [u > 0], consts=(0.5, 3))
    add("log", "A", lambda a, b, c: adp.log(a), lambda u, du, v, dv, c: (LOGF(u), du / u), lambda u, v: [u > 0])
    add("log_logly", "L", lambda a, b, c: adp.log(a), lambda u, du, v, dv, c: (LOGF(u), du / u), lambda u, v: [u > 0])
    add("exp", "A", lambda a, b, c: adp.exp(a), lambda u, du, v, dv, c: (EXPF(u), EXPF(u) * du))
    add("sqrt", "A", lambda a, b, c: adp.sqrt(a), lambda u, du, v, dv, c: (SQRTF(u), du / (2 * SQRTF(u))),
        lambda u, v: [u > 0])
    add("sqrt_logly", "L", lambda a, b, c: adp.sqrt(a), lambda u, du, v, dv, c: (SQRTF(u), du / (2 * SQRTF(u))),
        lambda u, v: [u > 0])
    add("logistic", "A", lambda a, b, c: adp.logistic(a),
        lambda u, du, v, dv, c: (EXPIT(u), EXPIT(u) * (1 - EXPIT(u)) * du))
    # kinked functions: explored path by path, kink excluded from the domain
    add("maximum_const", "A", lambda a, b, c: adp.maximum(a, c),
        lambda u, du, v, dv, c: (ITE(u > c, u, c), ITE(u > c, du, 0 * du)), lambda u, v, c=None: [], consts=(0, 1.5),
        concolic=True)
    add("maximum_default", "A", lambda a, b, c: adp.maximum(a),
        lambda u, du, v, dv, c: (ITE(u > 0, u, 0 * u), ITE(u > 0, du, 0 * du)), concolic=True)
    add("maximum_atom", "AA", lambda a, b, c: adp.maximum(a, b),
        lambda u, du, v, dv, c: (ITE(u > v, u, v), ITE(u > v, du, dv)), concolic=True)
    add("maximum_atom_logly", "LL", lambda a, b, c: adp.maximum(a, b),
        lambda u, du, v, dv, c: (ITE(u > v, u, v), ITE(u > v, du, dv)), concolic=True)
    return R


def _kink(rule, u, v):
    """conditions keeping the evaluation point away from the kink of maximum"""
    n = rule["name"]
    if n.startswith("maximum_const"):
        return [u != rule["const"]]
    if n.startswith("maximum_default"):
        return [u != 0]
    if n.startswith("maximum_atom"):
        return [u != v]
    return []


# functions offered in equations that Atom does not implement: must be rejected, never mis-differentiated
_REJECT_OR_RIGHT = ("abs", "normal_cdf", "normal_pdf", "minimum")


def _load():
    import tempfile
    tempfile.tempdir = "/tmp"
    from irispie.aldi import differentiators as ad, adaptations as adp
    return ad, adp


def _mk_atom(ad, name, kind, K, NW, values):
    """Atom with symbolic value (K,) and seed diff (NW,K); returns atom, true value array, true diff array"""
    val = np.empty((K,), dtype=object)
    dif = np.empty((NW, K), dtype=object)
    for j in range(K):
        val[j] = S.sym(f"{name}_{j}", values.get(f"{name}_{j}"))
        for i in range(NW):
            dif[i, j] = S.sym(f"d{name}_{i}_{j}", values.get(f"d{name}_{i}_{j}"))
    logly = kind == "L"
    atom = ad.Atom.no_context(val, dif, logly)
    # for a log-variable the seed is d(log x)/dw, so the true derivative of the value is x * seed
    true_diff = dif * val if logly else dif
    return atom, val, true_diff


def _names(rule, K, NW):
    out = []
    for name, kind in zip("uv", rule["kinds"]):
        for j in range(K):
            out.append(f"{name}_{j}")
            for i in range(NW):
                out.append(f"d{name}_{i}_{j}")
    return out


def _run_rule(ad, rule, K, NW, values):
    ops = []
    for name, kind in zip("uv", rule["kinds"]):
        ops.append(_mk_atom(ad, name, kind, K, NW, values))
    a = ops[0][0]
    b = ops[1][0] if len(ops) > 1 else None
    res = rule["apply"](a, b, rule["const"])
    return ops, res


def _cell_claims(rule, ops, res, K, NW):
    """list of (label, impl SReal, oracle SReal) for every value/diff cell"""
    out = []
    rv_ = np.asarray(res.value, dtype=object).reshape(-1)
    rd = np.asarray(res.diff, dtype=object)
    rd = np.broadcast_to(rd, (NW, K)) if rd.shape != (NW, K) else rd
    for j in range(K):
        u = ops[0][1][j]
        v = ops[1][1][j] if len(ops) > 1 else None
        for i in range(NW):
            du = ops[0][2][i, j]
            dv = ops[1][2][i, j] if len(ops) > 1 else None
            oval, odiff = rule["oracle"](u, du, v, dv, rule["const"])
            if i == 0:
                out.append((f"value[{j}]", rv_[j], oval))
            out.append((f"diff[{i},{j}]", rd[i, j], odiff))
    return out


def _domain_terms(rule, ops, K):
    dom = []
    for j in range(K):
        u = ops[0][1][j]
        v = ops[1][1][j] if len(ops) > 1 else None
        for c in list(rule["domain"](u, v)) + _kink(rule, u, v):
            dom.append(c.t if isinstance(c, S.SBool) else z3.BoolVal(bool(c)))
        # log-variables are positive by definition
        for (atom, val, _), kind in zip(ops, rule["kinds"]):
            if kind == "L":
                dom.append(val[j].t > 0)
    return dom


def _sqrt_axioms(terms):
    """ground instances SQRT(a)^2 = a, SQRT(a) >= 0 (a >= 0) for every SQRT application occurring"""
    seen, ax = set(), []
    def walk(t):
        if t.get_id() in seen:
            return
        seen.add(t.get_id())
        if z3.is_app(t):
            if t.decl().eq(S.SQRT):
                a = t.arg(0)
                ax.append(z3.Implies(a >= 0, z3.And(t * t == a, t >= 0)))
                ax.append(z3.Implies(a > 0, t > 0))
            for ch in t.children():
                walk(ch)
    for t in terms:
        walk(t)
    return ax


def layer1(run, ad, adp):
    run.functions_encoded += [
        "aldi.differentiators.Atom.{__add__,__radd__,__sub__,__rsub__,__mul__,__rmul__,__truediv__,__rtruediv__,"
        "__pow__,_power,_exponential,__neg__,__pos__,log,exp,sqrt,logistic,maximum,diff,value}",
        "aldi.adaptations.{log,exp,sqrt,logistic,maximum,minimum,abs,normal_cdf,normal_pdf}",
    ]
    K, NW = (2, 2)
    run.bounds["layer1"] = ("operands: Atoms with value vectors of 2 columns and 2x2 derivative seeds, all cells symbolic "
                            "reals (1 column for the kinked rules); numeric constants from a fixed list; log-status of each "
                            "operand in {plain, log-variable}. One inductive step: operands carry arbitrary (value, true "
                            "derivative) pairs, so the rule-level claim extends to trees of any size by structural induction.")
    proxy = npproxy.Proxy(object_alloc=False)
    sp = _sp_proxy()
    rules = _rules(adp)
    with npproxy.installed(proxy, ad, adp, extra=[(ad, "_sp", sp), (adp, "_ELEMENTWISE_FUNCTIONS", dict(
            adp._ELEMENTWISE_FUNCTIONS, log=proxy.log, exp=proxy.exp, sqrt=proxy.sqrt, abs=proxy.abs,
            maximum=proxy.maximum, minimum=proxy.minimum, logistic=_expit_sym))]):
        for rule in rules:
            key = f"rule:{rule['name']}"
            try:
                _decide_rule(run, ad, rule, key, K, NW)
            except S.SymbolicBranchError as exc:
                run.unknown(key, f"symbolic execution aborted: {exc}")
            except Exception as exc:
                run.error(key, exc)
    # rejected functions: executed on float Atoms
    for fname in _REJECT_OR_RIGHT:
        key = f"reject:{fname}"
        run.extra["executed_obligations"] = run.extra.get("executed_obligations", 0) + 1
        a = ad.Atom.no_context(np.array([0.7, -1.3]), np.array([[1.0, 1.0], [0.0, 0.0]]))
        try:
            r = getattr(adp, fname)(a, 0.25) if fname == "minimum" else getattr(adp, fname)(a)
        except Exception:
            run.ok(key, nontrivial=False)
            continue
        ok, msg = _fd_compare(fname, r)
        if ok:
            run.ok(key, nontrivial=False)
        else:
            run.counterexample(key, f"Atom.{fname}", f"{fname}(Atom) is accepted but mis-differentiated: {msg}",
                               {"kind": "reject", "function": fname})


# ------------------------------------------------------------------------------------------
# user context functions: aldi.finite_differentiators on symbolic Atoms
# ------------------------------------------------------------------------------------------

_USER_FUNCS = {
    # name: (function, arity incl. primitives, operand kinds, true partials)
    "sq": (lambda x: x * x, "A", lambda u, v, c: (u * u, 2 * u, None)),
    "prod": (lambda x, y: x * y, "AA", lambda u, v, c: (u * v, v, u)),
    "prod_logly": (lambda x, y: x * y, "LA", lambda u, v, c: (u * v, v, u)),
    "affine_prim": (lambda x, c: 3 * x + c, "Ac", lambda u, v, c: (3 * u + c, 3, None)),
    "mixed": (lambda x, y: x * x - 2 * x * y + y, "AA", lambda u, v, c: (u * u - 2 * u * v + v, 2 * u - 2 * v, 1 - 2 * u)),
}


def layer_findiff(run, ad):
    """two-sided differences are exact for polynomials of degree <= 2: the chain-rule plumbing of finite_differentiator
    (_collect_arg_values/_diffs, _plus_epsilon, _partial_two_sided_derivative, _partial_times_inner) is decided exactly"""
    from irispie.aldi import finite_differentiators as fdm
    run.functions_encoded.append("aldi.finite_differentiators.{finite_differentiator,_calculate_finite_derivatives,_partial_times_inner,"
                                 "_partial_two_sided_derivative,_plus_epsilon,_get_epsilon,_collect_arg_values,_collect_arg_diffs}")
    run.bounds["findiff"] = "user functions: polynomials of degree <= 2 in one or two Atom arguments (plus a primitive argument); values 2 columns, 2x2 seeds, all symbolic"
    proxy = npproxy.Proxy(object_alloc=False)
    K, NW = 2, 2
    with npproxy.installed(proxy, fdm, ad):
        for name, (f, kinds, truth) in _USER_FUNCS.items():
            key = f"findiff:{name}"
            try:
                ops = []
                for nm, kind in zip("uv", kinds):
                    if kind == "c":
                        ops.append((Fraction(5, 4), None, None))
                    else:
                        ops.append(_mk_atom(ad, nm, kind, K, NW, {}))
                wrapped = fdm.finite_differentiator(f)
                with S.Path() as path:
                    res = wrapped(*[o[0] for o in ops])
                rvv = np.asarray(res.value, dtype=object).reshape(-1)
                rd = np.broadcast_to(np.asarray(res.diff, dtype=object), (NW, K))
                dom = [path.condition()]
                for (atom, val, _), kind in zip(ops, kinds):
                    if kind == "L":
                        dom += [val[j].t > 0 for j in range(K)]
                okall = True
                for j in range(K):
                    u = ops[0][1][j]
                    v = ops[1][1][j] if len(ops) > 1 and ops[1][1] is not None else None
                    c = ops[1][0] if len(ops) > 1 and ops[1][1] is None else None
                    val, fu, fv = truth(u, v, c)
                    claims = [(f"value[{j}]", rvv[j], val)]
                    for i in range(NW):
                        d = fu * ops[0][2][i, j]
                        if fv is not None and v is not None:
                            d = d + fv * ops[1][2][i, j]
                        claims.append((f"diff[{i},{j}]", rd[i, j], d))
                    for labl, a, b in claims:
                        at, bt = S.const(a).t, S.const(b).t
                        r, m = run.prove(f"{key}:{labl}", at == bt, dom, timeout_ms=30000, nl=True,
                                         sample={"user_function": name, "cell": labl, "impl": str(at)[:160], "true": str(bt)[:120]} if labl == "diff[0,0]" else None)
                        if r == "unsat":
                            continue
                        okall = False
                        if r == "sat":
                            names = [n_ for n_ in _names({"kinds": kinds.replace("c", "")}, K, NW)]
                            vals = model_values(m, names)
                            run.counterexample(key, f"findiff:{name}", f"{labl}: finite-difference derivative {str(at)[:80]} != chain rule {str(bt)[:80]}",
                                               {"kind": "findiff", "function": name, "values": {n_: [x.numerator, x.denominator] for n_, x in vals.items()}})
                        else:
                            run.unknown(key, f"solver {r} on {labl}")
                        break
                    if not okall:
                        break
                if okall:
                    run.ok(key)
            except S.SymbolicBranchError as exc:
                run.unknown(key, exc)
            except Exception as exc:
                run.error(key, exc)


def _fd_compare(fname, r):
    from irispie.aldi import adaptations as adp
    if not hasattr(r, "diff"):
        return False, f"returned {type(r).__name__} instead of raising"
    x = np.array([0.7, -1.3])
    f = (lambda z: getattr(adp, fname)(z, 0.25)) if fname == "minimum" else getattr(adp, fname)
    h = 1e-6
    fd = (f(x + h) - f(x - h)) / (2 * h)
    got = np.asarray(r.diff, dtype=float)[0]
    if np.allclose(got, fd, atol=1e-5):
        return True, ""
    return False, f"diff {got} vs finite difference {fd}"


def _decide_rule(run, ad, rule, key, K, NW):
    k = 1 if rule["concolic"] else K
    nw = 1 if rule["concolic"] else NW
    names = _names(rule, k, nw)
    init = {n: Fraction(3 + i, 2) for i, n in enumerate(names)}

    def runner(values):
        return _run_rule(ad, rule, k, nw, values)

    # domain for path exploration (needs the symbols only)
    ops0 = [_mk_atom(ad, name, kind, k, nw, {}) for name, kind in zip("uv", rule["kinds"])]
    dom = _domain_terms(rule, ops0, k)
    results, exhausted = explore(names, runner, domain=dom, init=init, max_paths=32, stats=run.q)
    run.paths += len(results)
    if not exhausted:
        run.unknown(key, "path exploration not exhausted")
        return
    n_cells = 0
    feasible = 0
    for pi, (path, (ops, res), values) in enumerate(results):
        pc = path.condition()
        claims = _cell_claims(rule, ops, res, k, nw)
        all_terms = []
        for _, impl, orc in claims:
            all_terms += [S.const(impl).t, S.const(orc).t]
        assume = dom + [pc] + _sqrt_axioms(all_terms + dom)
        # reachability witness: domain and path condition satisfiable
        r0, _ = run.check_sat(assume, timeout_ms=20000)
        if r0 == "unsat" and len(results) > 1:
            continue          # path lies outside the rule's domain (e.g. exactly at the kink)
        if r0 != "sat":
            run.unknown(key, f"reachability witness {r0} (vacuous domain/path?)")
            return
        run.reach_ok += 1
        feasible += 1
        for label, impl, orc in claims:
            if not isinstance(impl, (S.SReal, S.SBool)) and not isinstance(orc, (S.SReal, S.SBool)):
                if impl != orc:
                    raise AssertionError(f"concrete mismatch {label}: {impl} vs {orc}")
                continue
            it, ot = S.const(impl).t, S.const(orc).t
            r, m = run.prove(f"{key}:{label}", it == ot, assume, timeout_ms=30000, nl=True,
                             sample={"rule": rule["name"], "cell": label, "impl": str(it)[:160], "oracle": str(ot)[:160]})
            n_cells += 1
            if r == "unsat":
                continue
            if r == "sat":
                # LOG/EXP are uninterpreted: a witness at a special point (u = 1, where the real log is 0; a zero seed) may not survive the float
                # replay although generic points do -> ask for a GENERIC witness first (every symbol in [3/2, 5/2], pairwise different values)
                gen = [z3.And(z3.Real(n_) >= Fraction(3, 2) + Fraction(i_, 16 * max(len(names), 1)), z3.Real(n_) <= Fraction(5, 2)) for i_, n_ in enumerate(names)]
                gen += [z3.Real(a_) != z3.Real(b_) for i_, a_ in enumerate(names) for b_ in names[i_ + 1:]]
                rg, mg = run.check_sat(list(assume) + gen + [it != ot], timeout_ms=20000, nl=True)
                if rg == "sat":
                    m = mg
                vals = model_values(m, names)
                case = {"kind": "rule", "rule": rule["name"], "k": k, "nw": nw, "cell": label,
                        "values": {n: [v.numerator, v.denominator] for n, v in vals.items()}}
                run.counterexample(key, f"Atom.rule:{rule['name'].split('[')[0]}",
                                   f"rule {rule['name']} {label}: impl {str(it)[:100]} != oracle {str(ot)[:100]}", case)
                return
            run.unknown(key, f"solver {r} on {label}")
            return
    if not feasible or not n_cells:
        run.unknown(key, "no feasible path / no symbolic cell reached the assertion")
        return
    run.ok(key)


# ------------------------------------------------------------------------------------------
# replay in floats, no proxies
# ------------------------------------------------------------------------------------------

def replay(case):
    if case.get("kind") == "placement":
        from checks import C02_placement
        return C02_placement.replay_placement(case)
    if case.get("kind") == "stacked_jacobian":
        from checks import C02_stacked
        return C02_stacked.replay_stacked(case)
    if case.get("kind") == "steady_jacobian":
        from checks import C02_stacked
        return C02_stacked.replay_steady_jacobian(case)
    ad, adp = _load()
    if case["kind"] == "reject":
        fname = case["function"]
        a = ad.Atom.no_context(np.array([0.7, -1.3]), np.array([[1.0, 1.0], [0.0, 0.0]]))
        try:
            r = getattr(adp, fname)(a, 0.25) if fname == "minimum" else getattr(adp, fname)(a)
        except Exception as e:
            return False, f"raises {type(e).__name__}"
        ok, msg = _fd_compare(fname, r)
        return (not ok), msg
    if case["kind"] == "rule":
        rule = [r for r in _rules(adp) if r["name"] == case["rule"]][0]
        k, nw = case["k"], case["nw"]
        vals = {n: float(Fraction(a, b)) for n, (a, b) in case["values"].items()}
        ops = []
        for name, kind in zip("uv", rule["kinds"]):
            val = np.array([vals[f"{name}_{j}"] for j in range(k)], dtype=float)
            dif = np.array([[vals[f"d{name}_{i}_{j}"] for j in range(k)] for i in range(nw)], dtype=float)
            logly = kind == "L"
            ops.append((ad.Atom.no_context(val, dif, logly), val, dif * val if logly else dif))
        with np.errstate(all="ignore"):
            res = rule["apply"](ops[0][0], ops[1][0] if len(ops) > 1 else None, rule["const"])
            rvv = np.asarray(res.value, dtype=float).reshape(-1)
            rd = np.broadcast_to(np.asarray(res.diff, dtype=float), (nw, k))
            worst = 0.0
            msg = ""
            for j in range(k):
                for i in range(nw):
                    u = float(ops[0][1][j]); du = float(ops[0][2][i, j])
                    v = float(ops[1][1][j]) if len(ops) > 1 else None
                    dv = float(ops[1][2][i, j]) if len(ops) > 1 else None
                    try:
                        oval, odiff = rule["oracle"](u, du, v, dv, rule["const"])
                    except (ValueError, ZeroDivisionError, OverflowError):
                        continue
                    for lab, got, want in ((f"value[{j}]", rvv[j], oval), (f"diff[{i},{j}]", rd[i, j], odiff)):
                        if not (math.isfinite(want)):
                            continue
                        err = abs(got - want) / (1 + abs(want)) if math.isfinite(got) else float("inf")
                        if err > worst:
                            worst, msg = err, f"{lab}: Atom gives {got}, calculus gives {want}"
        return worst > 1e-7, msg or "all cells agree"
    if case["kind"] == "findiff":
        from irispie.aldi import finite_differentiators as fdm
        f, kinds, truth = _USER_FUNCS[case["function"]]
        K, NW = 2, 2
        vals = {n: float(Fraction(a, b)) for n, (a, b) in case["values"].items()}
        ops = []
        for nm, kind in zip("uv", kinds):
            if kind == "c":
                ops.append((1.25, None, None))
                continue
            val = np.array([vals.get(f"{nm}_{j}", 1.5 + j) for j in range(K)], dtype=float)
            dif = np.array([[vals.get(f"d{nm}_{i}_{j}", 1.0 + i - j) for j in range(K)] for i in range(NW)], dtype=float)
            logly = kind == "L"
            if logly:
                val = np.abs(val) + 0.5
            ops.append((ad.Atom.no_context(val, dif, logly), val, dif * val if logly else dif))
        res = fdm.finite_differentiator(f)(*[o[0] for o in ops])
        rd = np.broadcast_to(np.asarray(res.diff, dtype=float), (NW, K))
        worst, msg = 0.0, "finite differences agree with the chain rule"
        for j in range(K):
            u = float(ops[0][1][j])
            v = float(ops[1][1][j]) if len(ops) > 1 and ops[1][1] is not None else None
            c = ops[1][0] if len(ops) > 1 and ops[1][1] is None else None
            _, fu, fv = truth(u, v, c)
            for i in range(NW):
                want = fu * ops[0][2][i, j] + (fv * ops[1][2][i, j] if fv is not None and v is not None else 0.0)
                got = rd[i, j]
                e = abs(got - want) / (1 + abs(want))
                if e > worst:
                    worst, msg = e, f"diff[{i},{j}]: finite differences {got!r} vs chain rule {want!r}"
        return worst > 1e-7, msg
    if case["kind"] in ("system", "steady_jacobian"):
        from checks import C02_placement
        return C02_placement.replay(case)
    raise ValueError(case["kind"])


def main(run):
    ad, adp = _load()
    run.extra["proxy_selftest_checks"] = npproxy.selftest()
    run.assumptions += [
        "symbolic cells are mathematical reals; float rounding inside the kernels is outside the claim",
        "LOG/EXP/SQRT are uninterpreted with normalising constructors and ground axioms; a sat model is reported only "
        "after it reproduces on the real float code",
        "evaluation points are restricted to each rule's domain (u>0 for log/sqrt/real powers, v!=0 for division, "
        "away from the kink for maximum); log-variables are positive",
    ]
    run.stubs += ["scipy.special.expit -> 1/(1+EXP(-x)) on symbolic input (definition of the logistic function)",
                  "numpy log/exp/sqrt/maximum element-wise dispatch to SReal methods (npproxy)"]
    layer1(run, ad, adp)
    layer_findiff(run, ad)
    try:
        from checks import C02_placement
    except ImportError:
        C02_placement = None
    if C02_placement is not None:
        C02_placement.run_layers(run)
    from checks import C02_stacked
    C02_stacked.run_layers(run)
    run.outside += [
                    "smoothness of arbitrary user context functions (finite differences)"]
    run.extra["exhaustive"] = True


if __name__ == "__main__":
    standard_main(PID, main, replay)
