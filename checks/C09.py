"""
C09 -- Periods behave as calendar-consistent integers and spans as their ranges.
Engine XH: CrossHair on generated harness functions calling the real irispie.dates (xh/c09_gen.py).
"""
from __future__ import annotations

import os
import time

from symx.report import standard_main, VERIF
from symx import xhrun

PID = "C09"
HARNESS = os.path.join(VERIF, ".work", "xh", "C09_harness.py")


def _select(tier):
    if tier == "thorough":
        return lambda name: True
    quick_classes = ("_q", "_m", "_d", "_i")
    def sel(name):
        if name.startswith("mixed_"):
            return name in ("mixed_y_q", "mixed_q_m", "mixed_m_d", "mixed_d_i", "mixed_i_y", "mixed_h_q", "mixed_q_h", "mixed_d_m")
        if name.startswith("daily_"):
            return True
        if name.startswith(("span_offset_", "span_mutate_", "span_resolve_", "span_reverse_", "span_ops_", "periods_from_until_")):
            return name.endswith(("_q", "_i"))
        if name.startswith("hash_"):
            return name.endswith(("_q", "_d"))
        return name.endswith(quick_classes) or name.startswith(("yearseg_", "shifts_", "tiling_"))
    return sel


def main(run):
    from xh import c09_gen, calstub
    t = time.time()
    n = calstub.validate(step=1 if run.tier == "thorough" else 7)
    run.extra["calendar_stub_validation"] = {"ordinals_compared_with_datetime": n, "months_compared_with_calendar": 9999 * 12,
                                             "seconds": round(time.time() - t, 1)}
    c09_gen.generate(HARNESS, run.tier)
    run.functions_encoded += ["dates.Period.{__add__,__sub__,__eq__,__ne__,__lt__,__le__,__gt__,__ge__,__hash__,shift}",
                              "dates.RegularPeriodMixin.{to_year_segment,from_year_segment,to_ymd,create_soy,create_eoy,create_eopy,create_tty,to_daily}",
                              "dates.DailyPeriod.{to_ymd,from_ymd,to_year_segment,from_year_segment,year,month,day,create_*}",
                              "dates.Span.{__init__,__iter__,__len__,__getitem__,reverse,reversed,shift,shift_start,shift_end,__add__,__sub__,__rshift__,__lshift__,resolve}",
                              "dates._SpannableMixin.{__rshift__,__lshift__,__pow__}", "dates._check_periods, periods_from_until"]
    run.bounds["ints"] = ("period serials: unbounded symbolic ints for arithmetic/order; years in [-10000,10000] for year/segment and keyword "
                          "shifts; years 1..9998 for calendar tiling; all ordinals 1..3652059 for the daily ymd round trip; hash on 6x6 windows; "
                          "spans |start|<=8,|length|<=4,|step|<=3 around a base serial; two-step in-place mutation sequences; "
                          "daily year/segment and keyword shifts on leap-day/year-end windows (see samples)")
    run.stubs += ["datetime.date and calendar.monthrange inside irispie.dates replaced by a loop-free integer Gregorian calendar "
                  "(xh/calstub.py), validated against the real modules on this run; counterexamples are replayed with the real datetime"]
    run.assumptions += ["CrossHair 'Confirmed over all paths' is taken as exhaustive over the precondition's bound",
                        "each harness has a reachability twin (post: False) that must produce a counterexample"]
    run.outside += ["weekly frequency", "hash agreement outside the 6x6 windows", "spans longer than 5 periods or |step|>3",
                    "daily keyword shifts outside the listed windows"]
    timeout = 300 if run.tier == "quick" else 600
    xhrun.run_harness(run, HARNESS, select=_select(run.tier), timeout=timeout, twin_timeout=60, finding_prefix="dates:")
    run.extra["exhaustive"] = True
    run.extra["rule"] = ("one evaluation = one CrossHair condition (harness function or its reachability twin) explored over all paths within its "
                         "precondition; non-trivial = confirmed over all paths AND twin produced a counterexample; distinct = distinct harness function")


def replay(case):
    from xh import c09_gen
    c09_gen.generate(HARNESS, "thorough")
    return xhrun.replay_case(case)


if __name__ == "__main__":
    standard_main(PID, main, replay)
