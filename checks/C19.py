"""
C19 -- Databox, dataslate and CSV conversions are lossless on selected names and span (dataslate + databox conjuncts).

SX cell tagging: Databoxes of Series with a distinct symbol per cell go through the real Dataslate.from_databox(...).to_databox()
(dataslates/main.py, _variants.py, _invariants.py) and through Databox.overlay/underlay/clip/prepend/copy/rename/keep/remove/merge
(databoxes/main.py, _merge.py).  Oracle: map semantics on dictionaries; z3 decides term equality for all values (the tags are
distinct variables, so equality for all values <=> the right cell in the right place).  CSV write/read is file I/O and float->text
formatting: outside this technique (not claimed).
"""
from __future__ import annotations

import itertools
import math
from fractions import Fraction

import numpy as np
import z3

from symx import sreal as S
from symx import npproxy
from symx.series_tools import load_irispie, series_modules, tagged, float_series, cellmap, none_is_nan_patch
from symx.concolic import model_values
from symx.report import standard_main

PID = "C19"
B0 = 8080            # qq(2020,1)


def _qq(ir, k):
    from irispie import dates as D
    return D.QuarterlyPeriod(B0 + k)


def _box(ir, spec, lifted=True, values=None):
    """spec: list of (name, kind, args): ('series', off, n, nvar, miss) | ('scalar', value) | ('list', [values])"""
    db = ir.Databox()
    syms = {}
    for name, kind, *a in spec:
        if kind == "series":
            off, n, nvar, miss = a
            if lifted:
                x, sy = tagged(ir, _qq(ir, off), n, nvar, tuple(miss), name + "_", values=values)
                syms.update(sy)
            else:
                v = {f"{name}_{i}v{j}": (values or {}).get(f"{name}_{i}v{j}", 1.25 + 0.5 * i + 0.25 * j + 0.03 * len(name)) for i in range(n) for j in range(nvar)}
                x = float_series(ir, _qq(ir, off), n, nvar, tuple(miss), name + "_", v)
            db[name] = x
        elif kind == "scalar":
            db[name] = a[0]
        else:
            db[name] = list(a[0])
    return db, syms


def _input_cell(spec_item, k, v):
    """term/number of (name, period offset k, variant v) in the input box, None if missing"""
    name, kind, *a = spec_item
    if kind == "scalar":
        return a[0]
    if kind == "list":
        vals = a[0]
        return vals[min(v, len(vals) - 1)]
    off, n, nvar, miss = a
    i = k - off
    vv = min(v, nvar - 1)
    if i < 0 or i >= n or i in miss or (i, vv) in miss:
        return None
    return ("sym", f"{name}_{i}v{vv}")


def _slate_specs(tier):
    base = [("a", "series", 0, 5, 1, (1,)), ("b", "series", -2, 4, 2, ()), ("c", "scalar", 3.5), ("d", "series", 3, 2, 1, ()), ("e", "list", [1.0, 2.0])]
    out = []
    spans = [(-1, 2), (0, 3)] if tier == "quick" else [(-1, 2), (0, 3), (-3, -2), (1, 1), (4, 6)]
    for (s0, s1) in spans:
        for nv in (1, 2) if tier == "quick" else (1, 2, 3):
            for fb, ow in ((None, None), ({"a": 9.0, "d": 8.0}, None), (None, {"b": 7.0}), ({"a": 9.0}, {"a": 6.0})):
                if tier == "quick" and nv == 1 and (fb or ow) and s0 == 0:
                    continue
                out.append((base, ("a", "b", "c", "d", "e"), s0, s1, nv, fb, ow))
    out.append((base, ("b", "a"), -1, 1, 2, None, None))
    # data clipped to a proper subset of the columns (what the Kalman filter asks for), with and without fallbacks/overwrites
    for fb, ow in ((None, None), ({"a": 9.0, "d": 8.0}, {"b": 7.0})) + ((({"a": 9.0}, {"a": 6.0}),) if tier == "thorough" else ()):
        out.append((base, ("a", "b", "c", "d", "e"), -1, 3, 2, fb, ow, (1, 2, 3)))
        out.append((base, ("a", "b", "c", "d", "e"), 0, 3, 1, fb, ow, (0, 1)))
    return out


def _eq_cell(got, want, symtab):
    """(status, z3 equality or None): want is None | number | ('sym', name)"""
    gm = got is None or (isinstance(got, float) and math.isnan(got))
    if want is None:
        return ("ok", None) if gm else ("bad", None)
    if gm:
        return "bad", None
    if isinstance(want, tuple):
        w = symtab[want[1]][2]
        if got is w:
            return "ok", None
        return "ask", S.const(got).t == w.t
    if isinstance(got, S.SReal):
        return "ask", got.t == S.rv(S.float_fraction(float(want)))
    return ("ok", None) if float(got) == float(want) else ("bad", None)


def _clip_kw(clip):
    """clip = tuple of base column indexes: the input data outside them are clipped to NaN BEFORE fallbacks and overwrites are applied"""
    return dict(clip_data_to_base_span=True, base_columns=tuple(clip)) if clip is not None else {}


def check_slate(run, ir, spec, names, s0, s1, nv, fb, ow, clip=None):
    key = f"slate:names={names}:span={s0}..{s1}:variants={nv}:fallbacks={fb}:overwrites={ow}" + (f":clip_to_base_columns={list(clip)}" if clip is not None else "")
    case = dict(kind="slate", names=list(names), s0=s0, s1=s1, nv=nv, fb=fb, ow=ow, clip=list(clip) if clip is not None else None)
    db, syms = _box(ir, spec)
    span = _qq(ir, s0) >> _qq(ir, s1)
    with S.Path() as path:
        ds = ir.Dataslate.from_databox(db, names, span, num_variants=nv, fallbacks=fb, overwrites=ow, **_clip_kw(clip))
    item = {s[0]: s for s in spec}
    asks, n_sym = [], 0
    _raw_input_cell = _input_cell
    col_of = {k: j for j, k in enumerate(range(s0, s1 + 1))}

    def _input_cell_(spec_item, k, v):
        if clip is not None and k in col_of and col_of[k] not in clip:
            return None
        return _raw_input_cell(spec_item, k, v)
    for v in range(nv):
        data = ds._variants[v].data
        for r, name in enumerate(ds.names):
            for j, k in enumerate(range(s0, s1 + 1)):
                want = _input_cell_(item[name], k, v)
                if ow and name in ow:
                    want = ow[name]
                elif want is None and fb and name in fb:
                    want = fb[name]
                st, eq = _eq_cell(data[r, j], want, syms)
                if st == "bad":
                    run.counterexample(key, "dataslate:from_databox", f"slate cell {name}[{k}] variant {v} holds {str(data[r, j])[:40]} instead of {want}", dict(case, values={}))
                    return
                if isinstance(want, tuple):
                    n_sym += 1
                if st == "ask":
                    asks.append(eq)
    # back to a databox: exactly the slate cells at the right periods
    with S.Path() as path2:
        back = ds.to_databox()
    for name in names:
        x = back[name]
        cells = cellmap(x)
        for v in range(nv):
            for k in range(s0 - 1, s1 + 2):
                want = None
                if s0 <= k <= s1:
                    want = _input_cell_(item[name], k, v)
                    if ow and name in ow:
                        want = ow[name]
                    elif want is None and fb and name in fb:
                        want = fb[name]
                st, eq = _eq_cell(cells.get((B0 + k, v)), want, syms)
                if st == "bad":
                    run.counterexample(key, "dataslate:to_databox", f"{name}[{k}] variant {v} comes back as {str(cells.get((B0 + k, v)))[:40]} instead of {want}", dict(case, values={}))
                    return
                if st == "ask":
                    asks.append(eq)
    if not n_sym:
        # the ORACLE expects no tagged cell inside this slate (outside the data, missing, or overwritten): every cell was compared concretely
        # above (NaN, fallback or overwrite value), nothing is left for the solver
        run.ok(key, nontrivial=False)
        return
    run.reach_ok += 1
    if asks:
        r, m = run.prove(key, z3.And(*asks), [path.condition(), path2.condition()], timeout_ms=30000,
                         sample={"structure": case, "symbolic_cells": n_sym, "example": str(asks[0])[:120]})
        if r == "sat":
            vals = model_values(m, sorted(syms))
            run.counterexample(key, "dataslate:cells", "a slate cell differs from the input cell", dict(case, values={n: [x.numerator, x.denominator] for n, x in vals.items()}))
            return
        if r != "unsat":
            run.unknown(key, r)
            return
    elif len(run.samples) < 12:
        run.samples.append({"obligation": key, "verdict": "every slate/databox cell holds the IDENTICAL input object (or NaN / the declared fallback / overwrite)", "symbolic_cells": n_sym})
    run.ok(key)


# ------------------------------------------------------------------------------------------
# databox operations
# ------------------------------------------------------------------------------------------

def check_slate_extend(run, ir, spec, names, s0, s1, add):
    """Dataslate.add_periods_to_end(n): the slate grows by n periods AFTER its end; going back to a databox returns the tags at their
    periods and nothing in the added ones"""
    key = f"slate_extend:names={names}:span={s0}..{s1}:add={add}"
    case = dict(kind="slate_extend", names=list(names), s0=s0, s1=s1, add=add)
    db, syms = _box(ir, spec)
    span = _qq(ir, s0) >> _qq(ir, s1)
    with S.Path() as path:
        ds = ir.Dataslate.from_databox(db, names, span, num_variants=1)
        ds.add_periods_to_end(add)
    ncol = ds._variants[0].data.shape[1]
    periods = tuple(ds.periods)
    want_periods = tuple(_qq(ir, k) for k in range(s0, s1 + add + 1))
    if len(periods) != ncol or periods != want_periods:
        run.counterexample(key, "dataslate:add_periods_to_end", f"after adding {add} periods the slate has {ncol} data columns but periods {[str(p) for p in periods]} (expected {[str(p) for p in want_periods]})",
                           dict(case, values={}))
        return
    item = {s_[0]: s_ for s_ in spec}
    with S.Path() as path2:
        back = ds.to_databox()
    asks = []
    for name in names:
        cells = cellmap(back[name])
        for k in range(s0 - 1, s1 + add + 2):
            want = _input_cell(item[name], k, 0) if s0 <= k <= s1 else None
            st, eq = _eq_cell(cells.get((B0 + k, 0)), want, syms)
            if st == "bad":
                run.counterexample(key, "dataslate:add_periods_to_end", f"{name}[{k}] comes back as {str(cells.get((B0 + k, 0)))[:40]} instead of {want}", dict(case, values={}))
                return
            if st == "ask":
                asks.append(eq)
    if asks:
        r, m = run.prove(key, z3.And(*asks), [path.condition(), path2.condition()], timeout_ms=30000)
        if r != "unsat":
            run.counterexample(key, "dataslate:add_periods_to_end", "a tagged cell changed", dict(case, values={})) if r == "sat" else run.unknown(key, f"solver {r}")
            return
    run.ok(key)


SPEC1 = [("a", "series", 0, 4, 1, (1,)), ("b", "series", 1, 3, 2, ()), ("c", "scalar", 3.5), ("d", "series", -1, 3, 1, ())]
SPEC2 = [("a", "series", 2, 4, 1, ()), ("b", "series", -1, 3, 2, (1,)), ("c", "scalar", 4.5), ("z", "series", 0, 2, 1, ())]


def check_slate_target(run, ir, spec, names, s0, s1):
    """Dataslate.to_databox(target_db): the series are added to the EXISTING databox handed in (empty or not), which is also what is returned;
    items of the target with other names are untouched"""
    item = {s_[0]: s_ for s_ in spec}
    for label, make_target in (("empty target", lambda: ir.Databox()), ("target with another item", lambda: ir.Databox(keepme=3.25))):
        key = f"slate_target:{label}:names={names}:span={s0}..{s1}"
        case = dict(kind="slate_target", label=label, names=list(names), s0=s0, s1=s1)
        db, syms = _box(ir, spec)
        span = _qq(ir, s0) >> _qq(ir, s1)
        ds = ir.Dataslate.from_databox(db, names, span, num_variants=1)
        target = make_target()
        ret = ds.to_databox(target)
        problems = []
        if ret is not target:
            problems.append("to_databox(target_db) returns another databox than the one handed in")
        if label != "empty target" and target.get("keepme") != 3.25:
            problems.append("an item of the target with another name was changed")
        asks = []
        for name in names:
            if name not in target:
                problems.append(f"{name} was not added to the target databox")
                continue
            cells = cellmap(target[name])
            for k in range(s0 - 1, s1 + 2):
                want = _input_cell(item[name], k, 0) if s0 <= k <= s1 else None
                st, eq = _eq_cell(cells.get((B0 + k, 0)), want, syms)
                if st == "bad":
                    problems.append(f"{name}[{k}] in the target is {str(cells.get((B0 + k, 0)))[:30]} instead of {want}")
                elif st == "ask":
                    asks.append(eq)
        if problems:
            run.counterexample(key, "dataslate:to_databox:target", "; ".join(problems[:3]), dict(case, values={}))
            continue
        if asks:
            r, m_ = run.prove(key, z3.And(*asks), [], timeout_ms=30000)
            if r == "sat":
                run.counterexample(key, "dataslate:to_databox:target", "a cell of the target differs from the slate cell", dict(case, values={}))
                continue
            if r != "unsat":
                run.unknown(key, r)
                continue
        run.ok(key)


def _other_spec():
    return [(n, k, *a) for (n, k, *a) in SPEC2]


def _cells_of_spec(spec_item, syms):
    name, kind, *a = spec_item
    if kind != "series":
        return None
    off, n, nvar, miss = a
    out = {}
    for i in range(n):
        for v in range(nvar):
            if i in miss or (i, v) in miss:
                continue
            out[(B0 + off + i, v)] = syms[f"{name}_{i}v{v}"][2]
    return out


def _lay(top, bottom):
    if not top:
        return dict(bottom)
    lo, hi = min(s for s, _ in top), max(s for s, _ in top)
    c = {k: v for k, v in bottom.items() if not (lo <= k[0] <= hi)}
    c.update(top)
    return c


def db_ops(ir):
    """(name, run(db, other) -> result box, oracle(cells1, cells2) -> {name: cells or 'scalar:<v>' or None(absent)})"""
    ops = []
    S1 = {s[0]: s for s in SPEC1}

    def same(c1):
        return {n: c1[n] for n in c1}
    for sel_name, sel in (("all", None), ("list[a]", ["a"]), ("list[a,z]", ["a", "z"])):
        def f(db, other, sel=sel):
            db.overlay(other, names=sel)
            return db
        def o(c1, c2, sel=sel):
            out = same(c1)
            names = [n for n in (sel if sel is not None else c1) if n in c1 and n in c2 and isinstance(c1[n], dict) and isinstance(c2[n], dict)]
            for n in names:
                if _nv(c1[n]) != _nv(c2[n]):
                    continue
                out[n] = _lay(c2[n], c1[n])
            return out
        ops.append((f"overlay names={sel_name}", f, o))
        def f(db, other, sel=sel):
            db.underlay(other, names=sel)
            return db
        def o(c1, c2, sel=sel):
            out = same(c1)
            names = [n for n in (sel if sel is not None else c1) if n in c1 and n in c2 and isinstance(c1[n], dict) and isinstance(c2[n], dict)]
            for n in names:
                if _nv(c1[n]) != _nv(c2[n]):
                    continue
                out[n] = _lay(c1[n], c2[n])
            return out
        ops.append((f"underlay names={sel_name}", f, o))
    for (a, e_) in ((1, 2), (None, 1), (2, None)):
        def f(db, other, a=a, e_=e_):
            db.clip(None if a is None else _qq(ir, a), None if e_ is None else _qq(ir, e_))
            return db
        def o(c1, c2, a=a, e_=e_):
            out = {}
            for n, c in c1.items():
                if isinstance(c, dict):
                    out[n] = {k: v for k, v in c.items() if (a is None or k[0] >= B0 + a) and (e_ is None or k[0] <= B0 + e_)}
                else:
                    out[n] = c
            return out
        ops.append((f"clip({a},{e_})", f, o))
    def f(db, other):
        db.prepend(other, _qq(ir, 0))
        return db
    def o(c1, c2):
        out = same(c1)
        for n in c1:
            if n in c2 and isinstance(c1[n], dict) and isinstance(c2[n], dict) and _nv(c1[n]) == _nv(c2[n]):
                clipped = {k: v for k, v in c2[n].items() if k[0] <= B0}
                out[n] = _lay(c1[n], clipped) if clipped else dict(c1[n])
        return out
    ops.append(("prepend(other, end=0)", f, o))
    # dictionary operations with the three kinds of selections
    for sel_name, sel, chosen in (("list", ["a", "c"], {"a", "c"}), ("predicate", (lambda n: n in ("b", "d")), {"b", "d"}), ("list+missing", ["a", "nope"], {"a"})):
        def f(db, other, sel=sel):
            db.keep(sel)
            return db
        ops.append((f"keep({sel_name})", f, lambda c1, c2, chosen=chosen: {n: c for n, c in c1.items() if n in chosen}))
        def f(db, other, sel=sel):
            db.remove(sel)
            return db
        ops.append((f"remove({sel_name})", f, lambda c1, c2, chosen=chosen: {n: c for n, c in c1.items() if n not in chosen}))
    def f(db, other):
        db.rename(["a", "c"], ["a2", "c2"])
        return db
    ops.append(("rename(list->list)", f, lambda c1, c2: {{"a": "a2", "c": "c2"}.get(n, n): c for n, c in c1.items()}))
    def f(db, other):
        db.rename(lambda n: n in ("b", "d"), lambda n: n + "_new")
        return db
    ops.append(("rename(predicate->function)", f, lambda c1, c2: {(n + "_new" if n in ("b", "d") else n): c for n, c in c1.items()}))
    def f(db, other):
        return db.copy(["a", "b"], ["a3", "b3"])
    ops.append(("copy(source,target)", f, lambda c1, c2: {"a3": c1["a"], "b3": c1["b"]}))
    def f(db, other):
        return db.copy()
    ops.append(("copy()", f, lambda c1, c2: dict(c1)))
    # a source name that is not in the box (default strict_names=False) is skipped TOGETHER WITH its target: later pairs keep their partners
    def f(db, other):
        db.rename(["a", "nope", "c", "d"], ["a2", "nope2", "c2", "d2"])
        return db
    ops.append(("rename(list with a missing name->list)", f, lambda c1, c2: {{"a": "a2", "c": "c2", "d": "d2"}.get(n, n): c for n, c in c1.items()}))
    def f(db, other):
        return db.copy(["nope", "a", "b"], ["n3", "a3", "b3"])
    ops.append(("copy(source with a missing name,target)", f, lambda c1, c2: {"a3": c1["a"], "b3": c1["b"]}))
    # renaming is a simultaneous substitution on the keys: permutations and chains lose nothing
    def f(db, other):
        db.rename(["a", "b"], ["b", "a"])
        return db
    ops.append(("rename(swap a<->b)", f, lambda c1, c2: {{"a": "b", "b": "a"}.get(n, n): c for n, c in c1.items()}))
    def f(db, other):
        db.rename(["a", "b", "c"], ["b", "c", "a2"])
        return db
    ops.append(("rename(chain a->b->c->a2)", f, lambda c1, c2: {{"a": "b", "b": "c", "c": "a2"}.get(n, n): c for n, c in c1.items()}))
    if hasattr(ir.Databox, "shallow"):
        def f(db, other):
            return db.shallow(["a", "nope", "d"], ["a4", "n4", "d4"])
        ops.append(("shallow(source with a missing name,target)", f, lambda c1, c2: {"a4": c1["a"], "d4": c1["d"]}))
    for strat in ("replace", "discard"):
        def f(db, other, strat=strat):
            db.merge(other, merge_strategy=strat)
            return db
        def o(c1, c2, strat=strat):
            out = dict(c1)
            for n, c in c2.items():
                if n not in out or strat == "replace":
                    out[n] = c
            return out
        ops.append((f"merge({strat})", f, o))
    # merging SEVERAL boxes at once: a name new to the receiver that occurs in two of them is a duplicate as well
    for strat in ("replace", "discard"):
        def f(db, other, strat=strat):
            b = other.copy(); b.keep(["z"]); b.rename(["z"], ["n1"])
            c = other.copy(); c.keep(["a", "b"]); c.rename(["a"], ["n1"])
            db.merge([b, c], merge_strategy=strat)
            return db
        def o(c1, c2, strat=strat):
            out = dict(c1)
            out["n1"] = c2["a"] if strat == "replace" else c2["z"]
            if strat == "replace":
                out["b"] = c2["b"]
            return out
        ops.append((f"merge([b, c], {strat})", f, o))
    def f(db, other):
        return db | other
    ops.append(("db | other", f, lambda c1, c2: {**c1, **c2}))
    return ops


def _nv(cells):
    return 1 + max((v for _, v in cells), default=0)


def _box_cells(db):
    out = {}
    for n in db.keys():
        x = db[n]
        out[n] = cellmap(x) if hasattr(x, "data") else x
    return out


def check_db_op(run, ir, name, f, o):
    key = f"databox:{name}"
    case = dict(kind="databox", op=name)
    db, s1 = _box(ir, SPEC1)
    other, s2 = _box(ir, _other_spec(), values=None)
    # distinct tags for the second box
    other = ir.Databox()
    s2 = {}
    for (n, kind, *a) in SPEC2:
        if kind == "series":
            x, sy = tagged(ir, _qq(ir, a[0]), a[1], a[2], tuple(a[3]), "o" + n + "_")
            other[n] = x
            s2.update(sy)
        else:
            other[n] = a[0]
    c1, c2 = _box_cells(db), _box_cells(other)
    before_other = _box_cells(other)
    with S.Path() as path:
        res = f(db, other)
    got = _box_cells(res)
    exp = o(c1, c2)
    if set(got) != set(exp):
        run.counterexample(key, f"databox:{name.split('(')[0].split(' ')[0]}", f"names differ: extra {sorted(set(got) - set(exp))} missing {sorted(set(exp) - set(got))}", dict(case, values={}))
        return
    asks = []
    for n in exp:
        g, e_ = got[n], exp[n]
        if isinstance(e_, dict) != isinstance(g, dict):
            run.counterexample(key, f"databox:{name.split('(')[0].split(' ')[0]}", f"{n}: kind of value changed", dict(case, values={}))
            return
        if not isinstance(e_, dict):
            if g != e_:
                run.counterexample(key, f"databox:{name.split('(')[0].split(' ')[0]}", f"{n}: {g!r} != {e_!r}", dict(case, values={}))
                return
            continue
        if set(g) != set(e_):
            run.counterexample(key, f"databox:{name.split('(')[0].split(' ')[0]}", f"{n}: cells differ: extra {sorted(set(g) - set(e_))[:3]} missing {sorted(set(e_) - set(g))[:3]}", dict(case, values={}))
            return
        for k in e_:
            if g[k] is not e_[k]:
                asks.append(S.const(g[k]).t == S.const(e_[k]).t)
    # the other box is never modified
    after_other = _box_cells(other)
    if any(isinstance(before_other[n], dict) and (set(before_other[n]) != set(after_other.get(n, {})) or any(before_other[n][k] is not after_other[n][k] for k in before_other[n]))
           for n in before_other if n in after_other and isinstance(before_other[n], dict)):
        run.counterexample(key, f"databox:{name.split('(')[0].split(' ')[0]}:other_modified", "the second databox was modified", dict(case, values={}))
        return
    if name.startswith("copy"):
        # mutating the copy must not touch the original
        orig = _box_cells(db)
        for n in res.keys():
            if hasattr(res[n], "data"):
                res[n][_qq(ir, 0)] = S.sym("w0", 5)
        if any(isinstance(orig[n], dict) and any(orig[n][k] is not _box_cells(db)[n].get(k) for k in orig[n]) for n in orig):
            run.counterexample(key, "databox:copy:aliasing", "mutating the copy changed the original", dict(case, values={}))
            return
    run.reach_ok += 1
    if asks:
        names = sorted(set(s1) | set(s2))
        r, m = run.prove(key, z3.And(*asks), [path.condition()], timeout_ms=30000, sample={"op": name, "example": str(asks[0])[:120]})
        if r == "sat":
            vals = model_values(m, names)
            run.counterexample(key, f"databox:{name.split('(')[0].split(' ')[0]}", "a cell differs from the series/dictionary semantics", dict(case, values={n_: [x.numerator, x.denominator] for n_, x in vals.items()}))
            return
        if r != "unsat":
            run.unknown(key, r)
            return
    elif len(run.samples) < 12:
        run.samples.append({"obligation": key, "verdict": "all result cells are the identical input objects in the cells prescribed by the oracle", "names": sorted(exp)})
    run.ok(key)


# ------------------------------------------------------------------------------------------
# CSV write/read: EXECUTED with cell tags (the text legs -- float formatting, the csv module, genfromtxt -- cannot be encoded).
# Every cell holds a distinct dyadic number (exact under the declared rounding), so reading back the expected number in the expected
# period means the right cell went to the right place; names, descriptions, frequencies and spans are compared exactly.
# ------------------------------------------------------------------------------------------
def _csv_specs(tier):
    """lists of (name, frequency key, start args, length, variants, interior missing positions, description)"""
    lens = [(6, 9, 4, 3), (3, 3, 3, 3), (2, 5, 7, 1), (9, 2, 2, 4)] + ([(4, 4, 9, 9), (1, 1, 1, 6), (5, 6, 7, 8)] if tier == "thorough" else [])
    out = []
    for (ly, lq, lm, li) in lens:
        spec = [("y", "yy", (2015,), ly, 1, (2,) if ly > 3 else (), "Yearly series"),
                ("q", "qq", (2019, 1), lq, 1, (), "Quarterly series"),
                ("q2", "qq", (2019, 3), max(lq - 2, 1), 2, (1,) if lq > 4 else (), "Quarterly series, two variants"),
                ("m", "mm", (2020, 11), lm, 1, (), ""),
                ("i", "ii", (-1,), li, 1, (), "Integer series")]
        out.append(spec)
        out.append(spec[:2])
        out.append([spec[1], spec[3], spec[0]])
    out.append([("d", "dd", (2024, 2, 27), 5, 1, (), "Daily across the leap day"), ("m", "mm", (2024, 1), 3, 1, (), "Monthly")])
    return out


def _csv_box(ir, spec):
    db = ir.Databox()
    want = {}
    tag = 0
    for (name, fk, sargs, n, nv, miss, desc) in spec:
        start = getattr(ir, fk)(*sargs)
        data = np.empty((n, nv), dtype=float)
        for k in range(n):
            for v in range(nv):
                tag += 1
                data[k, v] = float("nan") if (k in miss and 0 < k < n - 1) else tag / 64.0
        db[name] = ir.Series(start=start, values=data, description=desc)
        want[name] = (start, data, desc)
    db["scalar"] = 3.0
    db["list"] = [1, 2]
    return db, want


def _csv_verdict(ir, spec, names=None):
    import tempfile, os
    db, want = _csv_box(ir, spec)
    with tempfile.TemporaryDirectory() as folder:
        fn = os.path.join(folder, "roundtrip.csv")
        kw = dict(names=list(names)) if names else {}
        db.to_csv_file(fn, description_row=True, **kw)
        back = ir.Databox.from_csv_file(fn, description_row=True)
    expected = [n for n in want if (not names or n in names)]
    if sorted(back.keys()) != sorted(expected):
        return False, f"names read back {sorted(back.keys())}, expected {sorted(expected)}"
    for n in expected:
        start, data, desc = want[n]
        y = back[n]
        if y.frequency != start.frequency:
            return False, f"{n}: frequency {start.frequency} -> {y.frequency}"
        if (y.get_description() or "") != desc:
            return False, f"{n}: description {desc!r} -> {y.get_description()!r}"
        end = start + data.shape[0] - 1
        if (y.start, y.end) != (start, end):
            return False, f"{n}: span {start}..{end} -> {y.start}..{y.end}"
        got = np.asarray(y.get_data(start >> end), dtype=float)
        if got.shape != data.shape or not np.array_equal(got, data, equal_nan=True):
            return False, f"{n}: values differ after the round trip"
    return True, "ok"


def check_csv(run, ir, tier):
    key = "csv round trip of mixed-frequency databoxes (executed with cell tags)"
    count = 0
    for si, spec in enumerate(_csv_specs(tier)):
        for names in (None, tuple(s_[0] for s_ in spec[:2])):
            count += 1
            try:
                ok, msg = _csv_verdict(ir, spec, names)
            except Exception as exc:
                ok, msg = False, f"round trip raises {type(exc).__name__}: {str(exc)[:140]}"
            if not ok:
                run.counterexample(key, "databox:csv", f"structure {si}, names={names}: {msg}", dict(kind="csv", spec_index=si, names=list(names) if names else None, tier=tier))
                return
    run.extra["csv_round_trips_executed"] = count
    run.extra["executed_obligations"] = run.extra.get("executed_obligations", 0) + 1
    run.ok(key, nontrivial=False)


def main(run):
    ir = load_irispie()
    from irispie.dataslates import main as dm, _variants as dv, _invariants as di
    mods = series_modules()
    run.extra["proxy_selftest_checks"] = npproxy.selftest()
    run.functions_encoded += ["dataslates.main.Dataslate.{from_databox,to_databox,_slate_value_variant_iterator}", "dataslates._variants.Variant.{from_databox_variant,_apply_fallbacks,_apply_overwrites}",
                              "dataslates._invariants.Invariant", "databoxes.main.Databox.{iter_variants,overlay,underlay,_lay,clip,prepend,copy,rename,keep,remove,__or__,_resolve_source_target_names,filter}",
                              "databoxes._merge.{_merge,_merge_replace,_merge_discard}", "series.main (overlay/underlay/clip/get_data_from_until/from_start_and_array)"]
    run.bounds["structures"] = ("dataslate: 5-name box (series with an interior missing value, 2-variant series, scalar, late series, list) x slate spans around/inside/outside the data x "
                                "1..3 variants x fallbacks/overwrites on/off; databox operations on 4-name boxes with tagged series: overlay/underlay (all names, list, list with foreign name), "
                                "clip (3 windows), prepend, keep/remove/rename/copy with list, predicate and renaming-function selections, merge(replace/discard), |")
    run.bounds["values"] = "a distinct real per series cell; exact equality (mostly object identity)"
    run.bounds["csv"] = ("EXECUTED, not solver-decided: CSV write/read of databoxes with yearly/quarterly/monthly/integer/daily series of different lengths, a two-variant series, "
                         "interior missing values, descriptions, a scalar and a list, all names and a name selection; every cell a distinct dyadic tag")
    run.outside += ["CSV write/read as a solver claim (file I/O, csv module, float->text cannot be encoded): only the executed tagged round trip above", "CSV options (delimiter, date formatter, numeric format), leading/trailing missing values", "merge(stack) with non-series values, JSON", "frequencies other than quarterly", "steady/zero/minus_control constructors"]
    proxy = npproxy.Proxy()
    with npproxy.installed(proxy, *mods, dm, dv, di, extra=[none_is_nan_patch(ir)]):
        for args in _slate_specs(run.tier):
            try:
                check_slate(run, ir, *args)
            except S.SymbolicBranchError as exc:
                run.unknown(f"slate:{args[2:]}", exc)
            except Exception as exc:
                run.error(f"slate:{args[2:]}", exc)
        base_spec_ = _slate_specs("quick")[0][0]
        for (s0_, s1_, add_) in ((0, 2, 1), (-1, 1, 2), (0, 3, 0)) + (((1, 1, 3),) if run.tier == "thorough" else ()):
            try:
                check_slate_extend(run, ir, base_spec_, ("a", "b", "c", "d"), s0_, s1_, add_)
            except S.SymbolicBranchError as exc:
                run.unknown(f"slate_extend:{s0_}..{s1_}+{add_}", exc)
            except Exception as exc:
                run.error(f"slate_extend:{s0_}..{s1_}+{add_}", exc)
        try:
            check_slate_target(run, ir, base_spec_, ("a", "b", "d"), 0, 3)
        except S.SymbolicBranchError as exc:
            run.unknown("slate_target", exc)
        except Exception as exc:
            run.error("slate_target", exc)
        for (name, f, o) in db_ops(ir):
            try:
                check_db_op(run, ir, name, f, o)
            except S.SymbolicBranchError as exc:
                run.unknown(f"databox:{name}", exc)
            except Exception as exc:
                run.error(f"databox:{name}", exc)
    try:
        check_csv(run, ir, run.tier)
    except Exception as exc:
        run.error("csv", exc)
    run.extra["exhaustive"] = True


def replay(case):
    """float twin: tags replaced by distinct numbers; equality of numbers (distinct by construction)"""
    ir = load_irispie()
    if case.get("kind") == "csv":
        spec = _csv_specs(case.get("tier", "thorough"))[case["spec_index"]]
        try:
            ok, msg = _csv_verdict(ir, spec, tuple(case["names"]) if case.get("names") else None)
        except Exception as exc:
            return True, f"round trip raises {type(exc).__name__}: {exc}"
        return (not ok), msg
    vals = {k: float(Fraction(a, b)) for k, (a, b) in case.get("values", {}).items()}
    g = globals()
    real_tagged, real_sym = g["tagged"], S.sym
    counter = [0]

    def ftagged(ir_, start, n, nvar=1, miss=(), prefix="x", values=None):
        v = {}
        for i in range(n):
            for j in range(nvar):
                counter[0] += 1
                v[f"{prefix}{i}v{j}"] = vals.get(f"{prefix}{i}v{j}", 100.0 + counter[0] + 0.001 * len(prefix))
        x = float_series(ir_, start, n, nvar, miss, prefix, v)
        return x, {k: (0, 0, val) for k, val in v.items()}
    g["tagged"] = ftagged
    S.sym = lambda name, value=None: float(vals.get(name, value or 5.0))
    try:
        if case["kind"] == "slate":
            spec = [s for s in _slate_specs("thorough")[0][0]]
            names, s0, s1, nv, fb, ow = tuple(case["names"]), case["s0"], case["s1"], case["nv"], case["fb"], case["ow"]
            db, syms = _box(ir, spec)
            span = _qq(ir, s0) >> _qq(ir, s1)
            clip = case.get("clip")
            ds = ir.Dataslate.from_databox(db, names, span, num_variants=nv, fallbacks=fb, overwrites=ow, **_clip_kw(clip))
            item = {s[0]: s for s in spec}
            back = ds.to_databox()
            col_of = {k: j for j, k in enumerate(range(s0, s1 + 1))}
            _raw = _input_cell

            def _input_cell_r(spec_item, k, v):
                if clip is not None and k in col_of and col_of[k] not in clip:
                    return None
                return _raw(spec_item, k, v)

            def want_of(name, k, v):
                w = _input_cell_r(item[name], k, v)
                if ow and name in ow:
                    return ow[name]
                if w is None and fb and name in fb:
                    return fb[name]
                return syms[w[1]][2] if isinstance(w, tuple) else w
            for v in range(nv):
                data = ds._variants[v].data
                for r, name in enumerate(ds.names):
                    for j, k in enumerate(range(s0, s1 + 1)):
                        w, gcell = want_of(name, k, v), data[r, j]
                        if (w is None) != bool(math.isnan(gcell)) or (w is not None and abs(gcell - w) > 1e-12):
                            return True, f"slate cell {name}[{k}] variant {v}: {gcell!r} vs {w!r}"
            for name in names:
                cells = cellmap(back[name])
                for v in range(nv):
                    for k in range(s0 - 1, s1 + 2):
                        w = want_of(name, k, v) if s0 <= k <= s1 else None
                        gcell = cells.get((B0 + k, v))
                        if (w is None) != (gcell is None) or (w is not None and abs(gcell - w) > 1e-12):
                            return True, f"to_databox {name}[{k}] variant {v}: {gcell!r} vs {w!r}"
            return False, "slate and databox agree with the input"
        if case["kind"] == "slate_target":
            spec = [s_ for s_ in _slate_specs("quick")[0][0]]
            names, s0, s1 = tuple(case["names"]), case["s0"], case["s1"]
            db, syms = _box(ir, spec)
            ds = ir.Dataslate.from_databox(db, names, _qq(ir, s0) >> _qq(ir, s1), num_variants=1)
            target = ir.Databox() if case["label"] == "empty target" else ir.Databox(keepme=3.25)
            ret = ds.to_databox(target)
            if ret is not target:
                return True, "to_databox(target_db) returns another databox than the one handed in"
            missing = [n for n in names if n not in target]
            if missing:
                return True, f"{missing} not added to the target databox"
            item = {s_[0]: s_ for s_ in spec}
            for name in names:
                cells = cellmap(target[name])
                for k in range(s0, s1 + 1):
                    w = _input_cell(item[name], k, 0)
                    w = syms[w[1]][2] if isinstance(w, tuple) else w
                    gcell = cells.get((B0 + k, 0))
                    if (w is None) != (gcell is None) or (w is not None and abs(gcell - w) > 1e-12):
                        return True, f"{name}[{k}]: {gcell!r} vs {w!r}"
            return False, "the target databox holds the slate"
        if case["kind"] == "slate_extend":
            spec = [s_ for s_ in _slate_specs("quick")[0][0]]
            names, s0, s1, add = tuple(case["names"]), case["s0"], case["s1"], case["add"]
            db, syms = _box(ir, spec)
            ds = ir.Dataslate.from_databox(db, names, _qq(ir, s0) >> _qq(ir, s1), num_variants=1)
            ds.add_periods_to_end(add)
            ncol = ds._variants[0].data.shape[1]
            periods = tuple(ds.periods)
            want_periods = tuple(_qq(ir, k) for k in range(s0, s1 + add + 1))
            if len(periods) != ncol or periods != want_periods:
                return True, f"{ncol} data columns, periods {[str(p) for p in periods]}, expected {[str(p) for p in want_periods]}"
            item = {s_[0]: s_ for s_ in spec}
            back = ds.to_databox()
            for name in names:
                cells = cellmap(back[name])
                for k in range(s0 - 1, s1 + add + 2):
                    w = _input_cell(item[name], k, 0) if s0 <= k <= s1 else None
                    w = syms[w[1]][2] if isinstance(w, tuple) else w
                    gcell = cells.get((B0 + k, 0))
                    if (w is None) != (gcell is None) or (w is not None and abs(gcell - w) > 1e-12):
                        return True, f"to_databox {name}[{k}]: {gcell!r} vs {w!r}"
            return False, "extended slate agrees with the input"
        for (name, f, o) in db_ops(ir):
            if name == case.get("op"):
                db, s1 = _box(ir, SPEC1)
                other = ir.Databox()
                for (n, kind, *a) in SPEC2:
                    other[n] = ftagged(ir, _qq(ir, a[0]), a[1], a[2], tuple(a[3]), "o" + n + "_")[0] if kind == "series" else a[0]
                c1, c2 = _box_cells(db), _box_cells(other)
                try:
                    got = _box_cells(f(db, other))
                except Exception as exc:
                    return True, f"raises {type(exc).__name__}: {exc}"
                exp = o(c1, c2)
                if set(got) != set(exp):
                    return True, f"names differ {sorted(set(got) ^ set(exp))}"
                for n in exp:
                    if isinstance(exp[n], dict):
                        if set(got[n]) != set(exp[n]) or any(abs(got[n][k] - exp[n][k]) > 1e-12 for k in exp[n]):
                            return True, f"{n}: cells differ"
                    elif got[n] != exp[n]:
                        return True, f"{n}: {got[n]!r} != {exp[n]!r}"
                return False, "agrees"
    finally:
        g["tagged"] = real_tagged
        S.sym = real_sym
    return False, "case not found"


if __name__ == "__main__":
    standard_main(PID, main, replay)
