"""
C02, placement layer -- the unsolved-system matrices A, B, D, F, G, J of fords.systems.System hold, in the row of each equation
and the column of each occurrence, the true partial derivative of the equation residual.

fords.systems.System.__init__ (descriptor.aldi_context.eval_to_arrays + the ArrayMap placement) runs on an object array with one
symbol per (quantity, time shift): every matrix entry is a term.  The oracle reads the equation as parsed text
(symx/refeval.py), builds the residual on the same symbols and differentiates the z3 term structurally (zdiff below).

The system is   A x_t + B x_{t-1} + C + D u_t = 0,   F y_t + G x_t + H + J w_t = 0   with x_t a vector of tokens (quantity, shift).
An occurrence q[s] may be carried by a column of A (token (q, s)) or of B (token (q, s+1)); the claim is therefore on the TOTAL
coefficient of q[s] in each row:   sum_{j: tok_j=(q,s)} A[e,j] + sum_{j: tok_j=(q,s+1)} B[e,j]  ==  d residual_e / d q[s]
(with respect to log q[s] for log-variables), zero for every (q, s) that does not occur; the rows below the equations (dynamic
identities) must have total coefficient zero for every (q, s).  z3 decides each equality for all evaluation points.
"""
from __future__ import annotations

import contextlib
import io
import math
from fractions import Fraction

import numpy as np
import z3

from symx import sreal as S
from symx import npproxy, zoo
from symx.refeval import Equation
from symx.lift import exp_log_axioms
from symx.series_tools import load_irispie
from symx.concolic import model_values


# ------------------------------------------------------------------------------------------------ structural derivative of a z3 term
def zdiff(t, x):
    """d t / d x for z3 real terms over + - * / ^ EXP LOG SQRT; returns a z3 term (python int 0 pruned)"""
    def D(t):
        if z3.is_rational_value(t) or z3.is_int_value(t) or z3.is_algebraic_value(t):
            return 0
        if z3.is_const(t):
            return 1 if t.eq(x) else 0
        k = t.decl().kind()
        ch = t.children()
        if k == z3.Z3_OP_ADD:
            out = 0
            for c in ch:
                d = D(c)
                if not _is0(d):
                    out = d if _is0(out) else out + d
            return out
        if k == z3.Z3_OP_SUB:
            out = D(ch[0])
            for c in ch[1:]:
                d = D(c)
                if not _is0(d):
                    out = (0 - d) if _is0(out) else out - d
            return out
        if k == z3.Z3_OP_UMINUS:
            d = D(ch[0])
            return 0 if _is0(d) else -d
        if k == z3.Z3_OP_MUL:
            out = 0
            for i, c in enumerate(ch):
                d = D(c)
                if _is0(d):
                    continue
                term = d
                for j, o in enumerate(ch):
                    if j != i:
                        term = term * o
                out = term if _is0(out) else out + term
            return out
        if k == z3.Z3_OP_DIV:
            a, b = ch
            da, db = D(a), D(b)
            if _is0(da) and _is0(db):
                return 0
            if _is0(db):
                return da / b
            num = (0 if _is0(da) else da * b)
            num = (0 - a * db) if _is0(num) else num - a * db
            return num / (b * b)
        if k == z3.Z3_OP_POWER:
            u, n = ch
            du, dn = D(u), D(n)
            if _is0(du) and _is0(dn):
                return 0
            if _is0(dn):
                return n * (u ** (n - 1)) * du
            raise NotImplementedError("variable exponent as a z3 power")
        if t.decl().eq(S.EXP):
            d = D(ch[0])
            return 0 if _is0(d) else t * d
        if t.decl().eq(S.LOG):
            d = D(ch[0])
            return 0 if _is0(d) else d / ch[0]
        if t.decl().eq(S.SQRT):
            d = D(ch[0])
            return 0 if _is0(d) else d / (2 * t)
        if k == z3.Z3_OP_TO_REAL:
            return 0
        raise NotImplementedError(f"zdiff: {t.decl()}")
    return D(t)


def _is0(d):
    return isinstance(d, int) and d == 0


def expo_unify(terms):
    """
    Real powers of positive symbols appear as EXP(c*LOG x) with different rational c on the two sides of a claim (x^0.3/x vs x^-0.7),
    which uninterpreted EXP/LOG cannot relate.  For every symbol x occurring as EXP(c*LOG x): with q the common denominator of all such c,
    replace EXP(c*LOG x) by W_x^(c q) and the bare x by W_x^q, W_x > 0 a fresh symbol standing for x^(1/q).  Sound: it is the substitution
    x = W^q, exact for positive x.  Returns (new terms, [W > 0 ...]).
    """
    terms = [S.renorm(t) for t in terms]
    atoms = {}            # id -> (atom term, x, c)
    seen = set()

    def _sym(t):
        return z3.is_const(t) and t.decl().kind() == z3.Z3_OP_UNINTERPRETED

    def lin(arg):
        """arg == c*LOG(x) -> (x, c, True);  arg == c*s for a plain symbol s -> (s, c, False);  else None"""
        a = z3.simplify(arg)
        # LOG(u) for ANY term u (a symbol or a compound such as g1 + g4): u is treated as one positive base (it occurs under LOG)
        if a.decl().eq(S.LOG):
            return a.arg(0), Fraction(1), True
        if _sym(a):
            return a, Fraction(1), False
        if z3.is_mul(a) and len(a.children()) == 2:
            c, b = a.children()
            if z3.is_rational_value(c):
                cf = Fraction(c.numerator_as_long(), c.denominator_as_long())
                if b.decl().eq(S.LOG):
                    return b.arg(0), cf, True
                if _sym(b):
                    return b, cf, False
        return None

    def walk(t):
        if t.get_id() in seen:
            return
        seen.add(t.get_id())
        if z3.is_app(t):
            if t.decl().eq(S.EXP):
                r = lin(t.arg(0))
                if r is not None:
                    atoms[t.get_id()] = (t, r[0], r[1], r[2])
            for ch in t.children():
                walk(ch)
    for t in terms:
        walk(t)
    if not atoms:
        return terms, []
    byx = {}
    for _id, (atom, x, c, is_log) in atoms.items():
        byx.setdefault((str(x), is_log), (x, is_log, []))[2].append((atom, c))
    subs1, subs2, dom = [], [], []
    for (name, is_log), (x, _il, lst) in byx.items():
        q = 1
        for _a, c in lst:
            q = q * c.denominator // math.gcd(q, c.denominator)
        # EXP(c*LOG x): W = x^(1/q) and x = W^q;  EXP(c*s): W = EXP(s/q) (the bare s stays, it is only related to W through EXP)
        safe = "".join(ch if ch.isalnum() else "_" for ch in name)[:40] + f"_{x.get_id()}"
        W = z3.Real(f"W_{safe}" if is_log else f"WE_{safe}")
        dom.append(W > 0)
        for k, (atom, c) in enumerate(lst):
            E = z3.Real(f"E_{safe}_{int(is_log)}_{k}")
            n = int(c * q)
            subs1.append((atom, E))
            subs2.append((E, W ** n if n >= 0 else 1 / (W ** (-n))))
        if is_log:
            subs2.append((x, W ** q))
    out = []
    for t in terms:
        t1 = z3.substitute(t, *subs1)
        t2 = z3.substitute(t1, *subs2)
        out.append(t2)
    return out, dom


# ------------------------------------------------------------------------------------------------ models
class PModel:
    def __init__(self, name, source, assign, linear):
        self.name, self.source, self.assign, self.linear = name, source, dict(assign), linear


def models(tier):
    out = []
    for n in ("nk3", "ar2m", "lead2"):
        z = zoo.by_name(n)
        out.append(PModel(n, z.source(), z.float_params(), True))
    # a measurement equation that reads a transition variable at its DEEPEST lag, and one at a lag deeper than any transition equation
    out.append(PModel("mlag", "!transition-variables\n  y, z\n!transition-shocks\n  ey, ez\n!parameters\n  a, b\n!transition-equations\n"
                              "  y = a*y[-1] + ey;\n  z = b*z[-1] + 0.3*y[-1] + ez;\n!measurement-variables\n  o1, o2, o3\n!measurement-shocks\n  w\n"
                              "!measurement-equations\n  o1 = y[-1] + w;\n  o2 = z + 0.5*y[-1];\n  o3 = 2*z[-2] - y;\n", dict(a=0.5, b=0.25), True))
    # non-linear, log-variables, real powers, a lead; measurement of a lagged log-variable
    out.append(PModel("rbc_m", "!transition-variables\n  y, c, k, r\n!transition-shocks\n  e\n!parameters\n  alpha, beta, delta\n!log-variables\n  y, c, k\n"
                               "!transition-equations\n  y = k[-1]^alpha * exp(e);\n  c + k = y + (1-delta)*k[-1];\n  1/c = beta*(1/c[+1])*(1 + r[+1] - delta);\n"
                               "  r = alpha*y/k[-1];\n!measurement-variables\n  oy, ok\n!log-variables\n  oy\n!measurement-shocks\n  w\n"
                               "!measurement-equations\n  oy = y*exp(w);\n  ok = 2*c[-1] + 3*log(k[-1]);\n", dict(alpha=0.3, beta=0.95, delta=0.1), False))
    # a transition shock at a lag (known finding placement:shock_lag: the derivative lands in the column of the CURRENT shock)
    out.append(PModel("shock_lag", "!transition-variables\n  x\n!transition-shocks\n  e\n!parameters\n  a\n!transition-equations\n  x = a*x[-1] + e + 0.5*e[-1];\n", dict(a=0.5), True))
    if tier == "thorough":
        out.append(PModel("sqrt_ratio", "!transition-variables\n  x, q\n!transition-shocks\n  e\n!parameters\n  g\n!log-variables\n  q\n!transition-equations\n"
                                        "  x = sqrt(x[-1]*x[-1] + 1)/(1 + q) + g*x[+1] + e;\n  q = q[-1]^0.5 * exp(0.1*x[-2]);\n", dict(g=0.2), False))
    return out


# ------------------------------------------------------------------------------------------------ lifted System
def _lab(s):
    return f"m{-s}" if s < 0 else f"p{s}"


def lifted_system(ir, pm):
    """returns dict(model, system matrices as object arrays, tokens, symbols)"""
    from irispie.fords import systems as fsys
    from irispie.aldi import differentiators as ad, adaptations as adp, maps as amaps
    with contextlib.redirect_stdout(io.StringIO()):
        m = ir.Simultaneous.from_string(pm.source, linear=pm.linear)
    m.assign(**pm.assign)
    inv = m._invariant
    desc = inv.dynamic_descriptor
    min_shift, max_shift = inv._min_shift, inv._max_shift
    ncol = -min_shift + 1 + max_shift
    q2n = m.create_qid_to_name()
    kinds = {q.id: str(q.kind) for q in inv.quantities}
    nq = len(inv.quantities)
    data = np.empty((nq, ncol), dtype=object)
    syms = {}
    pvals = {q.id: m._variants[0].levels.get(q.id) for q in inv.quantities}
    for qid in range(nq):
        for c in range(ncol):
            s = min_shift + c
            if "PARAMETER" in kinds[qid] or "STD" in kinds[qid]:
                v = pvals[qid]
                data[qid, c] = float(v) if v is not None else 1.0
            else:
                nm = f"{q2n[qid]}__{_lab(s)}"
                syms[nm] = S.sym(nm, Fraction(5 + qid, 4) + Fraction(c, 16))
                data[qid, c] = syms[nm]
    proxy = npproxy.Proxy()
    flags = m.get_flags()
    lin_flags = type(flags).from_kwargs(linear=True, flat=flags.is_flat)       # C and H (constants) are not part of the claim
    with npproxy.installed(proxy, fsys, ad, extra=[npproxy.adaptations_patch(proxy)]), S.Path() as path:
        system = fsys.System(desc, data, lin_flags, None, -min_shift)
    sv = desc.system_vectors
    return dict(model=m, system=system, sv=sv, syms=syms, q2n=q2n, min_shift=min_shift, max_shift=max_shift, path=path, data=data,
                logly={q.id: bool(q.logly) for q in inv.quantities}, kinds=kinds)


# ------------------------------------------------------------------------------------------------ oracle
def oracle_derivatives(L, eq_human, names_by_qid):
    """{(name, shift): z3 term} of d(rhs - lhs)/d q[s] (w.r.t. log q[s] for log-variables) from the equation text"""
    m = L["model"]
    n2q = {v: k for k, v in L["q2n"].items()}
    pvals = {L["q2n"][q.id]: m._variants[0].levels.get(q.id) for q in m._invariant.quantities}

    def lookup(name, sh):
        nm = f"{name}__{_lab(sh)}"
        if nm in L["syms"]:
            return L["syms"][nm]
        v = pvals.get(name)
        return S.const(S.float_fraction(float(v))) if v is not None else S.const(1)
    eq = Equation(eq_human)
    res = eq.residual(lookup, numeric=lambda v: v)          # refeval: lhs - rhs
    rt = (S.const(0) - S.const(res)).t                       # irispie's residual is rhs - lhs
    out = {}
    for (name, sh) in set(eq.occurrences()):
        nm = f"{name}__{_lab(sh)}"
        if nm not in L["syms"]:
            continue
        x = L["syms"][nm].t
        d = zdiff(rt, x)
        d = z3.RealVal(d) if isinstance(d, int) else d
        if L["logly"].get(n2q[name]):
            d = d * x
        out[(name, sh)] = d
    return out, rt


def check_model(run, ir, pm):
    from irispie.equations import EquationKind
    key0 = f"placement:{pm.name}"
    case = dict(kind="placement", model=pm.name)
    try:
        L = lifted_system(ir, pm)
    except S.SymbolicBranchError:
        raise
    m, sysm, sv, q2n = L["model"], L["system"], L["sv"], L["q2n"]
    inv = m._invariant
    teqs = [e for e in inv.dynamic_equations if e.kind == EquationKind.TRANSITION_EQUATION]
    meqs = [e for e in inv.dynamic_equations if e.kind == EquationKind.MEASUREMENT_EQUATION]
    xt = [(q2n[t.qid], t.shift) for t in sv.transition_variables]
    ut = [(q2n[t.qid], t.shift) for t in sv.transition_shocks]
    yt = [(q2n[t.qid], t.shift) for t in sv.measurement_variables]
    wt = [(q2n[t.qid], t.shift) for t in sv.measurement_shocks]
    A, B, Dm = (np.asarray(getattr(sysm, n), dtype=object) for n in "ABD")
    F, G, J = (np.asarray(getattr(sysm, n), dtype=object) for n in "FGJ")
    pos = [s.t > 0 for s in L["syms"].values()]
    tvars = [q2n[q.id] for q in inv.quantities if "TRANSITION_VARIABLE" in str(q.kind)]
    shifts = range(L["min_shift"] - 1, L["max_shift"] + 1)

    def total_x(row_A, row_B, name, s):
        tot = S.const(0)
        for j, tok in enumerate(xt):
            if tok == (name, s) and row_A is not None:
                tot = tot + row_A[j]
            if tok == (name, s + 1) and row_B is not None:
                tot = tot + row_B[j]
        return S.const(tot).t

    def decide(key, claims, rt):
        """claims [(label, impl term, oracle term)]"""
        terms = [t for _, a, b in claims for t in (a, b)]
        ax = exp_log_axioms(terms) + pos
        for labl, a, b in claims:
            d = z3.simplify(a - b, som=True)
            if z3.is_rational_value(d) and d.numerator_as_long() == 0:
                res, mdl = run.prove(f"{key}:{labl}", a == b, [], timeout_ms=10000,
                                     sample={"obligation": f"{key}:{labl}", "matrix_entry": str(z3.simplify(a))[:140], "oracle": str(z3.simplify(b))[:140]} if len(run.samples) < 12 and not z3.is_rational_value(z3.simplify(a)) else None)
            else:
                res, mdl = run.prove(f"{key}:{labl}", a == b, ax, timeout_ms=30000, nl=True)
                if res != "unsat":
                    # real powers: unify EXP(c LOG x) atoms through x = W^q and decide the rational identity; only `unsat` is taken from it
                    (a2, b2), dom2 = expo_unify([a, b])
                    if dom2:
                        r2, _m2 = run.prove(f"{key}:{labl}:unified", a2 == b2, exp_log_axioms([a2, b2]) + pos + dom2, timeout_ms=30000, nl=True)
                        if r2 == "unsat":
                            res = "unsat"
            if res == "unsat":
                continue
            if res == "sat":
                vals = model_values(mdl, sorted(L["syms"]))
                run.counterexample(key, f"placement:{pm.name}", f"{labl}: total coefficient {str(z3.simplify(a))[:90]} differs from the true derivative {str(z3.simplify(b))[:90]}",
                                   dict(case, equation=key, label=labl, values={k: [v.numerator, v.denominator] for k, v in vals.items()}))
                return False
            run.unknown(key, f"solver {res} on {labl}")
            return False
        run.ok(key)
        return True
    # transition equations: rows 0..len(teqs)-1 of A, B, D
    for e, eq in enumerate(teqs):
        key = f"{key0}:T{e}"
        der, rt = oracle_derivatives(L, eq.human, q2n)
        claims = []
        for name in tvars:
            for s in shifts:
                claims.append((f"d/d {name}[{s}]", total_x(A[e], B[e], name, s), der.get((name, s), z3.RealVal(0))))
        for k, (name, s) in enumerate(ut):
            claims.append((f"d/d {name}", S.const(Dm[e, k]).t, der.get((name, 0), z3.RealVal(0))))
        if not decide(key, claims, rt):
            return
    # dynamic identities: remaining rows carry no net coefficient on any q[s] and no shock
    for r in range(len(teqs), A.shape[0]):
        key = f"{key0}:identity{r - len(teqs)}"
        claims = [(f"net {name}[{s}]", total_x(A[r], B[r], name, s), z3.RealVal(0)) for name in tvars for s in shifts]
        claims += [(f"shock {k}", S.const(Dm[r, k]).t, z3.RealVal(0)) for k in range(Dm.shape[1])]
        nz = sum(1 for j in range(A.shape[1]) if not _zero(A[r, j])) + sum(1 for j in range(B.shape[1]) if not _zero(B[r, j]))
        if nz != 2:
            run.counterexample(key, f"placement:{pm.name}", f"identity row {r} has {nz} non-zero entries (expected one in A and one in B)", dict(case, equation=key, values={}))
            return
        if not decide(key, claims, None):
            return
    # measurement equations
    for e, eq in enumerate(meqs):
        key = f"{key0}:M{e}"
        der, rt = oracle_derivatives(L, eq.human, q2n)
        claims = []
        for name in tvars:
            for s in shifts:
                claims.append((f"d/d {name}[{s}]", total_x(G[e], None, name, s), der.get((name, s), z3.RealVal(0))))
        for i, (name, s) in enumerate(yt):
            claims.append((f"d/d {name}", S.const(F[e, i]).t, der.get((name, 0), z3.RealVal(0))))
        for k, (name, s) in enumerate(wt):
            claims.append((f"d/d {name}", S.const(J[e, k]).t, der.get((name, 0), z3.RealVal(0))))
        if not decide(key, claims, rt):
            return
    run.reach_ok += 1


def _zero(x):
    if isinstance(x, S.SReal):
        t = z3.simplify(x.t)
        return z3.is_rational_value(t) and t.numerator_as_long() == 0
    return float(x) == 0.0


def run_layers(run):
    ir = load_irispie()
    run.functions_encoded += ["fords.systems.System.__init__ (A, B, D, F, G, J)", "aldi.differentiators.Context.eval / eval_to_arrays on whole parsed equations",
                              "fords.descriptors.Descriptor (system vectors, system map; executed at model creation)", "aldi.maps.ArrayMap placement"]
    run.bounds["placement"] = ("models nk3, ar2m, lead2, mlag (measurement equations reading transition variables at and beyond the deepest transition lag), rbc_m "
                               "(non-linear, log-variables, real power, lead, lagged log-variable in a measurement equation)" +
                               (", sqrt_ratio" if run.tier == "thorough" else "") + "; parameters at fixed values; every variable and shock occurrence a positive real symbol")
    for pm in models(run.tier):
        try:
            check_model(run, ir, pm)
        except S.SymbolicBranchError as exc:
            run.unknown(f"placement:{pm.name}", exc)
        except Exception as exc:
            run.error(f"placement:{pm.name}", exc)


def replay_placement(case):
    """floats: system matrices at the model point against central finite differences of the compiled residual -- used only to confirm a solver model"""
    ir = load_irispie()
    pm = [p for p in models("thorough") if p.name == case["model"]][0]
    from irispie.fords import systems as fsys
    from irispie.equations import EquationKind
    with contextlib.redirect_stdout(io.StringIO()):
        m = ir.Simultaneous.from_string(pm.source, linear=pm.linear)
    m.assign(**pm.assign)
    inv = m._invariant
    desc = inv.dynamic_descriptor
    min_shift, max_shift = inv._min_shift, inv._max_shift
    ncol = -min_shift + 1 + max_shift
    q2n = m.create_qid_to_name()
    vals = {k: float(Fraction(a, b)) for k, (a, b) in case.get("values", {}).items()}
    nq = len(inv.quantities)
    data = np.zeros((nq, ncol))
    for q in inv.quantities:
        for c in range(ncol):
            s = min_shift + c
            if "PARAMETER" in str(q.kind) or "STD" in str(q.kind):
                v = m._variants[0].levels.get(q.id)
                data[q.id, c] = float(v) if v is not None else 1.0
            else:
                data[q.id, c] = vals.get(f"{q2n[q.id]}__{_lab(s)}", 1.25 + 0.25 * q.id + 0.0625 * c)
    flags = m.get_flags()
    lin_flags = type(flags).from_kwargs(linear=True, flat=flags.is_flat)
    system = fsys.System(desc, data, lin_flags, None, -min_shift)
    sv = desc.system_vectors
    xt = [(t.qid, t.shift) for t in sv.transition_variables]
    teqs = [e for e in inv.dynamic_equations if e.kind == EquationKind.TRANSITION_EQUATION]
    meqs = [e for e in inv.dynamic_equations if e.kind == EquationKind.MEASUREMENT_EQUATION]
    T0 = -min_shift
    eqr = inv._plain_dynamic_equator

    def resid(d):
        return np.asarray(eqr.eval(d, T0), dtype=float).reshape(-1)
    logly = {q.id: bool(q.logly) for q in inv.quantities}
    worst, msg = 0.0, "system matrices equal finite differences of the residuals"
    base_ids = [e.id for e in inv.dynamic_equations]
    for q in inv.quantities:
        if "VARIABLE" not in str(q.kind) or "TRANSITION" not in str(q.kind):
            continue
        for s in range(min_shift, max_shift + 1):
            c = T0 + s
            h = 1e-6
            dp, dm = data.copy(), data.copy()
            if logly[q.id]:
                dp[q.id, c] *= math.exp(h); dm[q.id, c] *= math.exp(-h)
            else:
                dp[q.id, c] += h; dm[q.id, c] -= h
            fd = (resid(dp) - resid(dm)) / (2 * h)
            for e, eq in enumerate(teqs):
                tot = sum(system.A[e, j] for j, tok in enumerate(xt) if tok == (q.id, s)) + sum(system.B[e, j] for j, tok in enumerate(xt) if tok == (q.id, s + 1))
                d = abs(tot - fd[base_ids.index(eq.id)])
                if d > worst:
                    worst, msg = d, f"transition equation {e}, {q2n[q.id]}[{s}]: total coefficient {tot!r} vs finite difference {fd[base_ids.index(eq.id)]!r}"
            for e, eq in enumerate(meqs):
                tot = sum(system.G[e, j] for j, tok in enumerate(xt) if tok == (q.id, s))
                d = abs(tot - fd[base_ids.index(eq.id)])
                if d > worst:
                    worst, msg = d, f"measurement equation {e}, {q2n[q.id]}[{s}]: total coefficient {tot!r} vs finite difference {fd[base_ids.index(eq.id)]!r}"
    # shocks: D and J carry the derivative w.r.t. the CURRENT shock; a shock occurring at any other shift has no column at all
    ut = [t.qid for t in sv.transition_shocks]
    wt = [t.qid for t in sv.measurement_shocks]
    for q in inv.quantities:
        if "SHOCK" not in str(q.kind) or "ANTICIPATED" in str(q.kind):
            continue
        for s in range(min_shift, max_shift + 1):
            c = T0 + s
            h = 1e-6
            dp, dm = data.copy(), data.copy()
            dp[q.id, c] += h; dm[q.id, c] -= h
            fd = (resid(dp) - resid(dm)) / (2 * h)
            for eqs, M, cols in ((teqs, system.D, ut), (meqs, system.J, wt)):
                for e, eq in enumerate(eqs):
                    tot = sum(M[e, k] for k, qid in enumerate(cols) if qid == q.id) if s == 0 else 0.0
                    d = abs(tot - fd[base_ids.index(eq.id)])
                    if d > worst:
                        worst, msg = d, (f"equation {eq.human}: derivative w.r.t. {q2n[q.id]}[{s}] is {fd[base_ids.index(eq.id)]!r} but the system carries {tot!r}"
                                         + (" (a shifted shock has no column)" if s != 0 else ""))
    return worst > 1e-5, msg
