"""
C07 -- Simulation plans hit exogenized points exactly; swaps invert a simulation (first-order method).

Simultaneous.simulate(plan=..., method="first_order") runs through the public API; the kernel simulate_frame
(_simulate_conditional, _generate_period_system/_data, _generate_R, _adjust_initials, _store_smooth, _insert_*, and the
real kalmans.predict/smooth underneath) executes on one symbol per initial condition, shock, target value.  Gains depend
only on the concrete model and plan, so LAPACK inv runs concretely; means, targets and shocks are symbolic (affine terms).
"""
from __future__ import annotations

import itertools
import math
from fractions import Fraction

import numpy as np
import z3

from symx import sreal as S
from symx import npproxy, zoo, fo
from symx.concolic import model_values
from symx.series_tools import load_irispie
from symx.report import standard_main
from checks.C01 import lab, _lift_rows, _cell_term, _box, MAXLAG

PID = "C07"
TOL = Fraction(1, 10 ** 8)


LOGLIN = zoo.ZModel(
    "loglin", ("y", "z"), ("ey", "ez"),
    ("log(y) = rho*log(y[-1]) + (1-rho)*log(2) + ey",
     "z = 0.5*z[-1] + 0.3*log(y) + ez"),
    dict(rho=Fraction(4, 5)), linear=False, logvars=("y",), tags=("backward", "logvar"), forward=0)


def _zm(name):
    if name.endswith("_det"):
        # the same model created with deterministic=True (no std parameters): plans must work on it like on any other model
        import copy
        z = copy.copy(zoo.by_name(name[:-4]))
        z.name = name
        return z
    if name.endswith("_std0"):
        # the same model with the std of its first transition shock set to zero: an exactly identified plan does not depend on stds
        import copy
        z = copy.copy(zoo.by_name(name[:-5]))
        z.name = name
        return z
    return LOGLIN if name == "loglin" else zoo.by_name(name)


def _build(ir, zm):
    if zm.name.endswith("_det"):
        m = ir.Simultaneous.from_string(zm.source(), linear=zm.linear, deterministic=True)
        if zm.params:
            m.assign(**zm.float_params())
        m.steady()
        m.solve()
        return m
    if zm.name.endswith("_std0"):
        return fo.build_model(ir, zm, **{"std_" + zm.tshocks[0]: 0.0})
    if zm.name == "loglin":
        import contextlib, io
        with contextlib.redirect_stdout(io.StringIO()):
            return fo.build_model(ir, zm, y=2.0, z=0.4)
    return fo.build_model(ir, zm)


def _ct(zm, name, cell):
    """term of a cell; log-variables are compared in logs (LOG(EXP(affine)) normalises to the affine term)"""
    t = _cell_term(cell)
    if t is None or name not in zm.logvars:
        return t
    return S.mk_log(t)


def _domain(zm, syms):
    out = []
    for n, s in syms.items():
        if n.split("__")[0] in zm.logvars:
            out.append(z3.And(s.t >= Fraction(1, 4), s.t <= 2))        # log-variables: positive data
        else:
            out.append(z3.And(s.t >= -1, s.t <= 1))
    return out


def _log_bounds(terms):
    """LOG is uninterpreted: give every LOG(symbol) the range implied by the symbol's domain [1/4, 2] (ln in [-1.387, 0.694]);
    without it the solver makes LOG(y) astronomically large and float noise in the coefficients (1e-16) exceeds the tolerance"""
    seen, out = set(), []

    def walk(t):
        if t.get_id() in seen:
            return
        seen.add(t.get_id())
        if z3.is_app(t):
            if t.decl().eq(S.LOG) and z3.is_const(t.arg(0)) and t.arg(0).decl().kind() == z3.Z3_OP_UNINTERPRETED:
                out.append(z3.And(t >= Fraction(-7, 5), t <= Fraction(7, 10)))
            for ch in t.children():
                walk(ch)
    for t in terms:
        if t is not None:
            walk(t)
    return out


def _base_db(ir, zm, m, nsim, values=None, zero_later_unant=False):
    """zero_later_unant: False = keep all; True = zero the unanticipated transition shocks after the start; an int K = zero them after period K"""
    zthr = None if zero_later_unant is False else (0 if zero_later_unant is True else int(zero_later_unant))
    start = ir.qq(2020, 1)
    span = start >> (start + nsim - 1)

    def val(n, k, default):
        if values is not None and f"{n}__{lab(k)}" in values:
            return float(values[f"{n}__{lab(k)}"])
        return default
    db = ir.Databox()
    for i, n in enumerate(zm.tvars):
        db[n] = ir.Series(start=start - MAXLAG, values=tuple(val(n, k, 0.25 + 0.0625 * i + 0.03125 * k) for k in range(-MAXLAG, 0)))
    for i, n in enumerate(list(zm.tshocks) + list(zm.mshocks)):
        # zero_later_unant: plans that endogenize anticipated shocks after the start date force split frames, which break at every
        # non-zero unanticipated transition shock; keeping those at zero after the start gives one (Split)frame over the whole span
        db[n] = ir.Series(start=start, values=tuple((0.0 if (zthr is not None and k > zthr and n in zm.tshocks) else val(n, k, 0.125 + 0.03125 * ((i + k) % 3)))
                                                    for k in range(nsim)))
    for i, s in enumerate(zm.tshocks):
        db["ant_" + s] = ir.Series(start=start, values=tuple(val("ant_" + s, k, 0.0625 + 0.03125 * ((i + k) % 2)) for k in range(nsim)))
    return db, span, start


def _apply_plan(ir, m, span, start, db, spec, values=None):
    """spec: dict(mode='u'|'a', targets=[(var,k)], instruments=[(shock,k)]); target values go into the databox"""
    plan = ir.SimulationPlan(m, span)
    mode = spec["mode"]
    for (v, k) in spec["targets"]:
        (plan.exogenize_unanticipated if mode == "u" else plan.exogenize_anticipated)(start + k, v)
        ser = db[v].copy()
        tv = 0.4 + 0.05 * k
        if values is not None and f"{v}__{lab(k)}" in values:
            tv = float(values[f"{v}__{lab(k)}"])
        ser[start + k] = tv
        db[v] = ser
    for (e, k) in spec["instruments"]:
        if mode == "u":
            plan.endogenize_unanticipated(start + k, e)
        else:
            plan.endogenize_anticipated(start + k, "ant_" + e)
    return plan


def _instr_row(spec, e):
    return e if spec["mode"] == "u" else "ant_" + e


def _impact_matrix(ir, zm, m, nsim, spec):
    """concrete pre-filter: d target / d instrument through the ordinary float simulation"""
    db0, span, start = _base_db(ir, zm, m, nsim)
    for n in list(zm.tshocks) + list(zm.mshocks):
        db0[n] = db0[n] * 0
        if "ant_" + n in db0:
            db0["ant_" + n] = db0["ant_" + n] * 0
    base = m.simulate(db0, span, method="first_order", deviation=True)
    M = np.zeros((len(spec["targets"]), len(spec["instruments"])))
    for j, (e, ke) in enumerate(spec["instruments"]):
        dbj = db0.copy()
        ser = dbj[_instr_row(spec, e)].copy()
        ser[start + ke] = 1.0
        dbj[_instr_row(spec, e)] = ser
        o = m.simulate(dbj, span, method="first_order", deviation=True)
        for i, (v, kv) in enumerate(spec["targets"]):
            M[i, j] = float(np.asarray(o[v].get_data(start + kv)).reshape(-1)[0]) - float(np.asarray(base[v].get_data(start + kv)).reshape(-1)[0])
    return M


def _plans(zm, tier):
    V, E = list(zm.tvars), list(zm.tshocks)
    out = []
    if tier == "quick":
        out.append(dict(mode="u", targets=[(V[0], 1)], instruments=[(E[0], 1)]))
        out.append(dict(mode="u", targets=[(V[0], 0), (V[0], 2)], instruments=[(E[0], 0), (E[0], 2)]))
        out.append(dict(mode="a", targets=[(V[0], 2)], instruments=[(E[0], 0)]))
        out.append(dict(mode="a", targets=[(V[0], 0)], instruments=[(E[0], 0)]))
        if len(V) > 1 and len(E) > 1:
            out.append(dict(mode="u", targets=[(V[0], 1), (V[1], 1)], instruments=[(E[0], 1), (E[1], 1)]))
            out.append(dict(mode="a", targets=[(V[0], 1), (V[1], 2)], instruments=[(E[0], 0), (E[1], 0)]))
            # anticipated shocks endogenized at different dates, in shock order and against it
            out.append(dict(mode="a", targets=[(V[0], 1), (V[1], 2)], instruments=[(E[0], 0), (E[1], 1)]))
            out.append(dict(mode="a", targets=[(V[0], 1), (V[1], 2)], instruments=[(E[1], 0), (E[0], 1)]))
        out.append(dict(mode="a", targets=[(V[0], 2)], instruments=[(E[0], 1)]))
        # the same with the later unanticipated shocks kept: the simulation is split into several frames (one per surprise date)
        # (backward-looking models only: with leads, the periods simulated by an earlier frame anticipate that frame's own estimate of the
        # instrument, which the returned databox does not contain, so neither obligation is observable from the output)
        if "backward" in zm.tags:
            out.append(dict(mode="a", targets=[(V[0], 2)], instruments=[(E[0], 1)], multi=True))
            out.append(dict(mode="a", targets=[(V[0], 3)], instruments=[(E[0], 2)], multi=True))
    else:
        for mode in ("u", "a"):
            for (v, kv) in itertools.product(V, range(3)):
                for (e, ke) in itertools.product(E, range(3)):
                    if mode == "a" and ke > kv:
                        continue
                    if mode == "u" and ke > kv:
                        continue
                    out.append(dict(mode=mode, targets=[(v, kv)], instruments=[(e, ke)]))
            tg = list(itertools.product(V[:2], range(3)))
            ins = [(e, k) for e in E for k in range(3)]
            pairs_t = [p for p in itertools.combinations(tg, 2)][::3]
            pairs_i = [p for p in itertools.combinations(ins, 2)]
            for pt_ in pairs_t:
                for pi_ in (pairs_i[:3] if mode == "u" else pairs_i[::2]):
                    out.append(dict(mode=mode, targets=list(pt_), instruments=list(pi_)))
    return out


def _later(spec):
    """anticipated shocks endogenized after the start date (forces split frames).  Returns False, True (unanticipated transition shocks
    zero after the start: one frame) or, for spec['multi'], the last period with an unanticipated shock = the earliest instrument date
    (one frame per surprise date; a surprise between an instrument and its target would make the plan infeasible)"""
    if not (spec["mode"] == "a" and any(k > 0 for _, k in spec["instruments"])):
        return False
    if spec.get("multi"):
        return min(k for _, k in spec["instruments"])
    return True


def _merge_caps(caps):
    """several frames: the final array (later frames overwrite the columns they simulated) on the first frame's inputs"""
    if len(caps) == 1:
        return caps[0]
    cap = dict(caps[0])
    out = np.array(caps[0]["inp"], dtype=object)
    f0 = caps[0].get("frame")
    lo0, hi0 = getattr(f0, "first", 0), getattr(f0, "last", out.shape[1] - 1)
    out[:, lo0:hi0 + 1] = caps[0]["out"][:, lo0:hi0 + 1]
    syms = dict(caps[0]["syms"])
    inp = np.array(caps[0]["inp"], dtype=object)
    for c in caps[1:]:
        lo = getattr(c.get("frame"), "first", 0)
        hi = getattr(c.get("frame"), "last", out.shape[1] - 1)
        out[:, lo:hi + 1] = c["out"][:, lo:hi + 1]
        # the user's input of a frame's own columns is what that frame sees there (earlier frames see later surprises pruned to zero)
        for i in range(inp.shape[0]):
            for j in range(lo, hi + 1):
                if isinstance(inp[i, j], float) and inp[i, j] == 0.0 and isinstance(c["inp"][i, j], S.SReal):
                    inp[i, j] = c["inp"][i, j]
        syms.update(c["syms"])
    cap["out"], cap["syms"], cap["inp"] = out, syms, inp
    return cap


def _where(zm, later):
    if later is False:
        return None
    thr = 0 if later is True else int(later)
    return lambda nm, k: not (nm in zm.tshocks and k > thr)        # pruned / zero unanticipated shocks stay concrete zeros


def _run_plan(ir, zm, m, nsim, spec, override=None, values=None):
    later = _later(spec)
    db, span, start = _base_db(ir, zm, m, nsim, values=values, zero_later_unant=later)
    plan = _apply_plan(ir, m, span, start, db, spec, values=values)
    multi = bool(spec.get("multi"))
    with fo.FirstOrderLift(ir, _lift_rows(zm), override=override, lift_where=_where(zm, later), chain=multi) as L, S.Path() as path:
        try:
            m.simulate(db, span, method="first_order", deviation=True, plan=plan)
        except S.SymbolicBranchError:
            raise
        except Exception as exc:
            raise ApiRaised(f"{type(exc).__name__}: {str(exc)[:160]}") from exc
    if len(L.caps) != 1 and not multi:
        raise RuntimeError(f"{len(L.caps)} frames: multi-frame plans are outside the bound")
    if multi and len(L.caps) < 2:
        raise RuntimeError("a multi-frame structure ran in a single frame")
    return _merge_caps(L.caps), path


class ApiRaised(Exception):
    """the public call under test (Simultaneous.simulate with a plan) raised"""


def _run_plain(ir, zm, m, nsim, override=None, later=False):
    db, span, start = _base_db(ir, zm, m, nsim, zero_later_unant=later)
    with fo.FirstOrderLift(ir, _lift_rows(zm), override=override, lift_where=_where(zm, later)) as L, S.Path() as path:
        m.simulate(db, span, method="first_order", deviation=True)
    return L.caps[0], path


def _within(a, b):
    d = a - b
    return z3.And(d <= TOL, d >= -TOL)


def check_plan(run, ir, zm, m, nsim, spec, idx):
    key = f"plan:{zm.name}:{spec['mode']}:{spec['targets']}<-{spec['instruments']}"
    finding = f"plan:{zm.name}:{spec['mode']}"
    case = dict(kind="plan", model=zm.name, nsim=nsim, spec=spec)
    M = _impact_matrix(ir, zm, m, nsim, spec)
    if np.linalg.matrix_rank(M, tol=1e-9) < M.shape[0] or abs(np.linalg.det(M)) < 1e-6:
        run.extra["singular_patterns_skipped"] = run.extra.get("singular_patterns_skipped", 0) + 1
        return
    cap, path = _run_plan(ir, zm, m, nsim, spec)
    names, out, inp = cap["names"], cap["out"], cap["inp"]
    row = {n: i for i, n in enumerate(names)}
    b0 = cap["base_columns"][0]
    syms = dict(cap["syms"])
    claims = []
    # (1) exogenized cells equal their input symbols
    for (v, k) in spec["targets"]:
        claims.append((f"exogenized:{v}@{k}", _ct(zm, v, out[row[v], b0 + k]), _ct(zm, v, inp[row[v], b0 + k])))
    # (2) every shock cell that is not endogenized is unchanged
    endo = {(_instr_row(spec, e), k) for e, k in spec["instruments"]}
    shock_rows = list(zm.tshocks) + ["ant_" + s for s in zm.tshocks] + list(zm.mshocks)
    for n in shock_rows:
        for k in range(nsim):
            if (n, k) in endo:
                continue
            a, b = _cell_term(out[row[n], b0 + k]), _cell_term(inp[row[n], b0 + k])
            if a is None or b is None:
                if (a is None) != (b is None):
                    run.counterexample(key, finding, f"shock cell {n}@{k} missing on one side", case, replay=False)
                    return
                continue
            claims.append((f"unchanged:{n}@{k}", a, b))
    # (3) the path is an ordinary simulation of the returned shocks (hence satisfies the equations, see C01)
    override = {}
    for n in shock_rows:
        for k in range(nsim):
            c = out[row[n], b0 + k]
            if isinstance(c, S.SReal) or (isinstance(c, float) and not math.isnan(c)):
                override[(n, k)] = c
    cap2, path2 = _run_plain(ir, zm, m, nsim, override=override, later=_later(spec))
    out2 = cap2["out"]
    row2 = {n: i for i, n in enumerate(cap2["names"])}
    for v in list(zm.tvars) + list(zm.mvars):
        for k in range(nsim):
            a, b = _ct(zm, v, out[row[v], b0 + k]), _ct(zm, v, out2[row2[v], cap2["base_columns"][0] + k])
            if a is None or b is None:
                continue
            claims.append((f"resimulated:{v}@{k}", a, b))
    syms.update(cap2["syms"])
    assume = _domain(zm, syms) + [path.condition(), path2.condition()] + _log_bounds([t for _, a, b in claims for t in (a, b)])
    r0, _ = run.check_sat(assume, timeout_ms=30000)
    if r0 != "sat":
        run.unknown(key, f"reachability witness {r0}")
        return
    run.reach_ok += 1
    viol = z3.Or(*[z3.Not(_within(a, b)) for _, a, b in claims])
    r, mdl = run.check_sat(assume + [viol], timeout_ms=120000)
    if r == "unsat":
        if len(run.samples) < 12:
            l0, a0, b0_ = claims[0]
            run.samples.append({"obligation": key, "verdict": "unsat: all claims within 1e-8 for all inputs in the unit box", "claims": len(claims),
                                "example": f"{l0}: {str(z3.simplify(a0 - b0_))[:200]}", "impact_det": float(np.linalg.det(M))})
        run.ok(key)
    elif r == "sat":
        bad = []
        for labl, a, b in claims:
            d = mdl.eval(a - b, model_completion=True)
            fv = Fraction(d.numerator_as_long(), d.denominator_as_long())
            if abs(fv) > TOL:
                bad.append((labl, float(fv)))
        vals = model_values(mdl, sorted(syms))
        run.counterexample(key, finding, f"plan simulation violates {bad[:4]}",
                           dict(case, bad=bad[:6], values={n: [v.numerator, v.denominator] for n, v in vals.items()}))
    else:
        run.unknown(key, f"solver {r}")


def check_swap(run, ir, zm, m, nsim, spec, idx):
    """targets taken from an ordinary simulation; exogenize them and endogenize the same shocks: shocks and path are recovered"""
    key = f"swap:{zm.name}:{spec['mode']}:{spec['targets']}<-{spec['instruments']}"
    finding = f"swap:{zm.name}:{spec['mode']}"
    case = dict(kind="swap", model=zm.name, nsim=nsim, spec=spec)
    M = _impact_matrix(ir, zm, m, nsim, spec)
    if np.linalg.matrix_rank(M, tol=1e-9) < M.shape[0] or abs(np.linalg.det(M)) < 1e-6:
        return
    cap0, path0 = _run_plain(ir, zm, m, nsim, later=_later(spec))
    out0 = cap0["out"]
    row0 = {n: i for i, n in enumerate(cap0["names"])}
    b00 = cap0["base_columns"][0]
    override = {}
    for (v, k) in spec["targets"]:
        override[(v, k)] = out0[row0[v], b00 + k]
    for (e, k) in spec["instruments"]:
        # the input value of an endogenized shock is only a prior mean: make it an unrelated symbol
        override[(_instr_row(spec, e), k)] = S.sym(f"prior_{_instr_row(spec, e)}__{lab(k)}", Fraction(1, 16))
    cap, path = _run_plan(ir, zm, m, nsim, spec, override=override)
    out = cap["out"]
    row = {n: i for i, n in enumerate(cap["names"])}
    b0 = cap["base_columns"][0]
    claims = []
    for (e, k) in spec["instruments"]:
        n = _instr_row(spec, e)
        claims.append((f"recovered_shock:{n}@{k}", _cell_term(out[row[n], b0 + k]), z3.Real(f"{n}__{lab(k)}")))
    for v in list(zm.tvars) + list(zm.mvars):
        for k in range(nsim):
            a, b = _ct(zm, v, out[row[v], b0 + k]), _ct(zm, v, out0[row0[v], b00 + k])
            if a is None or b is None:
                continue
            claims.append((f"recovered_path:{v}@{k}", a, b))
    syms = dict(cap0["syms"]); syms.update(cap["syms"])
    for (e, k) in spec["instruments"]:
        nm = f"prior_{_instr_row(spec, e)}__{lab(k)}"
        syms[nm] = S.sym(nm)
    assume = _domain(zm, syms) + [path0.condition(), path.condition()] + _log_bounds([t for _, a, b in claims for t in (a, b)])
    r0, _ = run.check_sat(assume, timeout_ms=30000)
    if r0 != "sat":
        run.unknown(key, f"reachability witness {r0}")
        return
    run.reach_ok += 1
    viol = z3.Or(*[z3.Not(_within(a, b)) for _, a, b in claims])
    r, mdl = run.check_sat(assume + [viol], timeout_ms=120000)
    if r == "unsat":
        if len(run.samples) < 12:
            run.samples.append({"obligation": key, "verdict": "unsat: endogenized shocks equal the original shock symbols and the whole path is recovered, "
                                "for all shocks, initial conditions and prior means in the unit box", "claims": len(claims)})
        run.ok(key)
    elif r == "sat":
        bad = []
        for labl, a, b in claims:
            d = mdl.eval(a - b, model_completion=True)
            fv = Fraction(d.numerator_as_long(), d.denominator_as_long())
            if abs(fv) > TOL:
                bad.append((labl, float(fv)))
        vals = model_values(mdl, sorted(syms))
        run.counterexample(key, finding, f"swap does not invert the simulation: {bad[:4]}",
                           dict(case, bad=bad[:6], values={n: [v.numerator, v.denominator] for n, v in vals.items()}))
    else:
        run.unknown(key, f"solver {r}")


def main(run):
    ir = load_irispie()
    run.extra["proxy_selftest_checks"] = npproxy.selftest()
    run.functions_encoded += [
        "fords.simulators.{simulate_frame,_simulate_conditional,_generate_period_system,_generate_period_data,_generate_Z,_generate_R,"
        "_adjust_initials,_store_smooth,_insert_exogenized_*,_insert_std_endogenized_*,_create_Z_xi,_simulate_measurement,simulate_flat}",
        "fords.kalmans.{predict,update,smooth,one_step_back,...} as used by the conditional simulator", "fords.shock_simulators",
        "plans.simulation_plans.SimulationPlan.{exogenize_*,endogenize_*,get_registers_as_bool_arrays,check_consistency}",
        "reached through Simultaneous.simulate(plan=..., method='first_order')",
    ]
    run.bounds["structures"] = ("zoo models nk3, ar2m, pc_const, ar2m created with deterministic=True, and loglin (a log-variable; first-order approximation of a non-linear model, compared in logs); span 4 periods; exactly identified plans with <=2 (variable,date) targets and <=2 "
                                "(shock,date) instruments inside the first 3 periods, unanticipated (instrument date <= target date) and anticipated "
                                "(instruments at the start date, or at later dates with no unanticipated transition shock after the start: one frame); "
                                "singular impact matrices skipped and counted; tier="
                                f"{run.tier} enumerates checks/C07._plans exhaustively")
    run.bounds["values"] = "every initial condition, shock (unanticipated, anticipated, measurement), target value and prior mean in [-1,1] (log-variables in [1/4,2]); tolerance 1e-8"
    run.stubs += ["kalmans._INVERSE_FUNCTION['regular'] -> numpy.linalg.inv on the (concrete) innovation covariance: gains depend only on model and plan"]
    run.assumptions += ["cells are mathematical reals; float-born coefficients read exactly", "std rows stay concrete",
                        "equation consistency is decided as 'the plan path equals an ordinary simulation of the returned shocks' (C01 decides ordinary simulations)"]
    run.outside += ["multi-frame plans beyond the two listed structures per model (frames are chained symbolically)",
                    "method='stacked_time' plans (see C06)", "singular or over/under-identified plans", "time-varying stds"]
    models = [_zm(n) for n in (("nk3", "ar2m", "pc_const", "loglin") if run.tier == "thorough" else ("nk3", "ar2m", "loglin"))]
    models.append(_zm("ar2m_det"))
    models.append(_zm("ar2m_std0"))
    nsim = 4
    for zm in models:
        m = _build(ir, zm)
        plans = _plans(zm, run.tier)
        if zm.name.endswith(("_det", "_std0")):
            plans = plans[:3] if run.tier == "quick" else plans
        for idx, spec in enumerate(plans):
            for fn in (check_plan, check_swap):
                try:
                    fn(run, ir, zm, m, nsim, spec, idx)
                except S.SymbolicBranchError as exc:
                    run.unknown(f"{fn.__name__}:{zm.name}:{idx}", exc)
                except ApiRaised as exc:
                    kind = "plan" if fn is check_plan else "swap"
                    run.counterexample(f"{kind}:{zm.name}:{spec['mode']}:{spec['targets']}<-{spec['instruments']}", f"{kind}:{zm.name}:raises",
                                       f"simulate(plan=...) raises {exc}", dict(kind=kind, model=zm.name, nsim=nsim, spec=spec, values={}))
                except Exception as exc:
                    run.error(f"{fn.__name__}:{zm.name}:{idx}", exc)
    run.extra["exhaustive"] = True


def replay(case):
    ir = load_irispie()
    zm = _zm(case["model"])
    m = _build(ir, zm)
    nsim, spec = case["nsim"], case["spec"]
    spec = dict(mode=spec["mode"], targets=[tuple(t) for t in spec["targets"]], instruments=[tuple(t) for t in spec["instruments"]])
    vals = {k: float(Fraction(a, b)) for k, (a, b) in case.get("values", {}).items()}
    db, span, start = _base_db(ir, zm, m, nsim, values=vals, zero_later_unant=_later(spec))
    shock_rows = list(zm.tshocks) + ["ant_" + s for s in zm.tshocks] + list(zm.mshocks)

    def cell(box, n, k):
        if n not in box:
            return 0.0
        v = float(np.asarray(box[n].get_data(start + k)).reshape(-1)[0])
        return v
    worst, msg = 0.0, "all claims hold"

    def cmp(label, a, b):
        nonlocal worst, msg
        if math.isnan(a) and math.isnan(b):
            return
        a = 0.0 if math.isnan(a) else a
        b = 0.0 if math.isnan(b) else b
        if abs(a - b) > worst:
            worst, msg = abs(a - b), f"{label}: {a!r} vs {b!r}"
    if case["kind"] == "plan":
        dbp = db.copy()
        plan = _apply_plan(ir, m, span, start, dbp, spec, values=vals)
        try:
            out = m.simulate(dbp, span, method="first_order", deviation=True, plan=plan)
        except Exception as exc:
            return True, f"simulate(plan=...) raises {type(exc).__name__}: {str(exc)[:160]}"
        for (v, k) in spec["targets"]:
            cmp(f"exogenized:{v}@{k}", cell(out, v, k), cell(dbp, v, k))
        endo = {(_instr_row(spec, e), k) for e, k in spec["instruments"]}
        for n in shock_rows:
            for k in range(nsim):
                if (n, k) not in endo:
                    cmp(f"unchanged:{n}@{k}", cell(out, n, k), cell(dbp, n, k))
        db2 = db.copy()
        for n in shock_rows:
            if n in out:
                db2[n] = out[n](span)
        out2 = m.simulate(db2, span, method="first_order", deviation=True)
        for v in list(zm.tvars) + list(zm.mvars):
            for k in range(nsim):
                cmp(f"resimulated:{v}@{k}", cell(out, v, k), cell(out2, v, k))
    else:
        out0 = m.simulate(db, span, method="first_order", deviation=True)
        dbp = db.copy()
        plan = ir.SimulationPlan(m, span)
        for (v, k) in spec["targets"]:
            (plan.exogenize_unanticipated if spec["mode"] == "u" else plan.exogenize_anticipated)(start + k, v)
            ser = dbp[v].copy(); ser[start + k] = cell(out0, v, k); dbp[v] = ser
        for (e, k) in spec["instruments"]:
            n = _instr_row(spec, e)
            (plan.endogenize_unanticipated if spec["mode"] == "u" else plan.endogenize_anticipated)(start + k, n)
            ser = dbp[n].copy(); ser[start + k] = vals.get(f"prior_{n}__{lab(k)}", 0.0625); dbp[n] = ser
        try:
            out = m.simulate(dbp, span, method="first_order", deviation=True, plan=plan)
        except Exception as exc:
            return True, f"simulate(plan=...) raises {type(exc).__name__}: {str(exc)[:160]}"
        for (e, k) in spec["instruments"]:
            n = _instr_row(spec, e)
            cmp(f"recovered_shock:{n}@{k}", cell(out, n, k), cell(db, n, k))
        for v in list(zm.tvars) + list(zm.mvars):
            for k in range(nsim):
                cmp(f"recovered_path:{v}@{k}", cell(out, v, k), cell(out0, v, k))
    return worst > 1e-6, msg


if __name__ == "__main__":
    standard_main(PID, main, replay)
