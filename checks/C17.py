"""
C17 -- Sequential-model simulation makes every equation hold, also when exogenized.

Sequential.simulate is called through the public API; the kernel entry
sequentials._simulate._SIMULATION_METHOD_DISPATCH["sequential"] (= _simulate_v) is wrapped so that the float
data array irispie built is replaced by one symbol per non-missing cell; the unmodified kernel
(_simulate_v, _detect_exogenized, Explanatory.simulate/exogenize, the generated eval_level/eval_residual
functions, PlanTransform*.eval_exogenized) then runs on symbols.  z3 decides, per equation and period, that
the equation AS WRITTEN IN THE SOURCE holds on the output (source-level oracle: symx/refeval.py).
"""
from __future__ import annotations

import itertools
import os
import math
from fractions import Fraction

import numpy as np
import z3

from symx import sreal as S
from symx import npproxy
from symx.gmath import EXPF
from symx.lift import lift_matrix, exp_log_axioms, same_cell, CutStore, cut_array, prove_by_unfolding, unfold, div_domain
from symx.refeval import Equation
from symx.series_tools import load_irispie
from symx.concolic import model_values, explore
from symx.report import standard_main

PID = "C17"

TRANSFORMS = ("none", "log", "diff", "diff_log", "roc", "pct")


def _lhs(T, v):
    return v if T == "none" else f"{T}({v})"


def _lhs_name(src):
    """name of the left-hand variable of an equation as written (x, log(x), diff_log(x), ...)"""
    import re
    return re.match(r"\s*(?:\w+\()?(\w+)\)?\s*=", src).group(1)


def model_source(template, T1, T2):
    if template in ("As", "Ar"):
        # template A written in an order in which it cannot be solved sequentially (z, x, w): the model is reordered
        # after construction, by Sequential.sequentialize() (As) or reorder_equations((1, 0, 2)) (Ar); the w equation
        # keeps its position while the names it refers to change rows
        src, eqs = model_source("A", T1, T2)
        eqs = [eqs[1], eqs[0], eqs[2]]
        return "!equations\n" + "".join(f"    {e};\n" for e in eqs) + "!parameters\n    a, b\n", eqs
    if template == "N":     # no lag anywhere in the model: only a plan transform reads the period before the span
        eqs = [f"{_lhs(T1, 'x')} = a*y + b",
               f"{_lhs(T2, 'z')} = x*b + 0.25*y",
               "w === x + z"]
    elif template == "A":
        eqs = [f"{_lhs(T1, 'x')} = a*x[-1] + b*y + 0.5*x[-2]",
               f"{_lhs(T2, 'z')} = b + 0.1*x + z[-1]",
               "w === x + z[-1]"]
    elif template == "B":   # x reads the lagged LHS of a later equation: only dates_equations is a valid order
        eqs = [f"{_lhs(T1, 'x')} = a*z[-1] + y",
               f"{_lhs(T2, 'z')} = x*b + 0.25*z[-2]",
               "w === x - z"]
    else:
        raise ValueError(template)
    src = "!equations\n" + "".join(f"    {e};\n" for e in eqs) + "!parameters\n    a, b\n"
    return src, eqs


def _valid_orders(template):
    return ("dates_equations", "equations_dates") if template in ("A", "As", "Ar", "N") else ("dates_equations",)


def _implied(ptrans, lookup_in, lookup_out, name, c, shift=-1):
    """value an exogenized LHS must take (documented meaning of each plan transform; `shift` = the lag the transform refers to)"""
    if ptrans in (None, "none"):
        return lookup_in(name, c)
    d = lookup_in(f"{ptrans}_{name}", c)
    prev = lookup_out(name, c + shift)
    if ptrans == "log":
        return EXPF(d)
    if ptrans == "diff":
        return prev + d
    if ptrans == "diff_log":
        return prev * EXPF(d)
    if ptrans == "roc":
        return prev * d
    if ptrans == "pct":
        return prev * (1 + d / 100)
    raise ValueError(ptrans)


_LAG_PLAN_TRANSFORMS = ("diff", "diff_log", "roc", "pct")


def _nlag(template, plan_spec):
    """number of pre-sample columns the dataslate must have: the model's longest lag or the lag a plan transform reads"""
    if template != "N":
        return 2
    return 1 if any(p[2] in _LAG_PLAN_TRANSFORMS for p in (plan_spec or ())) else 0


class ApiRaised(Exception):
    """the public call under test (Sequential.simulate) raised"""


def _build(ir, template, T1, T2, nper, plan_spec, values=None):
    """model, databox, span, plan for one structure; all data concrete floats (lifted later)"""
    src, eqs = model_source(template, T1, T2)
    m = ir.Sequential.from_string(src)
    if template == "As":
        m.sequentialize()
    elif template == "Ar":
        m.reorder_equations((1, 0, 2))
    pa = 0.3 if values is None else values.get("a", 0.3)
    pb = 1.25 if values is None else values.get("b", 1.25)
    m.assign(a=pa, b=pb)
    start = ir.qq(2020, 1)
    span = start >> (start + nper - 1)
    nlag = _nlag(template, plan_spec)
    first = start - nlag       # = first column of the dataslate: databox index j == slate column j
    ncol = nper + nlag
    db = ir.Databox()
    def series(name, fill, miss=()):
        vals = []
        for j in range(ncol):
            if j in miss:
                vals.append(float("nan"))
            elif values is not None and f"{name}__{j}" in values:
                vals.append(values[f"{name}__{j}"])
            else:
                vals.append(fill + 0.125 * j)
        return ir.Series(start=first, values=tuple(vals))
    for i, n in enumerate(("x", "y", "z", "w")):
        db[n] = series(n, 1.5 + 0.25 * i)
    for n in ("res_x", "res_z"):
        db[n] = series(n, 0.0625)
    plan = None
    if plan_spec is not None:
        plan = ir.SimulationPlan(m, span)
        for (name, k, ptrans, when_data, have_data, *_sh) in plan_spec:
            kw = {}
            if ptrans not in (None, "none"):
                kw["transform"] = ptrans
            if when_data:
                kw["when_data"] = True
            if _sh:
                kw["shift"] = _sh[0]          # the lag the transform refers to (default -1)
            plan.exogenize(start + k, name, **kw)
            dname = name if ptrans in (None, "none") else f"{ptrans}_{name}"
            col = nlag + k
            if dname not in db:
                db[dname] = series(dname, 1.125, miss=() if have_data else (col,))
            elif not have_data:
                s = db[dname]
                s[start + k] = float("nan")
    return m, db, span, plan, eqs


def _lifted_run(ir, ss, m, db, span, plan, order, values=None):
    cap = {}
    real = ss._SIMULATION_METHOD_DISPATCH["sequential"]

    def lifted(model_v, ds, plan_, vid, **kw):
        var = ds._variants[0]
        data = var.data
        names = tuple(ds.names)
        obj, syms = lift_matrix(data, names, constant_rows=("a", "b"), values=values)
        store = CutStore()
        var.data = cut_array(obj, store)
        cap.update(names=names, inp=obj.copy(), syms=syms, base_columns=tuple(ds.base_columns), periods=tuple(ds.periods), store=store)
        try:
            out = real(model_v, ds, plan_, vid, **kw)
            cap["out"] = np.array(var.data, dtype=object)
        finally:
            var.data = data
        return out
    ss._SIMULATION_METHOD_DISPATCH["sequential"] = lifted
    try:
        m.simulate(db, span, plan=plan, execution_order=order, when_simulates_nan="silent")
    except S.SymbolicBranchError:
        raise
    except Exception as exc:
        raise ApiRaised(f"{type(exc).__name__}: {str(exc)[:160]}") from exc
    finally:
        ss._SIMULATION_METHOD_DISPATCH["sequential"] = real
    return cap


def _obligations(cap, eqs, plan_spec, nper):
    """list of (label, impl term, oracle term) over the captured symbolic output"""
    names, out, inp = cap["names"], cap["out"], cap["inp"]
    row = {n: i for i, n in enumerate(names)}
    claims = []
    exo = {}
    for (name, k, ptrans, when_data, have_data, *_sh) in (plan_spec or ()):
        if when_data and not have_data:
            continue       # no data: the point is simulated normally
        exo[(name, k)] = (ptrans, _sh[0] if _sh else -1)
    base = cap["base_columns"]
    lhs_names = tuple(_lhs_name(e) for e in eqs)
    for bi, c in enumerate(base):
        lo = lambda n, sh, c=c: out[row[n], c + sh]
        for e_i, src in enumerate(eqs):
            lhs_name = lhs_names[e_i]
            if "===" in src:
                eq = Equation(src.replace("===", "="))
            else:
                eq = Equation(src + f" + res_{lhs_name}")
            l, r = eq.sides(lo, numeric=lambda v: v)
            claims.append((f"eq{e_i}@{bi}", l, r))
            if "===" in src:
                continue
            res = f"res_{lhs_name}"
            if (lhs_name, bi) in exo:
                imp = _implied(exo[(lhs_name, bi)][0], lambda n, cc: inp[row[n], cc], lambda n, cc: out[row[n], cc], lhs_name, c, shift=exo[(lhs_name, bi)][1])
                claims.append((f"exogenized:{lhs_name}@{bi}", out[row[lhs_name], c], imp))
            else:
                claims.append((f"residual_unchanged:{res}@{bi}", out[row[res], c], inp[row[res], c]))
    # everything that is not a simulated LHS / a residual in a base column is left untouched
    touched = {(row[n], c) for n in lhs_names for c in base} | {(row[f"res_{n}"], c) for n in ("x", "z") for c in base}
    for i in range(out.shape[0]):
        for j in range(out.shape[1]):
            if (i, j) in touched:
                continue
            claims.append((f"untouched:{names[i]}@{j}", out[i, j], inp[i, j]))
    return claims


def _free_cells(plan_spec, base0):
    """symbols of exogenized data points: unrestricted reals (so that an implied value of exactly 0 is reachable)"""
    out = set()
    for (name, k, ptrans, when_data, have_data, *_sh) in (plan_spec or ()):
        dname = name if ptrans in (None, "none") else f"{ptrans}_{name}"
        out.add(f"{dname}__{base0 + k}")
    return out


def _domain(syms, plan_spec, base0=2):
    free = _free_cells(plan_spec, base0)
    return [s.t > 0 for n, s in syms.items() if n not in free]


def _decide(run, key, cap, claims, case, finding, path=None, plan_spec=None):
    syms = cap["syms"]
    names = sorted(syms)
    pos = _domain(syms, plan_spec, cap["base_columns"][0]) + ([unfold(cap["store"], path.condition(), transitive=True)] if path is not None else [])
    eqs, n_sym = [], 0
    terms = []
    for label, impl, orc in claims:
        sc = same_cell(impl, orc)
        if sc is True:
            continue
        if sc is False:
            run.counterexample(key, finding, f"{label}: {str(impl)[:80]} vs {str(orc)[:80]} (one side missing / concrete mismatch)",
                               dict(case, values={}))
            return
        it, ot = S.const(impl).t, S.const(orc).t
        terms += [it, ot]
        eqs.append((label, it == ot, exp_log_axioms([it, ot])))
        n_sym += 1
    if not n_sym:
        run.unknown(key, "no symbolic cell reached the assertion")
        return
    assume = pos + exp_log_axioms(terms)
    r0, _ = run.check_sat(assume, timeout_ms=20000)
    if r0 != "sat":
        run.unknown(key, f"reachability witness {r0}")
        return
    run.reach_ok += 1
    bad, mdl_bad = [], None
    store = cap["store"]
    for i, (lab, e, ax) in enumerate(eqs):
        r, mdl, steps = prove_by_unfolding(run, f"{key}:{lab}", e, store, pos, lambda ts: exp_log_axioms(ts) + div_domain(ts),
                                           sample={"structure": case, "obligation": lab} if i == 0 else None)
        run.extra["unfolding_steps_max"] = max(run.extra.get("unfolding_steps_max", 0), steps)
        if steps > 1 and os.environ.get("C17_DEBUG"):
            print("STEPS", steps, key, lab, str(e)[:200])
        if r == "unsat":
            continue
        if r == "sat":
            bad.append(lab)
            mdl_bad = mdl_bad or mdl
            if len(bad) >= 3:
                break
            continue
        run.unknown(key, f"solver {r} on {lab}")
        return
    if not bad:
        run.ok(key)
        return
    vals = model_values(mdl_bad, names)
    run.counterexample(key, finding, f"violated on the lifted output: {bad[:4]}",
                       dict(case, bad=bad[:6], values={n: [v.numerator, v.denominator] for n, v in vals.items()}))


def _structures(tier):
    if tier == "quick":
        pairs = [(t, "none") for t in TRANSFORMS] + [("none", t) for t in TRANSFORMS[1:]] + [("diff_log", "pct"), ("roc", "log")]
        for T1, T2 in pairs:
            yield ("A", T1, T2, 2)
        for T1, T2 in (("none", "none"), ("diff_log", "diff"), ("pct", "roc")):
            yield ("B", T1, T2, 2)
        yield ("A", "diff", "log", 3)
        yield ("A", "log", "diff_log", 1)
        for T1, T2 in (("none", "none"), ("log", "none"), ("none", "log")):
            yield ("N", T1, T2, 2)
        for T1, T2 in (("none", "none"), ("diff_log", "pct"), ("log", "diff")):
            yield ("As", T1, T2, 2)
            yield ("Ar", T1, T2, 2)
    else:
        for T1, T2 in itertools.product(TRANSFORMS, TRANSFORMS):
            for tpl in ("A", "B"):
                for nper in (1, 2, 3):
                    yield (tpl, T1, T2, nper)
            for tpl in ("As", "Ar"):
                yield (tpl, T1, T2, 2)
            if T1 in ("none", "log") and T2 in ("none", "log"):
                for nper in (1, 2):
                    yield ("N", T1, T2, nper)


def _plans(tier, T1, T2, nper, idx, tpl="A"):
    """plan specs: tuples (lhs name, period index, plan transform, when_data, data present)"""
    yield None
    k = nper - 1
    if tpl in ("A", "B") and (tier != "quick" or idx % 4 == 0):
        # a plan transform referring to the value TWO periods back (shift=-2; the model's own lags provide the pre-sample)
        for pt in (("diff_log", "pct") if tier == "quick" else _LAG_PLAN_TRANSFORMS):
            yield (("x", k, pt, False, True, -2),)
    if tpl == "N":
        # lag-reading plan transforms in the first simulated period of a model that has no lag of its own
        lagged = _LAG_PLAN_TRANSFORMS if tier != "quick" else (_LAG_PLAN_TRANSFORMS[idx % 4],)
        for pt in lagged:
            yield (("x", 0, pt, False, True),)
        yield (("z", 0, "pct", True, True), ("x", k, "roc", False, True))
        yield (("x", k, "log", False, True),)
        if tier != "quick":
            yield (("z", 0, "diff", True, False), ("x", 0, "none", False, True))
        return
    if tier == "quick":
        pt = TRANSFORMS[idx % 6]
        yield (("x", k, pt, False, True),)
        yield (("z", 0, TRANSFORMS[(idx + 2) % 6], True, True), ("x", k, TRANSFORMS[(idx + 3) % 6], True, False))
    else:
        for pt in TRANSFORMS:
            yield (("x", k, pt, False, True),)
            yield (("z", 0, pt, True, True),)
        yield (("x", 0, "none", True, False), ("z", k, "diff", False, True))
        yield (("x", k, "pct", True, False),)
        if nper >= 2:
            yield (("x", 0, "roc", False, True), ("x", 1, "diff_log", False, True), ("z", 1, "log", False, True))


def main(run):
    ir = load_irispie()
    from irispie.sequentials import _simulate as ss
    from irispie.explanatories import main as em
    from irispie.plans import transforms as pt
    run.extra["proxy_selftest_checks"] = npproxy.selftest()
    proxy = npproxy.Proxy(object_alloc=False)
    run.functions_encoded += [
        "sequentials._simulate.{_simulate_v,_detect_exogenized,_get_transform,_iter_dates_equations,_iter_equations_dates}",
        "explanatories.main.Explanatory.{simulate,exogenize,eval_level,eval_residual (generated from the parsed equation)}",
        "explanatories._transforms.LhsTransform*.create_eval_level_str (through the generated functions)",
        "plans.transforms.PlanTransform{None,Log,Diff,DiffLog,Roc,Pct}.eval_exogenized", "plans.simulation_plans.SimulationPlan.get_exogenized_point",
        "reached through the public Sequential.from_string / Sequential.simulate",
    ]
    run.bounds["structures"] = ("model templates A, B and A reordered after construction (written as z, x, w and put in order by "
                                "Sequential.sequentialize() (As) or reorder_equations((1, 0, 2)) (Ar)) (3 equations: two behavioural with LHS transforms T1,T2 in {none,log,diff,diff_log,roc,pct}, "
                                "own lags <=2, cross references, 2 parameters; one identity); span 1..3 periods; plans: none / exogenize x or z at one "
                                "or more dates with each plan transform, when_data with and without data; execution orders that compute every value "
                                f"before it is read; tier={run.tier} enumerates checks/C17._structures x _plans exhaustively")
    run.bounds["values"] = "every input cell (variables, residuals, exogenized data, lags) an independent positive real; each parameter one positive real"
    run.assumptions += ["cells are mathematical reals; float rounding outside the claim",
                        "LOG/EXP uninterpreted with normalising constructors; EXP(.)>0 asserted for occurring applications",
                        "all lifted inputs positive (so every log the model takes is defined) except the exogenized data points, which are unrestricted reals",
                        "every non-constant denominator occurring in a claim is non-zero (domain of the equation as written)", "where the kernel branches on data every feasible path is enumerated (DART) and decided under its path condition",
                        "cut points: each value written by the kernel is a fresh symbol with a recorded definition; a claim is first decided "
                        "with only the definitions of the symbols it mentions (earlier cells arbitrary: an inductive step), then exactly"]
    run.outside += ["models with more than 3 equations or lags > 2", "multiple variants", "user context functions in equations"]
    with npproxy.installed(proxy, ss, em, pt):
        for idx, (tpl, T1, T2, nper) in enumerate(_structures(run.tier)):
            for pi, plan_spec in enumerate(_plans(run.tier, T1, T2, nper, idx, tpl)):
                for order in _valid_orders(tpl):
                    key = f"{tpl}:{T1}/{T2}:n{nper}:plan{pi}:{order}"
                    case = dict(template=tpl, T1=T1, T2=T2, nper=nper, plan=plan_spec, order=order)
                    try:
                        m, db, span, plan, eqs = _build(ir, tpl, T1, T2, nper, plan_spec)
                        with S.Path() as p0:
                            cap0 = _lifted_run(ir, ss, m, db, span, plan, order)
                        if "out" not in cap0:
                            run.unknown(key, "kernel entry was not reached")
                            continue
                        ptkey = "none" if plan_spec is None else "+".join(str(p[2]) for p in plan_spec)
                        finding = f"sequential:{T1}/{T2}:plan={ptkey}"
                        if not p0.conds:
                            # no branch on data: one path covers all values
                            claims = _obligations(cap0, eqs, plan_spec, nper)
                            _decide(run, key, cap0, claims, case, finding, plan_spec=plan_spec)
                            run.paths += 1
                        else:
                            # the kernel branches on data: enumerate every feasible path (DART) and decide each one
                            names = sorted(cap0["syms"])
                            init = {n: (cap0["syms"][n].v if cap0["syms"][n].v is not None else Fraction(1)) for n in names}

                            def runner(values):
                                return _lifted_run(ir, ss, m, db, span, plan, order, values={k_: float(v) for k_, v in values.items()})
                            results, exhausted = explore(names, runner, domain=_domain(cap0["syms"], plan_spec, cap0["base_columns"][0]), init=init, max_paths=32, stats=run.q,
                                                         cond_of=lambda pth, cp: unfold(cp["store"], pth.condition(), transitive=True), axioms_fn=exp_log_axioms)
                            run.paths += len(results)
                            if not exhausted:
                                run.unknown(key, f"path exploration not exhausted after {len(results)} paths")
                                continue
                            sub = f"{key}"
                            before = dict(run.obligations)
                            for pi, (path, cap, values) in enumerate(results):
                                claims = _obligations(cap, eqs, plan_spec, nper)
                                _decide(run, key, cap, claims, dict(case, path=pi), finding, path=path, plan_spec=plan_spec)
                                if run.obligations.get(key) != "discharged":
                                    break
                    except S.SymbolicBranchError as exc:
                        run.unknown(key, exc)
                    except ApiRaised as exc:
                        ptkey = "none" if plan_spec is None else "+".join(str(p[2]) for p in plan_spec)
                        run.counterexample(key, f"sequential:{tpl}:simulate_raises:plan={ptkey}", f"Sequential.simulate raises {exc}", dict(case, values={}))
                    except Exception as exc:
                        run.error(key, exc)
    run.extra["exhaustive"] = True


# ------------------------------------------------------------------------------------------
def replay(case):
    ir = load_irispie()
    vals = {k: float(Fraction(a, b)) for k, (a, b) in case.get("values", {}).items()}
    plan_spec = case["plan"]
    if plan_spec is not None:
        plan_spec = tuple(tuple(p) for p in plan_spec)
    m, db, span, plan, eqs = _build(ir, case["template"], case["T1"], case["T2"], case["nper"], plan_spec, values=vals or None)
    with np.errstate(all="ignore"):
        try:
            out = m.simulate(db, span, plan=plan, execution_order=case["order"], when_simulates_nan="silent")
        except Exception as exc:
            return True, f"Sequential.simulate raises {type(exc).__name__}: {str(exc)[:160]}"
    start = span.start
    nlag = _nlag(case["template"], plan_spec)
    first = start - nlag
    ncol = case["nper"] + nlag
    params = m.get_parameters() if hasattr(m, "get_parameters") else {}

    def getter(box):
        def get(n, c):
            if n in ("a", "b"):
                return vals.get(n, 0.3 if n == "a" else 1.25)
            s = box[n]
            v = s.get_data(first + c)
            return float(np.asarray(v).reshape(-1)[0])
        return get
    gin, gout = getter(db), getter(out)
    names = [n for n in ("x", "y", "z", "w", "res_x", "res_z")]
    cap = dict(names=tuple(names) + ("a", "b"), base_columns=tuple(range(nlag, ncol)))
    # float twin of _obligations
    exo = {}
    for (name, k, ptrans, when_data, have_data, *_sh) in (plan_spec or ()):
        if when_data and not have_data:
            continue
        exo[(name, k)] = (ptrans, _sh[0] if _sh else -1)
    worst, msg = 0.0, "all obligations hold"
    lhs_names = tuple(_lhs_name(e) for e in eqs)

    def cmp(label, a, b):
        nonlocal worst, msg
        if (isinstance(a, float) and math.isnan(a)) and (isinstance(b, float) and math.isnan(b)):
            return
        err = abs(a - b) / (1 + abs(b)) if (math.isfinite(a) and math.isfinite(b)) else (0.0 if a == b else float("inf"))
        if err > worst:
            worst, msg = err, f"{label}: {a!r} vs {b!r}"
    with np.errstate(all="ignore"):
        for bi, c in enumerate(cap["base_columns"]):
            lo = lambda n, sh, c=c: gout(n, c + sh)
            for e_i, src in enumerate(eqs):
                lhs_name = lhs_names[e_i]
                eq = Equation(src.replace("===", "=")) if "===" in src else Equation(src + f" + res_{lhs_name}")
                try:
                    l, r = eq.sides(lo)
                except (ValueError, ZeroDivisionError, OverflowError):
                    continue
                cmp(f"eq{e_i}@{bi}", l, r)
                if "===" in src:
                    continue
                if (lhs_name, bi) in exo:
                    try:
                        imp = _implied(exo[(lhs_name, bi)][0], gin, gout, lhs_name, c, shift=exo[(lhs_name, bi)][1])
                    except (ValueError, OverflowError):
                        continue
                    cmp(f"exogenized:{lhs_name}@{bi}", gout(lhs_name, c), imp)
                else:
                    cmp(f"residual_unchanged:res_{lhs_name}@{bi}", gout(f"res_{lhs_name}", c), gin(f"res_{lhs_name}", c))
        for n in ("y",):
            for c in range(ncol):
                cmp(f"untouched:{n}@{c}", gout(n, c), gin(n, c))
    return worst > 1e-9, msg


if __name__ == "__main__":
    standard_main(PID, main, replay)
