"""
C10 -- A Series is a period-indexed map: reads, writes, alignment, trim, isolation.

SX "cell tagging": Series with object data and a DISTINCT symbol in every cell run through the real series/main.py,
_indexing.py, _functionalize.py (and representative functions of _temporal/_moving/_elementwise/_filling); the oracle is map
semantics on dictionaries (serial, variant) -> term written here.  Because tags are distinct variables, "output term ==
oracle term for all values" <=> the right cell landed in the right place; start/end must be the hull of the non-missing
cells.  Structure (frequency, offsets, lengths, variants, masks, operation arguments) is enumerated, values are symbolic.
XH: the pure-Python index kernel series.main._get_date_positions on symbolic serials (CrossHair).
"""
from __future__ import annotations

import itertools
import math
import os
from fractions import Fraction

import numpy as np
import z3

from symx import sreal as S
from symx.gmath import LOGF, EXPF
from symx import npproxy, xhrun
from symx.series_tools import load_irispie, series_modules, tagged, float_series, cellmap, none_is_nan_patch
from symx.concolic import model_values
from symx.report import standard_main, VERIF

PID = "C10"
HARNESS = os.path.join(VERIF, "xh", "C10_harness.py")


def _P(ir, fr, serial):
    from irispie import dates as D
    return (D.QuarterlyPeriod if fr == "Q" else D.IntegerPeriod)(serial)


BASE = {"Q": 8080, "I": 10}


class Cfg:
    """one tagged series: offset of its first row from BASE, rows, variants, missing rows (whole-row or (row, variant))"""

    def __init__(self, off, n, nvar=1, miss=(), prefix="x"):
        self.off, self.n, self.nvar, self.miss, self.prefix = off, n, nvar, tuple(miss), prefix

    def key(self):
        return f"{self.prefix}(off={self.off},n={self.n},v={self.nvar},miss={list(self.miss)})"

    def make(self, ir, fr, values=None):
        return tagged(ir, _P(ir, fr, BASE[fr] + self.off), self.n, self.nvar, self.miss, self.prefix, values=values)

    def make_float(self, ir, fr, values):
        return float_series(ir, _P(ir, fr, BASE[fr] + self.off), self.n, self.nvar, self.miss, self.prefix, values)

    def as_json(self):
        return dict(off=self.off, n=self.n, nvar=self.nvar, miss=[list(m) if isinstance(m, tuple) else m for m in self.miss], prefix=self.prefix)

    @staticmethod
    def from_json(d):
        return Cfg(d["off"], d["n"], d["nvar"], tuple(tuple(m) if isinstance(m, list) else m for m in d["miss"]), d["prefix"])


def hull(cells):
    if not cells:
        return None, None
    ss = [s for s, _ in cells]
    return min(ss), max(ss)


# ---- scipy.signal.lfiltic / lfilter (compiled) stubbed by their documented contract for b = (1,): an all-pole recursion
#      a[0] y[n] = x[n] - a[1] y[n-1] - ... - a[p] y[n-p], with the past outputs y[-1], y[-2], ... given MOST RECENT FIRST to lfiltic
class _PastOutputs:
    def __init__(self, past):
        self.past = list(past)


def _stub_lfiltic(b, a, y, x=None):
    if tuple(b) != (1,) or x is not None:
        raise NotImplementedError("stub covers b = (1,) without past inputs")
    return _PastOutputs(np.asarray(y, dtype=object).reshape(-1))


def _stub_lfilter(b, a, x, zi=None, axis=0):
    if tuple(b) != (1,) or not isinstance(zi, _PastOutputs):
        raise NotImplementedError("stub covers b = (1,) with initial conditions from lfiltic")
    xs = list(np.asarray(x, dtype=object).reshape(-1))
    out = []
    for n_ in range(len(xs)):
        acc = xs[n_]
        for k_ in range(1, len(a)):
            j = n_ - k_
            prev = out[j] if j >= 0 else (zi.past[-j - 1] if -j - 1 < len(zi.past) else 0)
            acc = acc - a[k_] * prev
        out.append(acc / a[0] if a[0] != 1 else acc)
    return np.array(out, dtype=object), None


def _signal_stub_selftest():
    """the stub against the real scipy.signal on floats (orders 1..3, with and without intercept)"""
    import scipy.signal as sg
    rng = np.random.default_rng(1)
    n_checked = 0
    for order in (1, 2, 3):
        for _ in range(5):
            a = (1.0,) + tuple(-rng.uniform(-0.5, 0.5, order))
            past = rng.normal(size=order)
            x = np.full(6, rng.normal())
            want, _z = sg.lfilter((1,), a, x, zi=sg.lfiltic((1,), a, past))
            got, _z2 = _stub_lfilter((1,), a, x, zi=_stub_lfiltic((1,), a, past))
            if np.abs(np.asarray(got, dtype=float) - want).max() > 1e-12:
                raise AssertionError("scipy.signal stub disagrees with scipy.signal")
            n_checked += 1
    return n_checked


def state(x):
    """(cells, start serial or None, end serial or None, nvar)"""
    c = cellmap(x)
    st = None if x.start is None else x.start.serial
    en = None if x.start is None else x.start.serial + x.data.shape[0] - 1
    return c, st, en, x.data.shape[1]


# ------------------------------------------------------------------------------------------
# operations: each returns (description, impl() -> dict of observed things, oracle(cells...) -> dict of expected things)
# observed/expected: {"cells": map, "hull": True/False (assert start/end == hull of cells), "span": (start, end) optional}
# ------------------------------------------------------------------------------------------

def ops_unary(ir, fr, xc):
    b = BASE[fr]
    per = lambda k: _P(ir, fr, b + k)
    out = []
    X = lambda: xc.make(ir, fr)[0]

    def cells_of(cfg):
        return cellmap(cfg.make(ir, fr)[0])
    x_cells = cells_of(xc)
    # --- writes
    for k in (-3, 0, 1, xc.n - 1, xc.n + 2):
        for val_kind in ("sym", "nan"):
            def impl(k=k, val_kind=val_kind):
                x = X()
                x[per(k)] = S.sym("w0", 7) if val_kind == "sym" else float("nan")
                return x
            def orc(k=k, val_kind=val_kind):
                c = dict(x_cells)
                for v in range(max(xc.nvar, 1)):
                    if val_kind == "sym":
                        c[(b + k, v)] = S.sym("w0", 7)
                    else:
                        c.pop((b + k, v), None)
                return c
            out.append((f"setitem[{k}]={val_kind}", impl, orc, True))
    for (a, e_) in ((-2, 0), (1, 2), (xc.n, xc.n + 1)):
        def impl(a=a, e_=e_):
            x = X()
            w = np.empty((e_ - a + 1, max(xc.nvar, 1)), dtype=object)
            for i in range(w.shape[0]):
                for v in range(w.shape[1]):
                    w[i, v] = S.sym(f"w{i}_{v}", 5 + i + v)
            x[per(a) >> per(e_)] = w
            return x
        def orc(a=a, e_=e_):
            c = dict(x_cells)
            for i, s in enumerate(range(b + a, b + e_ + 1)):
                for v in range(max(xc.nvar, 1)):
                    c[(s, v)] = S.sym(f"w{i}_{v}", 5 + i + v)
            return c
        out.append((f"setitem[{a}>>{e_}]=array", impl, orc, True))
    if xc.nvar == 2:
        def impl():
            x = X()
            x[per(1), 1] = S.sym("w0", 7)
            return x
        def orc():
            c = dict(x_cells)
            c[(b + 1, 1)] = S.sym("w0", 7)
            return c
        out.append(("setitem[1, variant 1]", impl, orc, True))
    # non-contiguous tuple of periods
    def impl():
        x = X()
        x.set_data((per(-1), per(2)), S.sym("w0", 7))
        return x
    def orc():
        c = dict(x_cells)
        for s in (b - 1, b + 2):
            for v in range(max(xc.nvar, 1)):
                c[(s, v)] = S.sym("w0", 7)
        return c
    out.append(("set_data((-1, 2), sym)", impl, orc, True))
    # --- recreation and clipping
    for (a, e_) in ((-1, 1), (1, xc.n + 1), (xc.n + 1, xc.n + 2)):
        def impl(a=a, e_=e_):
            return X()(per(a) >> per(e_))
        def orc(a=a, e_=e_):
            return {k: v for k, v in x_cells.items() if b + a <= k[0] <= b + e_}
        out.append((f"call({a}>>{e_})", impl, orc, True))
        if xc.n:
            def impl(a=a, e_=e_):
                x = X()
                x.clip(per(a), per(e_))
                return x
            def orc(a=a, e_=e_):
                return {k: v for k, v in x_cells.items() if b + a <= k[0] <= b + e_}
            if e_ >= 0 and a <= xc.n - 1:
                out.append((f"clip({a},{e_})", impl, orc, False))
    # --- shifts
    for k in (-2, -1, 0, 1, 3):
        for form in ("index", "function", "method"):
            def impl(k=k, form=form):
                x = X()
                if form == "index":
                    return x[k]
                if form == "function":
                    return ir.shift(x, k)
                x.shift(k)
                return x
            def orc(k=k):
                return {(s - k, v): t for (s, v), t in x_cells.items()}
            out.append((f"shift({k}) {form}", impl, orc, True))
    # --- fill_missing: each method's formula, period by period, within the span of the series
    if xc.n:
        lo_, hi_ = hull(x_cells)
        nv_ = max(xc.nvar, 1)

        def fill_oracle(method):
            c = dict(x_cells)
            for v in range(nv_):
                obs = sorted(s for (s, vv) in x_cells if vv == v)
                if not obs:
                    continue
                for s in range(lo_, hi_ + 1):
                    if (s, v) in x_cells:
                        continue
                    prev = max((o for o in obs if o < s), default=None)
                    nxt = min((o for o in obs if o > s), default=None)
                    if method == "next":
                        val = x_cells[(nxt, v)] if nxt is not None else None
                    elif method == "previous":
                        val = x_cells[(prev, v)] if prev is not None else None
                    elif method == "nearest":
                        cand = [o for o in (prev, nxt) if o is not None]
                        o = min(cand, key=lambda o: (abs(o - s), o))
                        val = x_cells[(o, v)]
                    elif method == "constant":
                        val = S.const(Fraction(7, 2))
                    else:
                        if prev is None or nxt is None:
                            val = x_cells[(prev if prev is not None else nxt, v)]       # the code extends the end values
                        else:
                            w = Fraction(s - prev, nxt - prev)
                            a_, b_ = x_cells[(prev, v)], x_cells[(nxt, v)]
                            if method == "linear":
                                val = a_ + (b_ - a_) * w
                            else:
                                la, lb = S.const(a_).log(), S.const(b_).log()
                                val = (la + (lb - la) * w).exp()
                    if val is not None:
                        c[(s, v)] = val
            return c
        for method in ("next", "previous", "nearest", "linear", "log_linear", "constant"):
            for form in ("function", "method"):
                def impl(method=method, form=form):
                    x = X()
                    args = (Fraction(7, 2),) if method == "constant" else ()
                    if form == "function":
                        return ir.fill_missing(x, method, *args)
                    x.fill_missing(method, *args)
                    return x
                out.append((f"fill_missing({method}) {form}", impl, (lambda method=method: fill_oracle(method)), True))
    # --- extrapolation by an autoregressive process: x_t = rho_1 x_{t-1} + ... + rho_p x_{t-p} + c on the span, initial conditions from the series
    for (rhos, icpt, log, k0, k1) in (((Fraction(1, 2),), 0, False, xc.n, xc.n + 2), ((Fraction(1, 2), Fraction(-1, 4)), Fraction(1, 8), False, xc.n, xc.n + 2),
                                      ((Fraction(1, 4), Fraction(1, 2), Fraction(-1, 8)), 0, False, xc.n - 1, xc.n + 1), ((Fraction(1, 2), Fraction(1, 4)), Fraction(1, 8), True, xc.n, xc.n + 1)):
        if xc.n < len(rhos) + 1 or xc.miss:
            continue
        for form in ("function", "method"):
            def impl(rhos=rhos, icpt=icpt, log=log, k0=k0, k1=k1, form=form):
                x = X()
                args = (tuple(float(r) for r in rhos), per(k0) >> per(k1))
                kw = dict(intercept=float(icpt), log=log)
                if form == "function":
                    return ir.extrapolate(x, *args, **kw)
                x.extrapolate(*args, **kw)
                return x
            def orc(rhos=rhos, icpt=icpt, log=log, k0=k0, k1=k1):
                c = dict(x_cells)
                for v in range(max(xc.nvar, 1)):
                    for k in range(k0, k1 + 1):
                        prev = [c.get((b + k - i, v)) for i in range(1, len(rhos) + 1)]
                        if any(p_ is None for p_ in prev):
                            raise KeyError("initial condition missing")
                        if log:
                            acc = S.const(S.float_fraction(float(icpt)))
                            for r, p_ in zip(rhos, prev):
                                acc = acc + S.float_fraction(float(r)) * LOGF(p_)
                            c[(b + k, v)] = EXPF(acc)
                        else:
                            acc = S.const(S.float_fraction(float(icpt)))
                            for r, p_ in zip(rhos, prev):
                                acc = acc + S.float_fraction(float(r)) * p_
                            c[(b + k, v)] = acc
                return c
            out.append((f"extrapolate(AR{len(rhos)}, intercept={float(icpt)}, log={log}, {k0}..{k1}) {form}", impl, orc, True))
    # --- the number of periods may be any integer type (numpy integers come out of every index computation)
    for k, form in ((np.int64(-1), "method"), (np.int32(2), "function"), (np.int64(-2), "diff"), (np.int64(-1), "index"), (np.int32(1), "index")):
        def impl(k=k, form=form):
            x = X()
            if form == "index":
                return x[k]
            if form == "method":
                x.shift(k)
                return x
            if form == "function":
                return ir.shift(x, k)
            return ir.diff(x, k)
        def orc(k=k, form=form):
            kk = int(k)
            if form == "diff":
                return {(s, v): t - x_cells[(s + kk, v)] for (s, v), t in x_cells.items() if (s + kk, v) in x_cells}
            return {(s - kk, v): t for (s, v), t in x_cells.items()}
        out.append((f"shift(numpy {type(k).__name__} {int(k)}) {form}", impl, orc, True))
    # --- scalar arithmetic and unary
    for name, f in (("x+2", lambda x: x + 2), ("3-x", lambda x: 3 - x), ("x*c", lambda x: x * S.sym("c0", 2)), ("2/x", lambda x: 2 / x), ("-x", lambda x: -x), ("x**2", lambda x: x ** 2)):
        def impl(f=f):
            return f(X())
        def orc(f=f):
            return {k: f(v) for k, v in x_cells.items()}
        out.append((name, impl, orc, True))
    return out


def ops_binary(ir, fr, xc, yc):
    b = BASE[fr]
    out = []
    X = lambda: xc.make(ir, fr)[0]
    Y = lambda: yc.make(ir, fr)[0]
    xcells, ycells = cellmap(X()), cellmap(Y())
    nv = max(xc.nvar, yc.nvar, 1)

    def bc(cells, nvar):
        """broadcast a 1-variant map to nv variants"""
        if nvar == nv or nvar == 0:
            return cells
        return {(s, v): t for (s, _), t in cells.items() for v in range(nv)}
    xb, yb = bc(xcells, xc.nvar), bc(ycells, yc.nvar)
    for name, f in (("x+y", lambda a, c: a + c), ("x-y", lambda a, c: a - c), ("x*y", lambda a, c: a * c), ("x/y", lambda a, c: a / c)):
        def impl(f=f):
            return f(X(), Y())
        def orc(f=f):
            return {k: f(xb[k], yb[k]) for k in xb if k in yb}
        out.append((name, impl, orc, True))
    # overlay / underlay (by span of the other series, in-sample missing values included)
    def lay(top, bottom):
        lo, hi = hull(top)
        c = dict(bottom)
        if lo is not None:
            for k in list(c):
                if lo <= k[0] <= hi:
                    c.pop(k)
            c.update(top)
        return c
    for form in ("function", "method"):
        def impl(form=form):
            x = X()
            if form == "function":
                return ir.overlay(x, Y())
            x.overlay(Y())
            return x
        out.append((f"overlay {form}", impl, lambda: lay(yb, xb), True))
        def impl(form=form):
            x = X()
            if form == "function":
                return ir.underlay(x, Y())
            x.underlay(Y())
            return x
        out.append((f"underlay {form}", impl, lambda: lay(xb, yb), True))
    # purity of binary forms: the other operand is never modified (values, span, number of variants); functional forms keep the first too
    for opname in ("overlay", "underlay"):
        for form in ("function", "method"):
            def impl(opname=opname, form=form):
                x, y = X(), Y()
                if form == "function":
                    getattr(ir, opname)(x, y)
                else:
                    getattr(x, opname)(y)
                return y
            out.append((f"{opname} {form}: other operand unchanged", impl, lambda: dict(ycells), True))
        def impl(opname=opname):
            x, y = X(), Y()
            getattr(ir, opname)(x, y)
            return x
        out.append((f"{opname} function: first operand unchanged", impl, lambda: dict(xcells), True))
    for name, f in (("x+y", lambda a, c: a + c), ("x*y", lambda a, c: a * c)):
        def impl(f=f):
            x, y = X(), Y()
            f(x, y)
            return y
        out.append((f"{name}: other operand unchanged", impl, lambda: dict(ycells), True))
    # hstack
    def impl():
        return X().hstack(Y())
    def orc():
        c = dict(xcells)
        for (s, v), t in ycells.items():
            c[(s, v + max(xc.nvar, 1))] = t
        return c
    if xc.n or yc.n:
        out.append(("hstack", impl, orc, True))
    # write a Series into a Series
    def impl():
        x = X()
        y = Y()
        if y.start is None:
            return x
        x[y.span] = y
        return x
    def orc():
        return lay(yb, xb) if ycells else dict(xb if False else xcells)
    if xc.nvar == yc.nvar:
        out.append(("setitem[y.span]=y", impl, orc, True))
    return out


_PURE = (
    ("diff", lambda ir, x: ir.diff(x), lambda x: x.diff()),
    ("pct(-2)", lambda ir, x: ir.pct(x, -2), lambda x: x.pct(-2)),
    ("cum_diff", lambda ir, x: ir.cum_diff(x), lambda x: x.cum_diff()),
    ("mov_sum(-2)", lambda ir, x: ir.mov_sum(x, -2), lambda x: x.mov_sum(-2)),
    ("mov_avg(-3)", lambda ir, x: ir.mov_avg(x, -3), lambda x: x.mov_avg(-3)),
    ("log", lambda ir, x: ir.log(x), lambda x: x.log()),
    ("exp", lambda ir, x: ir.exp(x), lambda x: x.exp()),
    ("shift(-1)", lambda ir, x: ir.shift(x, -1), lambda x: x.shift(-1)),
    ("fill_missing(next)", lambda ir, x: ir.fill_missing(x, "next"), lambda x: x.fill_missing("next")),
    ("fill_missing(constant)", lambda ir, x: ir.fill_missing(x, "constant", 0), lambda x: x.fill_missing("constant", 0)),
)


def _decide(run, key, finding, case, got_state, exp_cells, check_hull, assume, names, positive=()):
    cells, st, en, nvar = got_state
    exp = {k: v for k, v in exp_cells.items() if v is not None and not (isinstance(v, float) and math.isnan(v))}
    if set(cells) != set(exp):
        run.counterexample(key, finding, f"non-missing cells differ: extra {sorted(set(cells) - set(exp))[:4]} missing {sorted(set(exp) - set(cells))[:4]}",
                           dict(case, values={}))
        return False
    lo, hi = hull(exp)
    if check_hull and (st, en) != (lo, hi):
        run.counterexample(key, finding, f"reported span {st}..{en} is not the hull {lo}..{hi} of the non-missing values", dict(case, values={}))
        return False
    if not check_hull and lo is not None and not (st <= lo and hi <= en):
        run.counterexample(key, finding, f"reported span {st}..{en} does not cover the non-missing values {lo}..{hi}", dict(case, values={}))
        return False
    eqs = []
    for k in sorted(exp):
        a, b_ = cells[k], exp[k]
        if a is b_:
            continue
        eqs.append(S.const(a).t == S.const(b_).t)
    if not eqs:
        run.ok(key)          # identical objects in identical cells
        return True
    r, m = run.prove(key, z3.And(*eqs), assume, timeout_ms=30000, nl=True,
                     sample={"structure": case, "cells": len(exp), "example": str(eqs[0])[:160]})
    if r == "unsat":
        run.ok(key)
        return True
    if r == "sat":
        vals = model_values(m, names)
        run.counterexample(key, finding, "some cell holds a different term than the map semantics prescribe",
                           dict(case, values={n: [v.numerator, v.denominator] for n, v in vals.items()}))
        return False
    run.unknown(key, f"solver {r}")
    return False


# ------------------------------------------------------------------------------------------
# moving-window functions with the window OMITTED: the documented default is one year of periods (365 for daily series), 4 for
# integer-dated series
# ------------------------------------------------------------------------------------------
_DEFAULT_WINDOW = {"Y": 1, "H": 2, "Q": 4, "M": 12, "D": 365, "I": 4}


def _dw_start(ir, fk):
    return {"Y": lambda: ir.yy(2020), "H": lambda: ir.hh(2020, 2), "Q": lambda: ir.qq(2020, 3), "M": lambda: ir.mm(2020, 5),
            "D": lambda: ir.dd(2023, 12, 30), "I": lambda: ir.ii(7)}[fk]()


def _dw_run(ir, fk, fname, form, values=None, lifted=True):
    w = _DEFAULT_WINDOW[fk]
    n = w + 2
    start = _dw_start(ir, fk)
    if lifted:
        x, syms = tagged(ir, start, n, 1, (), "x", values=values)
    else:
        x, syms = float_series(ir, start, n, 1, (), "x", values), {}
    cells = cellmap(x)
    out = getattr(ir, fname)(x) if form == "function" else (lambda y: (getattr(y, fname)(), y)[1])(x.copy())
    exp = {}
    s0 = start.serial
    for t in range(w - 1, n):
        acc = None
        for k in range(t - w + 1, t + 1):
            c = cells[(s0 + k, 0)]
            acc = c if acc is None else acc + c
        exp[(s0 + t, 0)] = acc / w if fname in ("mov_avg", "mov_mean") else acc
    return out, exp, syms


def check_default_windows(run, ir):
    for fk in _DEFAULT_WINDOW:
        for fname in ("mov_sum", "mov_avg"):
            for form in ("function", "method"):
                key = f"default_window:{fk}:{fname}:{form}"
                case = dict(kind="default_window", fk=fk, fname=fname, form=form)
                try:
                    with S.Path() as path:
                        out, exp, syms = _dw_run(ir, fk, fname, form)
                    got = cellmap(out)
                    if set(got) != set(exp):
                        run.counterexample(key, f"series:default_window:{fname}", f"{fname}(x) with the window omitted on a {fk} series: non-missing cells "
                                           f"extra {sorted(set(got) - set(exp))[:3]} missing {sorted(set(exp) - set(got))[:3]} (default window {_DEFAULT_WINDOW[fk]})", dict(case, values={}))
                        continue
                    eqs = [S.const(got[k_]).t == S.const(exp[k_]).t for k_ in sorted(exp)]
                    r, mdl = run.prove(key, z3.And(*eqs), [path.condition()], timeout_ms=60000)
                    if r == "unsat":
                        run.ok(key)
                    elif r == "sat":
                        vals = model_values(mdl, sorted(syms))
                        run.counterexample(key, f"series:default_window:{fname}", f"{fname}(x) with the window omitted differs from the sum/mean over {_DEFAULT_WINDOW[fk]} periods",
                                           dict(case, values={n_: [v.numerator, v.denominator] for n_, v in vals.items()}))
                    else:
                        run.unknown(key, f"solver {r}")
                except S.SymbolicBranchError as exc:
                    run.unknown(key, exc)
                except Exception as exc:
                    run.counterexample(key, f"series:default_window:raises:{fname}", f"{fname}(x) raises {type(exc).__name__}: {str(exc)[:120]}", dict(case, values={}))


def _replay_default_window(ir, case):
    vals = {k: float(Fraction(a, b)) for k, (a, b) in case.get("values", {}).items()}
    w = _DEFAULT_WINDOW[case["fk"]]
    for i in range(w + 2):
        vals.setdefault(f"x{i}v0", 1.0 + 0.125 * (i % 7))
    try:
        out, exp, _ = _dw_run(ir, case["fk"], case["fname"], case["form"], values=vals, lifted=False)
    except Exception as exc:
        return True, f"raises {type(exc).__name__}: {exc}"
    got = cellmap(out)
    if set(got) != set(exp):
        return True, f"non-missing cells: extra {sorted(set(got) - set(exp))[:3]} missing {sorted(set(exp) - set(got))[:3]}"
    worst = max((abs(float(got[k_]) - float(exp[k_])) for k_ in exp), default=0.0)
    return worst > 1e-9, f"largest difference {worst!r}"


def _configs(tier):
    xs = [Cfg(0, 3), Cfg(0, 4, 2, (1,)), Cfg(0, 0), Cfg(0, 4, 1, (2,)), Cfg(0, 1), Cfg(0, 3, 2, ((0, 1), (2, 0))),
          Cfg(0, 5, 1, (1, 2)), Cfg(0, 6, 2, ((1, 0), (2, 0), (3, 0), (2, 1), (4, 1)))]          # gaps of two and three periods
    ys = [Cfg(-5, 3, prefix="y"), Cfg(-1, 3, prefix="y"), Cfg(0, 2, prefix="y"), Cfg(2, 3, 1, (1,), prefix="y"), Cfg(6, 2, prefix="y"), Cfg(0, 0, prefix="y"),
          Cfg(1, 3, 2, prefix="y")]
    if tier == "quick":
        return xs[:5] + xs[6:7], ys[:6]
    return xs, ys


def main(run):
    ir = load_irispie()
    mods = series_modules()
    run.extra["proxy_selftest_checks"] = npproxy.selftest()
    run.functions_encoded += ["series.main.Series.{set_data,get_data,_get_data_and_recreate,_resolve_dates_and_positions,_get_date_positions,shift,clip,overlay,underlay,"
                              "hstack,_binop,apply,trim,copy,_create_expanded_data,__add__..__pow__,__neg__}", "series._indexing.Inlay.{__getitem__,__setitem__,__call__}",
                              "series._functionalize.FUNC_STRING (functional forms)", "representatives of _temporal, _moving, _elementwise, _filling (alignment/purity only)",
                              "has_variants.iter_variants", "dates.get_encompassing_span / period_indexes"]
    run.bounds["structures"] = ("frequency in {quarterly, integer}; receiver: length 0..4, variants 1..2, row/cell missing masks; second operand: start offset in {-5,-1,0,1,2,6} "
                                "(overlapping, adjacent, disjoint), length 0..3, variants 1..2; operations: setitem (period / span / tuple / variant; symbol / NaN / array / Series), "
                                "call, clip, shift (index, function, method) by k in {-2..3}, scalar and series arithmetic (+ - * / ** neg, reflected), overlay/underlay "
                                "(function and method), hstack, copy isolation, functional-vs-method purity of 10 representative functions, two-operation sequences")
    run.bounds["values"] = "a distinct real per cell; exact equality of terms (positivity where a representative function takes logs)"
    run.stubs += ["Series.set_data(dates, None) on object data executed as NaN (numpy float semantics)"]
    run.outside += ["formulas of _moving/_filling/_extrapolate/_statistics beyond alignment and purity", "x13, plotting", "daily and other frequencies", "more than 2 variants"]
    # ---- XH part
    xhrun.run_harness(run, HARNESS, timeout=150, twin_timeout=60, finding_prefix="series:")
    proxy = npproxy.Proxy()
    xs, ys = _configs(run.tier)
    import scipy
    from irispie.series import _extrapolate as _ex
    run.extra["scipy_signal_stub_checks"] = _signal_stub_selftest()
    run.stubs.append("scipy.signal.lfiltic/lfilter (compiled) in series._extrapolate -> pure all-pole recursion on objects, validated against scipy.signal on floats at every run")
    _sig = npproxy.SubProxy(scipy.signal, {"lfiltic": _stub_lfiltic, "lfilter": _stub_lfilter})
    _spx = npproxy.SubProxy(scipy, {"signal": _sig})
    run.bounds["default_windows"] = "mov_sum/mov_avg with the window omitted on yearly, half-yearly, quarterly, monthly, daily (365) and integer (4) series of window+2 periods, both forms"
    with npproxy.installed(proxy, *mods, extra=[none_is_nan_patch(ir), (_ex, "_sp", _spx)]):
        check_default_windows(run, ir)
        for fr in (("Q",) if run.tier == "quick" else ("Q", "I")):
            for xc in xs:
                names_x = sorted(xc.make(ir, fr)[1])
                pos = [z3.Real(n) > 0 for n in names_x]
                for (name, impl, orc, chk) in ops_unary(ir, fr, xc):
                    key = f"{fr}:{xc.key()}:{name}"
                    case = dict(kind="unary", fr=fr, x=xc.as_json(), op=name)
                    try:
                        with S.Path() as path:
                            res = impl()
                        _decide(run, key, f"series:{name.split('(')[0].split('[')[0]}", case, state(res), orc(), chk, pos + [path.condition()], names_x)
                    except S.SymbolicBranchError as exc:
                        run.unknown(key, exc)
                    except Exception as exc:
                        run.counterexample(key, f"series:raises:{name.split('(')[0].split('[')[0]}", f"{name} raises {type(exc).__name__}: {str(exc)[:100]}", dict(case, values={}))
                # copy isolation and functional-form purity
                for (pname, ffun, fmeth) in _PURE:
                    if not xc.n:
                        continue
                    key = f"{fr}:{xc.key()}:pure:{pname}"
                    case = dict(kind="pure", fr=fr, x=xc.as_json(), op=pname)
                    try:
                        with S.Path() as path:
                            x = xc.make(ir, fr)[0]
                            before = state(x)
                            data_before = x.data
                            out = ffun(ir, x)
                            after = state(x)
                            x2 = xc.make(ir, fr)[0]
                            ret = fmeth(x2)
                        same = before[0].keys() == after[0].keys() and all(before[0][k] is after[0][k] for k in before[0]) and before[1:] == after[1:]
                        alias = np.shares_memory(out.data, x.data) if out.data.size and x.data.size else False
                        problems = []
                        if not same:
                            problems.append("the functional form modified its input")
                        if alias:
                            problems.append("the functional form returns data aliasing its input")
                        if ret is not None and not isinstance(ret, tuple):
                            pass
                        if problems:
                            run.counterexample(key, f"series:pure:{pname}", "; ".join(problems), dict(case, values={}))
                            continue
                        # method form == functional form
                        _decide(run, key, f"series:pure:{pname}", case, state(x2), state(out)[0], False, pos + [path.condition()], names_x)
                    except S.SymbolicBranchError as exc:
                        run.unknown(key, exc)
                    except Exception as exc:
                        run.error(key, exc)
                # copy: mutate the copy, original untouched (and vice versa)
                if xc.n:
                    key = f"{fr}:{xc.key()}:copy_isolation"
                    try:
                        x = xc.make(ir, fr)[0]
                        y = x.copy()
                        before = state(x)
                        y[_P(ir, fr, BASE[fr])] = S.sym("w0", 7)
                        y.shift(-2)
                        after = state(x)
                        ok1 = before[0].keys() == after[0].keys() and all(before[0][k] is after[0][k] for k in before[0]) and before[1:] == after[1:]
                        z = x.copy()
                        zb = state(z)
                        x[_P(ir, fr, BASE[fr] + 1)] = S.sym("w1", 9)
                        za = state(z)
                        ok2 = zb[0].keys() == za[0].keys() and all(zb[0][k] is za[0][k] for k in zb[0]) and zb[1:] == za[1:]
                        run.extra["executed_obligations"] = run.extra.get("executed_obligations", 0) + 1
                        if ok1 and ok2:
                            run.ok(key)
                        else:
                            run.counterexample(key, "series:copy", "mutating a copy changed the original (or vice versa)", dict(kind="copy", fr=fr, x=xc.as_json(), values={}))
                    except Exception as exc:
                        run.error(key, exc)
                for yc in ys:
                    names = sorted(set(names_x) | set(yc.make(ir, fr)[1]))
                    posxy = [z3.Real(n) > 0 for n in names]
                    for (name, impl, orc, chk) in ops_binary(ir, fr, xc, yc):
                        key = f"{fr}:{xc.key()}:{yc.key()}:{name}"
                        case = dict(kind="binary", fr=fr, x=xc.as_json(), y=yc.as_json(), op=name)
                        try:
                            with S.Path() as path:
                                res = impl()
                            _decide(run, key, f"series:{name.split(' ')[0]}", case, state(res), orc(), chk, posxy + [path.condition()], names)
                        except S.SymbolicBranchError as exc:
                            run.unknown(key, exc)
                        except Exception as exc:
                            run.counterexample(key, f"series:raises:{name.split(' ')[0]}", f"{name} raises {type(exc).__name__}: {str(exc)[:100]}", dict(case, values={}))
    run.extra["exhaustive"] = True


# ------------------------------------------------------------------------------------------
# float replay: the same operation tables on float series (symbols replaced by numbers)
# ------------------------------------------------------------------------------------------

class _FloatSym:
    """during replay S.sym(name, shadow) yields the shadow as a float"""


def replay(case):
    if case.get("kind") == "xh":
        return xhrun.replay_case(case)
    ir = load_irispie()
    if case.get("kind") == "default_window":
        return _replay_default_window(ir, case)
    fr = case["fr"]
    xc = Cfg.from_json(case["x"])
    vals = {k: float(Fraction(a, b)) for k, (a, b) in case.get("values", {}).items()}
    real_sym, real_tagged = S.sym, None
    import symx.series_tools as st

    def fsym(name, value=None):
        return float(vals.get(name, value if value is not None else 1.5))

    def ftagged(ir_, start, n, nvar=1, miss=(), prefix="x", values=None):
        v = {f"{prefix}{i}v{j}": vals.get(f"{prefix}{i}v{j}", 1.25 + 0.5 * i + 0.25 * j + (0.1 if prefix == "y" else 0)) for i in range(n) for j in range(nvar)}
        return float_series(ir_, start, n, nvar, miss, prefix, v), {}
    g = globals()
    S.sym = fsym
    g["tagged"] = ftagged
    try:
        def fstate(x):
            c, s, e, nv = state(x)
            return {k: float(v) for k, v in c.items()}, s, e, nv

        def compare(got, exp, chk):
            cells, st_, en, _ = got
            exp = {k: float(v) for k, v in exp.items() if v is not None and not (isinstance(v, float) and math.isnan(v))}
            if set(cells) != set(exp):
                return True, f"cells differ: extra {sorted(set(cells) - set(exp))[:3]} missing {sorted(set(exp) - set(cells))[:3]}"
            lo, hi = hull(exp)
            if chk and (st_, en) != (lo, hi):
                return True, f"span {st_}..{en} vs hull {lo}..{hi}"
            bad = [k for k in exp if abs(cells[k] - exp[k]) > 1e-9 * (1 + abs(exp[k]))]
            return bool(bad), f"cells {bad[:3]}"
        with np.errstate(all="ignore"):
            if case["kind"] == "unary":
                for (name, impl, orc, chk) in ops_unary(ir, fr, xc):
                    if name == case["op"]:
                        try:
                            return compare(fstate(impl()), orc(), chk)
                        except Exception as exc:
                            return True, f"raises {type(exc).__name__}: {exc}"
            if case["kind"] == "binary":
                yc = Cfg.from_json(case["y"])
                for (name, impl, orc, chk) in ops_binary(ir, fr, xc, yc):
                    if name == case["op"]:
                        try:
                            return compare(fstate(impl()), orc(), chk)
                        except Exception as exc:
                            return True, f"raises {type(exc).__name__}: {exc}"
            if case["kind"] == "pure":
                for (pname, ffun, fmeth) in _PURE:
                    if pname == case["op"]:
                        x = xc.make(ir, fr)[0]
                        before = fstate(x)
                        out = ffun(ir, x)
                        after = fstate(x)
                        if before != after:
                            return True, "the functional form modified its input"
                        if out.data.size and np.shares_memory(out.data, x.data):
                            return True, "aliasing"
                        x2 = xc.make(ir, fr)[0]
                        fmeth(x2)
                        return compare(fstate(x2), fstate(out)[0], False)
            if case["kind"] == "copy":
                x = xc.make(ir, fr)[0]
                y = x.copy()
                before = fstate(x)
                y[_P(ir, fr, BASE[fr])] = 7.0
                y.shift(-2)
                return before != fstate(x), "copy isolation"
    finally:
        S.sym = real_sym
        g["tagged"] = st.tagged
    return False, "case not found"


if __name__ == "__main__":
    standard_main(PID, main, replay)
