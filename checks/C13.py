"""
C13 -- Change and cumulation transforms follow their formulas and invert each other.

The real Series code (series/_temporal.py, series/main.py: shift/_binop/get_data/set_data/trim) is run on
Series whose data are numpy object arrays with one distinct z3 real per cell.  For every enumerated
structure (frequency, start offset, length, variants, missing mask, function, shift) z3 decides that each
output cell equals the documented formula applied to the right input cells, for all (positive) reals.
"""
from __future__ import annotations

import datetime as _dt
import itertools
import math
from fractions import Fraction

import numpy as np
import z3

from symx import sreal as S
from symx import npproxy
from symx.gmath import LOGF, EXPF, POW, isnan
from symx.series_tools import load_irispie, series_modules, tagged, float_series, cellmap, none_is_nan_patch
from symx.concolic import model_values
from symx.report import standard_main

PID = "C13"

_CHANGE = {
    "diff": lambda x, y: x - y,
    "diff_log": lambda x, y: LOGF(x) - LOGF(y),
    "pct": lambda x, y: 100 * (x / y - 1),
    "roc": lambda x, y: x / y,
}
_ACHANGE = {
    "adiff": lambda x, y, a: a * (x - y),
    "adiff_log": lambda x, y, a: a * (LOGF(x) - LOGF(y)),
    "apct": lambda x, y, a: 100 * (POW(x / y, a) - 1),
    "aroc": lambda x, y, a: POW(x / y, a),
}
# documented: in start-of-year periods a "tty" change leaves the value unchanged
_TTY_UNCHANGED = {"diff", "roc"}
_CUM_OF = {"cum_diff": "diff", "cum_diff_log": "diff_log", "cum_pct": "pct", "cum_roc": "roc"}
_FREQS = {"Y": ("yy", 1), "H": ("hh", 2), "Q": ("qq", 4), "M": ("mm", 12), "I": ("ii", 0), "D": ("dd", 365)}
# daily structures: the offset counts days from this date (28 Dec 2023: the window crosses into the leap year 2024)
_DAILY_BASE = (2023, 12, 28)


def _start(ir, fr, offset):
    ctor, f = _FREQS[fr]
    if fr == "I":
        return ir.ii(10 + offset)
    if fr == "Y":
        return ir.yy(2020 + offset)
    if fr == "D":
        d = _dt.date(*_DAILY_BASE) + _dt.timedelta(days=offset)
        return ir.dd(d.year, d.month, d.day)
    return getattr(ir, ctor)(2020 + offset // f, 1 + offset % f)


def _ref(serial, shift, f):
    """reference period serial of the documented formula; None = start-of-year neutral ("tty")"""
    if isinstance(shift, int):
        return serial + shift
    if f == 365:
        # daily: the serial is the proleptic Gregorian ordinal; the calendar oracle is python's datetime
        d = _dt.date.fromordinal(serial)
        if shift == "soy":
            return _dt.date(d.year, 1, 1).toordinal()
        if shift == "eopy":
            return _dt.date(d.year - 1, 12, 31).toordinal()
        if shift == "tty":
            return serial - 1 if (d.month, d.day) != (1, 1) else None
        raise ValueError(shift)
    seg0 = serial % f
    if shift == "yoy":
        return serial - f
    if shift == "soy":
        return serial - seg0
    if shift == "eopy":
        return serial - seg0 - 1
    if shift == "tty":
        return serial - 1 if seg0 != 0 else None
    raise ValueError(shift)


def _oracle_change(cells, func, shift, f, nvar, lo, hi):
    """expected {(serial, v): value}; cells whose documented value is ambiguous are returned in `skip`"""
    exp, skip = {}, set()
    form = _CHANGE[func]
    for s in range(lo, hi + 1):
        for v in range(nvar):
            r = _ref(s, shift, f)
            xt = cells.get((s, v))
            if r is None:
                if xt is None:
                    continue
                if func in _TTY_UNCHANGED:
                    exp[(s, v)] = xt
                else:
                    skip.add((s, v))
                continue
            xr = cells.get((r, v))
            if xt is None or xr is None:
                continue
            exp[(s, v)] = form(xt, xr)
    return exp, skip


def _positivity(syms):
    return [s.t > 0 for (_, _, s) in syms.values()]


def _compare_maps(run, key, got, exp, skip, assume, names, case, finding, sample_extra=None):
    """decide got == exp cell by cell (one query for the conjunction); returns True if discharged"""
    gk = {k for k in got if k not in skip}
    ek = {k for k in exp if k not in skip}
    if gk != ek:
        what = f"non-missing cells differ: extra {sorted(gk - ek)[:4]} missing {sorted(ek - gk)[:4]}"
        run.counterexample(key, finding, what, dict(case, values=_default_values(names)))
        return False
    if not gk:
        run.ok(key, nontrivial=False)
        return True
    eqs = []
    for k in sorted(gk):
        eqs.append(S.const(got[k]).t == S.const(exp[k]).t)
    k0 = sorted(gk)[0]
    sample = {"structure": case, "cell": list(k0), "impl": str(S.const(got[k0]).t)[:140], "oracle": str(S.const(exp[k0]).t)[:140]}
    r, m = run.prove(key, z3.And(*eqs), assume, timeout_ms=30000, sample=sample, nl=True)
    if r == "unsat":
        run.ok(key)
        return True
    if r == "sat":
        vals = model_values(m, names)
        run.counterexample(key, finding, f"{case.get('op')} shift={case.get('shift')}: some output cell differs from the documented formula",
                           dict(case, values={n: [v.numerator, v.denominator] for n, v in vals.items()}))
        return False
    # the solver did not decide (EXP/LOG are uninterpreted): try the default tag values on the real float code; a violation that
    # reproduces there is reported (it is a real one), otherwise the obligation stays inconclusive
    run.counterexample(key, finding, f"{case.get('op')} shift={case.get('shift')}: solver {r}; candidate = default values", dict(case, values=_default_values(names)))
    return False


def _default_values(names):
    return {n: [3 + i, 2] for i, n in enumerate(names)}


def _structures(tier):
    if tier == "quick":
        yield from (("Q", off, 6, nvar, miss) for off in (0, 2) for nvar in (1, 2) for miss in ((), (2,)))
        # variants with DIFFERENT missing patterns (a period missing in one variant only, near either end)
        yield ("Q", 0, 6, 2, ((1, 0),))
        yield ("Q", 1, 6, 2, ((4, 1),))
        yield ("I", 0, 5, 1, ())
        yield ("Y", 0, 4, 1, (1,))
        yield ("M", 10, 15, 1, ())
        yield ("D", 0, 8, 1, ())            # 28 Dec 2023 .. 4 Jan 2024 (into a leap year)
        yield ("D", 366, 7, 1, (3,))        # 28 Dec 2024 .. 3 Jan 2025 (out of a leap year)
    else:
        yield from (("Q", off, 6, nvar, miss) for off in range(4) for nvar in (1, 2) for miss in ((), (2,), (3,)))
        yield from (("Q", off, 6, 2, miss) for off in (0, 3) for miss in (((1, 0),), ((4, 1),), ((1, 0), (4, 1)), ((0, 1),), ((5, 0),)))
        yield from (("M", 3, 15, 2, miss) for miss in (((2, 0),), ((12, 1),)))
        yield from (("H", off, 6, 1, miss) for off in range(2) for miss in ((), (2,)))
        yield from (("Y", 0, 5, nvar, miss) for nvar in (1, 2) for miss in ((), (1,)))
        yield from (("I", off, 6, 1, miss) for off in (0, -12) for miss in ((), (2,)))
        yield from (("M", off, 15, 1, miss) for off in (0, 5, 11) for miss in ((), (7,)))
        yield from (("D", off, 8, nvar, miss) for off in (0, 2, 366, 61, 366 + 365, 27759) for nvar in (1, 2) for miss in ((), (3,)))
        # (61: 27 Feb 2024 across the leap day; 27759: 28 Dec 2099 into the non-leap century year 2100)


def _shifts(fr):
    if fr == "I":
        return (-1, -2, -4)
    if fr == "D":
        return (-1, -2, "soy", "eopy", "tty")
    return (-1, -2, -4, "yoy", "soy", "eopy", "tty")


def _apply(ir, fname, x, *args, **kw):
    return getattr(ir, fname)(x, *args, **kw)


def main(run):
    ir = load_irispie()
    mods = series_modules()
    proxy = npproxy.Proxy()
    run.extra["proxy_selftest_checks"] = npproxy.selftest()
    run.functions_encoded += [
        "series._temporal.Inlay.{temporal_change,diff,diff_log,pct,roc,adiff,adiff_log,apct,aroc,roc_from_pct,pct_from_roc,"
        "pct_from_apct,roc_from_apct,roc_from_aroc,temporal_cumulation,_cumulate_forward,_cumulate_backward,cum_*}",
        "series.main.Series.{shift,_shift_by_number,_shift_yoy,_shift_soy,_shift_eopy,_shift_tty,_binop,get_data,set_data,"
        "trim,_get_date_positions,copy}", "dates.{Span,Period.shift,create_soy,create_eopy,create_tty}",
    ]
    run.bounds["structures"] = ("frequency in {Y,H,Q,M,I,D}; daily windows of 7-8 days across 2023/24, 2024/25, 29 Feb 2024 and 2099/2100; start offset over a full year (Q,H) or selected (M); length 4..15; "
                                "variants in {1,2}; no or one interior missing period; shift in {-1,-2,-4,yoy,soy,eopy,tty}; "
                                f"tier={run.tier} enumerates the list in checks/C13._structures exhaustively")
    run.bounds["values"] = "every data cell an independent positive real (positivity only where the formula takes logs or real powers)"
    run.assumptions += [
        "cells are mathematical reals; float rounding outside the claim",
        "LOG/EXP uninterpreted with normalising constructors (EXP(a+b)=EXP a EXP b, EXP(n LOG u)=u^n, LOG(EXP a)=a, LOG(ab)=LOG a+LOG b)",
        "tty at start-of-year periods: asserted 'value unchanged' only for diff and roc (for diff_log/pct the documented "
        "formula is ambiguous and those cells are not asserted)",
    ]
    run.outside += ["daily frequency for 'yoy' (the documented formula does not say whether a year is 365 days or a calendar year)", "lengths beyond 15 periods",
                    "cumulation with interior missing values: only 'no wrong value' is asserted, not full reproduction"]
    run.stubs.append('Series.set_data(dates, None) on object data is executed as set_data(dates, NaN) (numpy float-array semantics of None)')
    with npproxy.installed(proxy, *mods, extra=[none_is_nan_patch(ir)]):
        for (fr, off, n, nvar, miss) in _structures(run.tier):
            f = _FREQS[fr][1]
            start = _start(ir, fr, off)
            base = dict(freq=fr, offset=off, n=n, nvar=nvar, miss=list(miss))
            x, syms = tagged(ir, start, n, nvar, miss, "x")
            names = sorted(syms)
            cells = cellmap(x)
            pos = _positivity(syms)
            lo, hi = start.serial - 1, start.serial + n + 13
            # reachability witness for the structure: positivity is satisfiable
            r0, _ = run.check_sat(pos)
            if r0 != "sat":
                run.unknown(f"reach:{base}", r0)
                continue
            run.reach_ok += 1
            # --- change functions
            for func in _CHANGE:
                for shift in _shifts(fr):
                    key = f"{func}:{fr}{off}:n{n}v{nvar}m{list(miss)}:shift={shift}"
                    case = dict(base, kind="change", op=func, shift=shift)
                    try:
                        got = cellmap(_apply(ir, func, x, shift))
                        exp, skip = _oracle_change(cells, func, shift, f, nvar, lo, hi)
                        _compare_maps(run, key, got, exp, skip, pos, names, case, f"{func}:shift={shift}")
                    except S.SymbolicBranchError as exc:
                        run.unknown(key, exc)
                    except Exception as exc:
                        run.counterexample(key, f"{func}:raises:{type(exc).__name__}", f"{func}(x, {shift!r}) raises {type(exc).__name__}: {str(exc)[:120]}",
                                           dict(case, values=_default_values(names)))
            # --- annualised
            a = f or 1
            for func, form in _ACHANGE.items():
                key = f"{func}:{fr}{off}:n{n}v{nvar}m{list(miss)}"
                case = dict(base, kind="achange", op=func, shift=-1)
                try:
                    got = cellmap(_apply(ir, func, x))
                    exp = {}
                    for (s, v), xt in cells.items():
                        xr = cells.get((s - 1, v))
                        if xr is not None:
                            exp[(s, v)] = form(xt, xr, a)
                    _compare_maps(run, key, got, exp, set(), pos, names, case, func)
                except S.SymbolicBranchError as exc:
                    run.unknown(key, exc)
                except Exception as exc:
                    run.counterexample(key, f"{func}:raises:{type(exc).__name__}", f"{func}(x) raises {type(exc).__name__}: {str(exc)[:120]}",
                                       dict(case, values=_default_values(names)))
            # --- conversions between percent, gross and annualised rates (composition identities)
            convs = [("roc_from_pct", "pct", "roc"), ("pct_from_roc", "roc", "pct"), ("pct_from_apct", "apct", "pct"),
                     ("roc_from_apct", "apct", "roc"), ("roc_from_aroc", "aroc", "roc")]
            for conv, src, dst in convs:
                key = f"{conv}:{fr}{off}:n{n}v{nvar}m{list(miss)}"
                case = dict(base, kind="conversion", op=conv, src=src, dst=dst, shift=-1)
                try:
                    got = cellmap(_apply(ir, conv, _apply(ir, src, x)))
                    exp = cellmap(_apply(ir, dst, x))
                    _compare_maps(run, key, got, exp, set(), pos, names, case, conv)
                except S.SymbolicBranchError as exc:
                    run.unknown(key, exc)
                except Exception as exc:
                    run.counterexample(key, f"{conv}:raises:{type(exc).__name__}", f"{conv} raises {type(exc).__name__}: {str(exc)[:120]}",
                                       dict(case, values=_default_values(names)))
            # --- cumulation inverts the change (forward and backward), original series as initial condition
            for cum, func in _CUM_OF.items():
                for shift in (-1, -2, -4):
                    if -shift >= n:
                        continue
                    for direction in ("forward", "backward", "backward_open"):
                        key = f"{cum}:{direction}:{fr}{off}:n{n}v{nvar}m{list(miss)}:shift={shift}"
                        case = dict(base, kind="cum", op=cum, func=func, shift=shift, direction=direction)
                        try:
                            got = cellmap(_cum_roundtrip(ir, x, cum, func, shift, direction))
                            if miss:
                                # only: no wrong value
                                exp = {k: cells[k] for k in got if k in cells}
                                extra = set(got) - set(cells)
                                if extra:
                                    run.counterexample(key, f"{cum}:{direction}", f"cells outside the original series {sorted(extra)[:3]}",
                                                       dict(case, values=_default_values(names)))
                                    continue
                                _compare_maps(run, key, got, exp, set(), pos, names, case, f"{cum}:{direction}")
                            else:
                                _compare_maps(run, key, got, dict(cells), set(), pos, names, case, f"{cum}:{direction}")
                        except S.SymbolicBranchError as exc:
                            run.unknown(key, exc)
                        except Exception as exc:
                            run.counterexample(key, f"{cum}:{direction}:raises:{type(exc).__name__}",
                                               f"{cum} {direction} raises {type(exc).__name__}: {str(exc)[:120]}",
                                               dict(case, values=_default_values(names)))
    run.extra["exhaustive"] = True


def _cum_roundtrip(ir, x, cum, func, shift, direction):
    """cum_k(k(x, shift), shift, initial=x, span) on the span where the change is defined"""
    change = getattr(ir, func)(x, shift)
    first, last = x.start, x.end
    if direction == "forward":
        span = ir.Span(first - shift, last, 1)
    elif direction == "backward_open":
        # the whole series backward: both ends of the span left to be resolved by the function
        span = ir.Span(None, None, -1)
    else:
        # backward: the span lists the periods being computed (t+shift), going backward
        span = ir.Span(last + shift, first, -1)
    return getattr(ir, cum)(change, shift, x, span)


# ------------------------------------------------------------------------------------------
# float replay (no proxies)
# ------------------------------------------------------------------------------------------

def replay(case):
    ir = load_irispie()
    fr, off, n, nvar, miss = case["freq"], case["offset"], case["n"], case["nvar"], tuple(tuple(m_) if isinstance(m_, list) else m_ for m_ in case["miss"])
    f = _FREQS[fr][1]
    start = _start(ir, fr, off)
    vals = {k: float(Fraction(a, b)) for k, (a, b) in case["values"].items()}
    # any value the model did not mention
    for i in range(n):
        for v in range(nvar):
            vals.setdefault(f"x{i}v{v}", 1.5 + 0.25 * i + 0.125 * v)
    x = float_series(ir, start, n, nvar, miss, "x", vals)
    cells = cellmap(x)
    kind, op, shift = case["kind"], case["op"], case.get("shift", -1)
    lo, hi = start.serial - 1, start.serial + n + 13
    skip = set()
    try:
        with np.errstate(all="ignore"):
            if kind == "change":
                got = cellmap(_apply(ir, op, x, shift))
                exp, skip = _oracle_change(cells, op, shift, f, nvar, lo, hi)
            elif kind == "achange":
                got = cellmap(_apply(ir, op, x))
                exp = {}
                for (s, v), xt in cells.items():
                    xr = cells.get((s - 1, v))
                    if xr is not None:
                        exp[(s, v)] = _ACHANGE[op](xt, xr, f or 1)
            elif kind == "conversion":
                got = cellmap(_apply(ir, op, _apply(ir, case["src"], x)))
                exp = cellmap(_apply(ir, case["dst"], x))
            elif kind == "cum":
                got = cellmap(_cum_roundtrip(ir, x, op, case["func"], shift, case["direction"]))
                exp = {k: cells[k] for k in got if k in cells} if miss else dict(cells)
                if set(got) - set(cells):
                    return True, f"cells outside the original series: {sorted(set(got) - set(cells))[:3]}"
            else:
                raise ValueError(kind)
    except Exception as exc:
        return True, f"raises {type(exc).__name__}: {exc}"
    gk = {k for k in got if k not in skip and math.isfinite(got[k])}
    ek = {k for k in exp if k not in skip and math.isfinite(exp[k])}
    if gk != ek:
        return True, f"non-missing cells differ: extra {sorted(gk - ek)[:4]} missing {sorted(ek - gk)[:4]}"
    worst, msg = 0.0, "all cells agree"
    for k in gk:
        err = abs(got[k] - exp[k]) / (1 + abs(exp[k]))
        if err > worst:
            worst, msg = err, f"cell {k}: irispie {got[k]!r} vs formula {exp[k]!r}"
    return worst > 1e-9, msg


if __name__ == "__main__":
    standard_main(PID, main, replay)
