"""
C08 -- Smoothed estimates reproduce the data and are a simulation of the model.

Simultaneous.kalman_filter runs through the public API with every observed measurement cell symbolic (symx/kf.py);
smooth_med comes back as Series of affine terms in the observed symbols.  z3 (QF_LRA) decides for all data in the unit box:
  (i)   smooth_med[y] = data wherever observed;
  (ii)  every measurement equation and every backward-looking transition equation, as written in the source, holds on
        smooth_med (including smoothed shocks) wherever all operands are present;
  (iii) a lifted ordinary first-order simulation from the smoothed initial condition with the smoothed shocks reproduces
        the smoothed variables (needs kalman_filter(prepend_initial=True));
  (iv)  deviation mode on data minus steady state gives level-mode results minus steady state.
"""
from __future__ import annotations

import itertools
import math
from fractions import Fraction

import numpy as np
import z3

from symx import sreal as S
from symx import npproxy, zoo, fo, kf
from symx.concolic import model_values
from symx.refeval import Equation
from symx.series_tools import load_irispie
from symx.report import standard_main
from checks.C01 import lab, _cell_term, _box, _steady

PID = "C08"
TOL = Fraction(1, 10 ** 8)
STDS = {"nk3": dict(std_ex=1.0, std_ep=0.5), "ar2m": dict(std_ey=1.0, std_ez=0.5, std_wy=0.3),
        "pc_const": dict(std_ep=0.7, std_ey=1.0, std_wp=0.4), "ur_drift": dict(std_el=1.0, std_eg=0.5)}


def _model(ir, name):
    zm = zoo.by_name(name)
    return zm, fo.build_model(ir, zm, **STDS[name])


def _data_db(ir, zm, start, nper, mask, values=None, offset=None):
    """databox of measurement series; mask[(row, t)] True = observed"""
    db = ir.Databox()
    for r, n in enumerate(zm.mvars):
        vals = []
        for t in range(nper):
            if not mask[(r, t)]:
                vals.append(float("nan"))
            else:
                v = 0.3 + 0.1 * r - 0.05 * t
                if values is not None and f"{n}__{t}" in values:
                    v = float(values[f"{n}__{t}"])
                if offset:
                    v += offset.get(n, 0.0)
                vals.append(v)
        db[n] = ir.Series(start=start, values=tuple(vals))
    return db


def _masks(ny, nper, tier):
    cells = [(r, t) for r in range(ny) for t in range(nper)]
    allm = []
    for bits in itertools.product((True, False), repeat=len(cells)):
        m = dict(zip(cells, bits))
        if not any(bits):
            continue
        allm.append(m)
    if tier == "quick":
        # full, one interior cell missing, one whole period missing, first period missing, only last observed
        pick = [allm[0]]
        for m in allm:
            nmiss = sum(1 for v in m.values() if not v)
            if nmiss == 1 and not m[(0, 1)]:
                pick.append(m)
            if all(m[(r, t)] == (t != 1) for r, t in cells):
                pick.append(m)
            if all(m[(r, t)] == (t != 0) for r, t in cells):
                pick.append(m)
            if all(m[(r, t)] == (t == nper - 1 and r == 0) for r, t in cells):
                pick.append(m)
            if all(m[(r, t)] == (t != nper - 1) for r, t in cells):
                pick.append(m)          # trailing period without observations
        seen, out = set(), []
        for m in pick:
            k = tuple(sorted(m.items()))
            if k not in seen:
                seen.add(k); out.append(m)
        return out
    return allm


def _mask_str(mask, ny, nper):
    return "/".join("".join("o" if mask[(r, t)] else "." for t in range(nper)) for r in range(ny))


def _lifted_filter(ir, zm, m, db, span, deviation, prepend=False, override=None, **kw):
    with kf.KalmanLift(ir, zm.mvars, override=override) as L, S.Path() as path:
        out = m.kalman_filter(db, span, deviation=deviation, prepend_initial=prepend, **kw)
    return out, L, path


def _cells(out, key, name, start, n):
    return kf.series_cells(out[key][name], start, n)


def _within(a, b):
    d = a - b
    return z3.And(d <= TOL, d >= -TOL)


def _decide(run, key, finding, case, claims, syms, paths):
    assume = _box(syms) + [p.condition() for p in paths]
    r0, _ = run.check_sat(assume, timeout_ms=30000)
    if r0 != "sat":
        run.unknown(key, f"reachability witness {r0}")
        return
    run.reach_ok += 1
    if not claims:
        run.unknown(key, "no claim generated")
        return
    viol = z3.Or(*[z3.Not(_within(a, b)) for _, a, b in claims])
    r, mdl = run.check_sat(assume + [viol], timeout_ms=180000)
    if r == "unsat":
        if len(run.samples) < 12:
            l0, a0, b0 = claims[0]
            run.samples.append({"obligation": key, "verdict": "unsat: all claims within 1e-8 for all data in the unit box", "claims": len(claims),
                                "example": f"{l0}: {str(z3.simplify(a0 - b0))[:180]}"})
        run.ok(key)
    elif r == "sat":
        bad = []
        for labl, a, b in claims:
            d = mdl.eval(a - b, model_completion=True)
            fv = Fraction(d.numerator_as_long(), d.denominator_as_long())
            if abs(fv) > TOL:
                bad.append((labl, float(fv)))
        vals = model_values(mdl, sorted(syms))
        run.counterexample(key, finding, f"violated: {bad[:4]}", dict(case, bad=bad[:6], values={n: [v.numerator, v.denominator] for n, v in vals.items()}))
    else:
        run.unknown(key, f"solver {r}")


def _backward_eqs(zm):
    out = []
    for src in zm.teqs:
        eq = Equation(src)
        if all(sh <= 0 for _, sh in eq.occurrences()):
            out.append(src)
    return out


def check_structure(run, ir, zm, m, nper, mask, deviation):
    ms = _mask_str(mask, len(zm.mvars), nper)
    base_key = f"{zm.name}:dev={deviation}:T={nper}:mask={ms}"
    case = dict(model=zm.name, deviation=deviation, nper=nper, mask=ms)
    start = ir.qq(2020, 1)
    span = start >> (start + nper - 1)
    lv, ch = _steady(m)
    db = _data_db(ir, zm, start, nper, mask)
    # ---------------- (i) + (ii): plain call
    out, L, path = _lifted_filter(ir, zm, m, db, span, deviation)
    syms = dict(L.cap["syms"])
    sm = out["smooth_med"]
    claims = []
    for r, n in enumerate(zm.mvars):
        cells = _cells(out, "smooth_med", n, start, nper)
        for t in range(nper):
            if mask[(r, t)]:
                a = _cell_term(cells[t])
                if a is None:
                    run.counterexample(f"data:{base_key}", f"smooth:data:{zm.name}", f"smooth_med[{n}] missing at observed period {t}", dict(case, kind="data"), replay=True)
                    return
                claims.append((f"data:{n}@{t}", a, z3.Real(f"{n}__{t}")))

    def lookup_on(outdict, t, dev):
        def lookup(name, sh):
            if name in zm.params:
                return S.const(zm.params[name])
            c = kf.series_cells(outdict[name], start + t + sh, 1)[0]
            tt = _cell_term(c)
            if tt is None:
                raise KeyError(name)
            r_ = S.SReal(tt)
            if dev and (name in zm.tvars or name in zm.mvars):
                r_ = r_ + S.float_fraction(lv.get(name, 0.0)) + S.float_fraction(ch.get(name, 0.0)) * (t + sh)
            return r_
        return lookup
    for t in range(nper):
        for ei, src in enumerate(list(zm.meqs) + _backward_eqs(zm)):
            try:
                l, r_ = Equation(src).sides(lookup_on(sm, t, deviation), numeric=lambda v: v)
            except KeyError:
                continue          # an operand is missing (unobserved measurement / lag before the span)
            claims.append((f"eq:{src.split('=')[0].strip()}@{t}", S.const(l).t, S.const(r_).t))
    _decide(run, f"data+equations:{base_key}", f"smooth:equations:{zm.name}", dict(case, kind="equations"), claims, syms, [path])
    # ---------------- (iii): resimulation from the smoothed initial condition with the smoothed shocks
    key3 = f"resimulate:{base_key}"
    try:
        out_p, Lp, path_p = _lifted_filter(ir, zm, m, db, span, deviation, prepend=True)
    except S.SymbolicBranchError:
        raise
    except Exception as exc:
        run.counterexample(key3, "kalman_filter:prepend_initial", f"kalman_filter(prepend_initial=True) raises {type(exc).__name__}: {str(exc)[:120]}",
                           dict(case, kind="prepend"), replay=True)
        return
    smp = out_p["smooth_med"]
    syms3 = dict(Lp.cap["syms"])
    override = {}
    maxlag = 2
    for n in zm.tvars:
        for k in range(-maxlag, 0):
            c = kf.series_cells(smp[n], start + k, 1)[0]
            if _cell_term(c) is not None:
                override[(n, k)] = c
    for n in list(zm.tshocks) + list(zm.mshocks):
        for k in range(nper):
            c = kf.series_cells(smp[n], start + k, 1)[0]
            if _cell_term(c) is not None:
                override[(n, k)] = c
    # ordinary simulation: needs a databox with SOMETHING in every cell that is overridden
    sdb = ir.Databox()
    for n in zm.tvars:
        sdb[n] = ir.Series(start=start - maxlag, values=tuple(0.1 for _ in range(maxlag)))
    for n in list(zm.tshocks) + list(zm.mshocks):
        sdb[n] = ir.Series(start=start, values=tuple(0.1 for _ in range(nper)))
    with fo.FirstOrderLift(ir, set(), override=override) as FL, S.Path() as path_s:
        m.simulate(sdb, span, method="first_order", deviation=deviation)
    cap = FL.caps[0]
    row = {n: i for i, n in enumerate(cap["names"])}
    b0 = cap["base_columns"][0]
    claims3 = []
    for n in zm.tvars:
        for k in range(nper):
            a = _cell_term(cap["out"][row[n], b0 + k])
            b = _cell_term(kf.series_cells(smp[n], start + k, 1)[0])
            if a is None or b is None:
                continue
            claims3.append((f"resim:{n}@{k}", a, b))
    _decide(run, key3, f"smooth:resimulate:{zm.name}", dict(case, kind="resimulate"), claims3, syms3, [path_p, path_s])
    # ---------------- (iv): deviation-mode filter on data minus steady = level-mode results minus steady
    if deviation or "unit_root" in zm.tags:
        return
    key4 = f"deviation_vs_level:{base_key}"
    override_d = {}
    names = L.cap["names"]
    for r, n in enumerate(zm.mvars):
        for t in range(nper):
            if mask[(r, t)]:
                override_d[(n, t)] = S.sym(f"{n}__{t}", 0.3) - S.float_fraction(lv.get(n, 0.0)) - S.float_fraction(ch.get(n, 0.0)) * t
    out_d, Ld, path_d = _lifted_filter(ir, zm, m, db, span, True, override=override_d)
    claims4 = []
    for n in list(zm.tvars) + list(zm.tshocks) + list(zm.mshocks):
        cl = kf.series_cells(sm[n], start, nper)
        cd = kf.series_cells(out_d["smooth_med"][n], start, nper)
        for t in range(nper):
            a, b = _cell_term(cl[t]), _cell_term(cd[t])
            if a is None or b is None:
                if (a is None) != (b is None):
                    run.counterexample(key4, f"smooth:deviation:{zm.name}", f"{n}@{t} missing in one mode", dict(case, kind="deviation"), replay=True)
                    return
                continue
            st = S.rv(S.float_fraction(lv.get(n, 0.0))) + S.rv(S.float_fraction(ch.get(n, 0.0))) * t if n in zm.tvars else S.rv(0)
            claims4.append((f"dev:{n}@{t}", a - st, b))
    _decide(run, key4, f"smooth:deviation:{zm.name}", dict(case, kind="deviation"), claims4, syms, [path, path_d])


# ------------------------------------------------------------------------------------------
# a model with LOG-VARIABLES (transition and measurement) and a measurement shock.  It is exactly log-linear, so the equations the
# smoother works with are the source equations in logs; they are stated in logs below and every smoothed log-variable cell
# EXP(affine in LOG(data)) is compared through its exponent (S.mk_log).
# ------------------------------------------------------------------------------------------
LOGM = zoo.ZModel(
    "logm", ("y", "z"), ("ey", "ez"),
    ("y = y[-1]^rho * s^(1-rho) * exp(ey)", "z = 0.5*z[-1] + 0.3*log(y) + ez"),
    dict(rho=Fraction(4, 5), s=Fraction(2)), mvars=("oy", "oz"), mshocks=("wy",), meqs=("oy = y*exp(wy)", "oz = z + 0.5*log(y)"),
    linear=False, logvars=("y", "oy"), tags=("backward", "logvar", "measurement"), forward=0)
LOGM_STDS = dict(std_ey=1.0, std_ez=0.5, std_wy=0.3)
LOGM_STEADY = {"y": 2.0, "oy": 2.0, "z": 0.6 * math.log(2.0), "oz": 1.1 * math.log(2.0)}     # closed form (the oracle's own statement)


def _logm_model(ir):
    import contextlib, io
    with contextlib.redirect_stdout(io.StringIO()):
        return fo.build_model(ir, LOGM, y=2.0, z=0.4, oy=2.0, oz=0.7, **LOGM_STDS)


def _logm_db(ir, start, nper, mask, deviation, values=None):
    db = ir.Databox()
    for r, n in enumerate(LOGM.mvars):
        vals = []
        for t in range(nper):
            if not mask[(r, t)]:
                vals.append(float("nan"))
                continue
            if n == "oy":
                v = (1.0 if deviation else 2.0) * (1.0 + 0.125 * t)
            else:
                v = (0.0 if deviation else LOGM_STEADY["oz"]) + 0.25 - 0.125 * t
            if values is not None and f"{n}__{t}" in values:
                v = float(values[f"{n}__{t}"])
            vals.append(v)
        db[n] = ir.Series(start=start, values=tuple(vals))
    return db


def _logm_residuals(getl, get, has, nper, mask):
    """the four equations in logs; getl(name, t) = log of a log-variable, get(name, t) = value of anything else; has(name, t)"""
    rho, ls = float(LOGM.params["rho"]), math.log(float(LOGM.params["s"]))
    out = []
    for t in range(nper):
        if t >= 1:
            out.append((f"eq:y@{t}", getl("y", t) - (rho * getl("y", t - 1) + (1 - rho) * ls + get("ey", t))))
            out.append((f"eq:z@{t}", get("z", t) - (0.5 * get("z", t - 1) + 0.3 * getl("y", t) + get("ez", t))))
        if mask[(0, t)]:
            out.append((f"eq:oy@{t}", getl("oy", t) - (getl("y", t) + get("wy", t))))
        if mask[(1, t)]:
            out.append((f"eq:oz@{t}", get("oz", t) - (get("z", t) + 0.5 * getl("y", t))))
    return out


def check_log_model(run, ir, m, nper, mask, deviation):
    ms = _mask_str(mask, 2, nper)
    key = f"data+equations:logm:dev={deviation}:T={nper}:mask={ms}"
    case = dict(kind="logm", model="logm", deviation=deviation, nper=nper, mask=ms)
    start = ir.qq(2020, 1)
    span = start >> (start + nper - 1)
    db = _logm_db(ir, start, nper, mask, deviation)
    try:
        with kf.KalmanLift(ir, LOGM.mvars) as L, S.Path() as path:
            out = m.kalman_filter(db, span, deviation=deviation)
    except S.SymbolicBranchError:
        raise
    except Exception as exc:
        run.counterexample(key, "smooth:raises:logm", f"kalman_filter raises {type(exc).__name__}: {str(exc)[:140]}", dict(case, values={}))
        return
    syms = dict(L.cap["syms"])
    sm = out["smooth_med"]

    def cell(name, t):
        return _cell_term(kf.series_cells(sm[name], start + t, 1)[0])

    def getl(name, t):
        c = cell(name, t)
        if c is None:
            raise KeyError(name)
        v = S.mk_log(c)
        return v + S.rv(S.float_fraction(math.log(LOGM_STEADY[name]))) if deviation else v

    def get(name, t):
        c = cell(name, t)
        if c is None:
            raise KeyError(name)
        if deviation and name in ("z", "oz"):
            return c + S.rv(S.float_fraction(LOGM_STEADY[name]))
        return c
    claims = []
    for r, n in enumerate(LOGM.mvars):
        for t in range(nper):
            if mask[(r, t)]:
                a = cell(n, t)
                if a is None:
                    run.counterexample(key, "smooth:data:logm", f"smooth_med[{n}] missing at observed period {t}", dict(case, values={}))
                    return
                claims.append((f"data:{n}@{t}", a - z3.Real(f"{n}__{t}")))
    try:
        claims += _logm_residuals(getl, get, None, nper, mask)
    except KeyError as exc:
        run.counterexample(key, "smooth:data:logm", f"smooth_med cell missing: {exc}", dict(case, values={}))
        return
    dom = []
    for n, sy in syms.items():
        if n.startswith("oy__"):
            dom.append(z3.And(sy.t >= Fraction(1, 4), sy.t <= 4))
        else:
            dom.append(z3.And(sy.t >= -1, sy.t <= 2))
    logb = [z3.And(S.LOG(sy.t) >= -Fraction(7, 5), S.LOG(sy.t) <= Fraction(7, 5)) for n, sy in syms.items() if n.startswith("oy__")]
    assume = dom + logb + [path.condition()]
    r0, _ = run.check_sat(assume, timeout_ms=30000)
    if r0 != "sat":
        run.unknown(key, f"reachability witness {r0}")
        return
    run.reach_ok += 1
    terms = [c for _, c in claims]
    viol = z3.Or(*[z3.Or(c > TOL, c < -TOL) for c in terms])
    r, mdl = run.check_sat(assume + [viol], timeout_ms=180000)
    if r == "unsat":
        if len(run.samples) < 12:
            run.samples.append({"obligation": key, "verdict": "unsat: data reproduced and the four equations hold in logs (1e-8) for all positive oy in [1/4,4], oz in [-1,2]",
                                "claims": len(claims), "example": f"{claims[-1][0]}: {str(z3.simplify(claims[-1][1]))[:180]}"})
        run.ok(key)
    elif r == "sat":
        big = z3.Or(*[z3.Or(c > Fraction(1, 1000), c < -Fraction(1, 1000)) for c in terms])
        rb, mb = run.check_sat(assume + [big], timeout_ms=60000)
        if rb == "sat":
            mdl = mb
        vals = model_values(mdl, sorted(syms))
        bad = []
        for labl, c in claims:
            try:
                d = mdl.eval(c, model_completion=True)
                fv = Fraction(d.numerator_as_long(), d.denominator_as_long())
                if abs(fv) > TOL:
                    bad.append((labl, float(fv)))
            except Exception:
                pass
        run.counterexample(key, "smooth:equations:logm", f"violated: {bad[:4]}", dict(case, bad=bad[:6], values={n: [v.numerator, v.denominator] for n, v in vals.items()}))
    else:
        run.unknown(key, f"solver {r}")


def _logm_replay(ir, case, vals):
    nper, deviation = case["nper"], case["deviation"]
    rows = case["mask"].split("/")
    mask = {(r, t): rows[r][t] == "o" for r in range(2) for t in range(nper)}
    m = _logm_model(ir)
    start = ir.qq(2020, 1)
    span = start >> (start + nper - 1)
    db = _logm_db(ir, start, nper, mask, deviation, values=vals)
    try:
        out = m.kalman_filter(db, span, deviation=deviation)
    except Exception as exc:
        return True, f"kalman_filter raises {type(exc).__name__}: {exc}"
    sm = out["smooth_med"]

    def g(n, t):
        s_ = sm[n]
        per = start + t
        if s_.start is None or per < s_.start or per > s_.end:
            return float("nan")
        return float(np.asarray(s_.get_data(per)).reshape(-1)[0])
    getl = lambda n, t: math.log(g(n, t)) + (math.log(LOGM_STEADY[n]) if deviation else 0.0)
    get = lambda n, t: g(n, t) + (LOGM_STEADY[n] if deviation and n in ("z", "oz") else 0.0)
    worst, msg = 0.0, "all claims hold"
    for r, n in enumerate(LOGM.mvars):
        for t in range(nper):
            if mask[(r, t)]:
                dd = abs(g(n, t) - float(np.asarray(db[n].get_data(start + t)).reshape(-1)[0]))
                if not dd <= worst:
                    worst, msg = (dd if dd == dd else float("inf")), f"data:{n}@{t}"
    for labl, rres in _logm_residuals(getl, get, None, nper, mask):
        if not abs(rres) <= worst:
            worst, msg = (abs(rres) if rres == rres else float("inf")), f"{labl}: log residual {rres!r}"
    return worst > 1e-6, msg



def check_variant_dispatch(run, ir, zm, m, nper, mask):
    """variant 1 of a two-variant model whose variants differ in a PARAMETER (hence in solution and steady state) is filtered and smoothed
    like the single-variant model with variant 1's values (for which the obligations above decide data reproduction and the equations)"""
    ms = _mask_str(mask, len(zm.mvars), nper)
    key = f"variants:{zm.name}:T={nper}:mask={ms}"
    case = dict(kind="variants", model=zm.name, nper=nper, mask=ms, deviation=False)
    pname = sorted(zm.params)[0]
    p0 = float(zm.params[pname])
    start = ir.qq(2020, 1)
    span = start >> (start + nper - 1)
    db = _data_db(ir, zm, start, nper, mask)
    m2 = fo.build_model(ir, zm, solve=False, **STDS[zm.name])
    m2.alter_num_variants(2)
    m2.assign(**{pname: [p0, 0.8 * p0]})
    m2.steady(); m2.solve()
    f1 = fo.build_model(ir, zm, **dict(STDS[zm.name], **{pname: 0.8 * p0}))
    try:
        with kf.KalmanLift(ir, zm.mvars) as L2, S.Path() as path2:
            two = m2.kalman_filter(db, span, deviation=False)
        with kf.KalmanLift(ir, zm.mvars) as L1, S.Path() as path1:
            one = f1.kalman_filter(db, span, deviation=False)
    except S.SymbolicBranchError:
        raise
    except Exception as exc:
        run.counterexample(key, f"smooth:variants:raises:{zm.name}", f"two-variant kalman_filter raises {type(exc).__name__}: {str(exc)[:120]}", dict(case, values={}))
        return
    claims = []
    for kind in ("predict_med", "update_med", "smooth_med"):
        for n in list(zm.tvars) + list(zm.tshocks) + list(zm.mshocks):
            if n not in two[kind] or n not in one[kind]:
                continue
            a_ser, b_ser = two[kind][n], one[kind][n]
            for k in range(nper):
                per = start + k
                def cell_of(ser, variant):
                    if ser.start is None or per < ser.start or per > ser.end or ser.data.shape[1] <= variant:
                        return None
                    return _cell_term(ser.data[per - ser.start, variant])
                a, b = cell_of(a_ser, 1), cell_of(b_ser, 0)
                if (a is None) != (b is None):
                    run.counterexample(key, f"smooth:variants:{zm.name}", f"{kind}[{n}]@{k}: missing in one of the two runs", dict(case, values={}))
                    return
                if a is not None:
                    claims.append((f"{kind}:{n}@{k}", a, b))
    _decide(run, key, f"smooth:variants:{zm.name}", case, claims, dict(L2.cap["syms"]), [path1, path2])


def main(run):
    ir = load_irispie()
    run.extra["proxy_selftest_checks"] = npproxy.selftest()
    run.functions_encoded += [
        "fords.kalmans.{kalman_filter,predict,update,smooth,one_step_back,Cache.*,_OutputStore.store_predict/store_update/store_smooth/_expand_y_to_full,"
        "_MedLogDataslate,_StdLogDataslate}", "simultaneous._kalmans.{_generate_period_system,_generate_period_data}", "fords.initializers.initialize",
        "fords.covariances.symmetrize", "dataslates.Dataslate.{from_databox_for_slatable,nan_from_template,to_databox} on object data",
        "fords.simulators.simulate_flat (re-simulation leg)", "reached through Simultaneous.kalman_filter / Simultaneous.simulate",
    ]
    run.bounds["structures"] = ("zoo models with a measurement block (nk3, ar2m, ur_drift with a unit root under fixed_unknown; pc_const in thorough); deviation in {True,False}; T=3 periods; "
                                f"missing-data masks: {'5 representative masks' if run.tier == 'quick' else 'every non-empty mask'} per model; stds fixed")
    run.bounds["variants"] = "two-variant models (ar2m, nk3) whose second variant has a different parameter value: its predicted/updated/smoothed means equal those of the single-variant model"
    run.bounds["log_model"] = "logm: log transition variable y, log measurement variable oy with a measurement shock, z and oz in levels; same masks; deviation in {True,False}; oy in [1/4,4]"
    run.bounds["values"] = "every observed cell an independent real in [-1,1]; tolerance 1e-8 (gains computed by float LAPACK)"
    run.stubs += ["numpy.linalg.inv/det applied to concrete (data-independent) covariance matrices through ground-concretising shims",
                  "fords.kalmans.Dataslate wrapped: measurement rows symbolised, output slates object-dtype"]
    run.assumptions += ["cells are mathematical reals; float-born coefficients read exactly", "stds and parameters concrete",
                        "equations are asserted only where every operand is present in smooth_med"]
    run.stubs.append("numpy.linalg.lstsq(A concrete, b symbolic) -> pinv(A) @ b (fixed_unknown initial condition of unit-root models)")
    run.outside += ["deviation mode and approx_diffuse for unit-root models", "time-varying stds", "log-variables beyond the exactly log-linear model logm (data reproduced and equations in logs; no re-simulation leg)", "spans longer than 3 periods"]
    models = ("nk3", "ar2m", "ur_drift") if run.tier == "quick" else ("nk3", "ar2m", "pc_const", "ur_drift")
    nper = 3
    for name in models:
        zm, m = _model(ir, name)
        for mask in _masks(len(zm.mvars), nper, run.tier):
            for deviation in ((False, True) if "unit_root" not in zm.tags else (False,)):
                try:
                    check_structure(run, ir, zm, m, nper, mask, deviation)
                except S.SymbolicBranchError as exc:
                    run.unknown(f"{zm.name}:{_mask_str(mask, len(zm.mvars), nper)}:dev={deviation}", exc)
                except Exception as exc:
                    run.error(f"{zm.name}:{_mask_str(mask, len(zm.mvars), nper)}:dev={deviation}", exc)
    for name in ("ar2m", "nk3"):
        zm, m = _model(ir, name)
        masks = _masks(len(zm.mvars), nper, run.tier)
        for mask in (masks[:2] if run.tier == "quick" else masks[:6]):
            try:
                check_variant_dispatch(run, ir, zm, m, nper, mask)
            except S.SymbolicBranchError as exc:
                run.unknown(f"variants:{zm.name}:{_mask_str(mask, len(zm.mvars), nper)}", exc)
            except Exception as exc:
                run.error(f"variants:{zm.name}:{_mask_str(mask, len(zm.mvars), nper)}", exc)
    mlog = _logm_model(ir)
    for mask in _masks(2, nper, run.tier):
        for deviation in (False, True):
            try:
                check_log_model(run, ir, mlog, nper, mask, deviation)
            except S.SymbolicBranchError as exc:
                run.unknown(f"logm:{_mask_str(mask, 2, nper)}:dev={deviation}", exc)
            except Exception as exc:
                run.error(f"logm:{_mask_str(mask, 2, nper)}:dev={deviation}", exc)
    run.extra["exhaustive"] = True


def replay(case):
    ir = load_irispie()
    if case.get("kind") == "logm":
        return _logm_replay(ir, case, {k: float(Fraction(a, b)) for k, (a, b) in case.get("values", {}).items()})
    if case.get("kind") == "variants":
        zm = zoo.by_name(case["model"])
        nper = case["nper"]
        rows = case["mask"].split("/")
        mask = {(r, t): rows[r][t] == "o" for r in range(len(zm.mvars)) for t in range(nper)}
        vals = {k: float(Fraction(a, b)) for k, (a, b) in case.get("values", {}).items()}
        start = ir.qq(2020, 1)
        span = start >> (start + nper - 1)
        db = _data_db(ir, zm, start, nper, mask, values=vals)
        pname = sorted(zm.params)[0]
        p0 = float(zm.params[pname])
        m2 = fo.build_model(ir, zm, solve=False, **STDS[zm.name])
        m2.alter_num_variants(2); m2.assign(**{pname: [p0, 0.8 * p0]}); m2.steady(); m2.solve()
        f1 = fo.build_model(ir, zm, **dict(STDS[zm.name], **{pname: 0.8 * p0}))
        try:
            two = m2.kalman_filter(db, span, deviation=False)
            one = f1.kalman_filter(db, span, deviation=False)
        except Exception as exc:
            return True, f"kalman_filter raises {type(exc).__name__}: {exc}"
        worst, msg = 0.0, "variant 1 equals the single-variant model"
        for kind in ("predict_med", "update_med", "smooth_med"):
            for n in list(zm.tvars) + list(zm.tshocks) + list(zm.mshocks):
                if n not in two[kind] or n not in one[kind]:
                    continue
                a = np.asarray(two[kind][n].get_data(span), dtype=float)
                b = np.asarray(one[kind][n].get_data(span), dtype=float)
                if a.shape[1] < 2:
                    return True, f"{kind}[{n}] has one variant only"
                d = np.abs(a[:, 1] - b[:, 0])
                d = float(np.nanmax(d)) if np.isfinite(d).any() else 0.0
                if d > worst:
                    worst, msg = d, f"{kind}[{n}]: variant 1 differs from the single-variant model by {d!r}"
        return worst > 1e-7, msg
    zm, m = _model(ir, case["model"])
    nper, deviation = case["nper"], case["deviation"]
    rows = case["mask"].split("/")
    mask = {(r, t): rows[r][t] == "o" for r in range(len(zm.mvars)) for t in range(nper)}
    vals = {k: float(Fraction(a, b)) for k, (a, b) in case.get("values", {}).items()}
    start = ir.qq(2020, 1)
    span = start >> (start + nper - 1)
    lv, ch = _steady(m)
    db = _data_db(ir, zm, start, nper, mask, values=vals)
    kind = case["kind"]
    worst, msg = 0.0, "all claims hold"

    def cmp(label, a, b):
        nonlocal worst, msg
        if math.isnan(a) or math.isnan(b):
            return
        if abs(a - b) > worst:
            worst, msg = abs(a - b), f"{label}: {a!r} vs {b!r}"

    def g(box, n, per):
        s = box[n]
        if s.start is None or per < s.start or per > s.end:
            return float("nan")
        return float(np.asarray(s.get_data(per)).reshape(-1)[0])
    if kind == "prepend":
        try:
            m.kalman_filter(db, span, deviation=deviation, prepend_initial=True)
        except Exception as exc:
            return True, f"raises {type(exc).__name__}: {exc}"
        return False, "no exception"
    out = m.kalman_filter(db, span, deviation=deviation)
    sm = out["smooth_med"]
    if kind in ("data", "equations"):
        for r, n in enumerate(zm.mvars):
            for t in range(nper):
                if mask[(r, t)]:
                    a = g(sm, n, start + t)
                    if math.isnan(a):
                        return True, f"smooth_med[{n}] missing at observed period {t}"
                    cmp(f"data:{n}@{t}", a, g(db, n, start + t))
        for t in range(nper):
            def lookup(name, sh, t=t):
                if name in zm.params:
                    return float(zm.params[name])
                v = g(sm, name, start + t + sh)
                if math.isnan(v):
                    raise KeyError(name)
                if deviation and (name in zm.tvars or name in zm.mvars):
                    v += lv.get(name, 0.0) + ch.get(name, 0.0) * (t + sh)
                return v
            for src in list(zm.meqs) + _backward_eqs(zm):
                try:
                    l, r_ = Equation(src).sides(lookup)
                except KeyError:
                    continue
                cmp(f"eq:{src}@{t}", l, r_)
    elif kind == "resimulate":
        outp = m.kalman_filter(db, span, deviation=deviation, prepend_initial=True)
        smp = outp["smooth_med"]
        sdb = ir.Databox()
        for n in zm.tvars:
            sdb[n] = smp[n](start - 2 >> start - 1)
        for n in list(zm.tshocks) + list(zm.mshocks):
            sdb[n] = smp[n](span)
        sim = m.simulate(sdb, span, method="first_order", deviation=deviation)
        for n in zm.tvars:
            for k in range(nper):
                cmp(f"resim:{n}@{k}", g(sim, n, start + k), g(smp, n, start + k))
    elif kind == "deviation":
        dbd = ir.Databox()
        for r, n in enumerate(zm.mvars):
            vals_ = []
            for t in range(nper):
                v = g(db, n, start + t)
                vals_.append(v - lv.get(n, 0.0) - ch.get(n, 0.0) * t if not math.isnan(v) else float("nan"))
            dbd[n] = ir.Series(start=start, values=tuple(vals_))
        outd = m.kalman_filter(dbd, span, deviation=True)
        for n in list(zm.tvars) + list(zm.tshocks) + list(zm.mshocks):
            for t in range(nper):
                a, b = g(sm, n, start + t), g(outd["smooth_med"], n, start + t)
                if math.isnan(a) != math.isnan(b):
                    return True, f"{n}@{t} missing in one mode"
                st = lv.get(n, 0.0) + ch.get(n, 0.0) * t if n in zm.tvars else 0.0
                cmp(f"dev:{n}@{t}", a - st, b)
    return worst > 1e-6, msg


if __name__ == "__main__":
    standard_main(PID, main, replay)
