"""
C04 -- Model source text is translated to equations without changing their meaning.

Program dimension (sources) enumerated from a bounded grammar of syntactic alternatives; data dimension symbolic:
for every parsed model the real evaluators model._invariant._plain_dynamic_equator / _plain_steady_equator run on an
object array with one symbol per (quantity, column); the oracle is the reference evaluator (symx/refeval.py, own parser
and own pseudofunction semantics) applied to the STRUCTURED model the source was rendered from.  z3 decides
`exists data: impl != rhs - lhs` (QF_UFNRA, exact).  Names, kinds, descriptions and log status are compared concretely.
"""
from __future__ import annotations

import itertools
import math
from fractions import Fraction

import numpy as np
import z3

from symx import sreal as S
from symx import npproxy
from symx.lift import exp_log_axioms, div_domain
from symx.refeval import Equation
from symx.series_tools import load_irispie
from symx.concolic import model_values
from symx.report import standard_main

PID = "C04"
NCOL, T0 = 37, 24          # columns T0-24 .. T0+12: room for two-digit lags and leads


# ------------------------------------------------------------------------------------------
# structured model + renderers
# ------------------------------------------------------------------------------------------

class Spec:
    """structured model: the oracle side"""

    def __init__(self, tvars, tshocks, params, teqs, mvars=(), mshocks=(), meqs=(), xvars=(), logvars=(), desc=None, eqdesc=None, steady=None):
        self.tvars, self.tshocks, self.params, self.teqs = list(tvars), list(tshocks), list(params), list(teqs)
        self.mvars, self.mshocks, self.meqs, self.xvars = list(mvars), list(mshocks), list(meqs), list(xvars)
        self.logvars = set(logvars)
        self.desc = dict(desc or {})
        self.eqdesc = dict(eqdesc or {})       # index -> description
        self.steady = dict(steady or {})       # index -> steady version text

    def kinds(self):
        k = {}
        for n in self.tvars: k[n] = "TRANSITION_VARIABLE"
        for n in self.tshocks: k[n] = "TRANSITION_SHOCK"
        for n in self.params: k[n] = "PARAMETER"
        for n in self.mvars: k[n] = "MEASUREMENT_VARIABLE"
        for n in self.mshocks: k[n] = "MEASUREMENT_SHOCK"
        for n in self.xvars: k[n] = "EXOGENOUS_VARIABLE"
        for n in self.tshocks:
            k["ant_" + n] = "ANTICIPATED_SHOCK_VALUE"
            k["std_" + n] = "TRANSITION_STD"
        for n in self.mshocks:
            k["std_" + n] = "MEASUREMENT_STD"
        return k

    def equations(self):
        return list(self.teqs) + list(self.meqs)


def render_plain(sp, shift_style="[", assign="=", power="^", kw=None, sep=", ", extra_head="", eq_prefix=lambda i: "", eq_suffix=lambda i: "",
                 name_fmt=lambda n, d: (f'"{d}" ' if d else "") + n, log_block=None):
    kw = kw or {}
    K = lambda k: kw.get(k, k)

    def eqtext(i, e):
        t = e
        if shift_style == "{":
            t = t.replace("[", "{").replace("]", "}")
        if assign != "=":
            t = t.replace(" = ", f" {assign} ", 1)
        if power != "^":
            t = t.replace("^", power)
        if i in sp.steady:
            st = sp.steady[i]
            if shift_style == "{":
                st = st.replace("[", "{").replace("]", "}")
            t = t + " !! " + st
        d = sp.eqdesc.get(i)
        return eq_prefix(i) + (f'"{d}" ' if d else "") + t + ";" + eq_suffix(i)
    s = extra_head
    s += f"{K('!transition-variables')}\n    " + sep.join(name_fmt(n, sp.desc.get(n)) for n in sp.tvars) + "\n"
    if sp.tshocks:
        s += f"{K('!transition-shocks')}\n    " + sep.join(name_fmt(n, sp.desc.get(n)) for n in sp.tshocks) + "\n"
    if sp.params:
        s += f"{K('!parameters')}\n    " + sep.join(name_fmt(n, sp.desc.get(n)) for n in sp.params) + "\n"
    if sp.xvars:
        s += f"{K('!exogenous-variables')}\n    " + sep.join(name_fmt(n, sp.desc.get(n)) for n in sp.xvars) + "\n"
    s += f"{K('!transition-equations')}\n" + "".join("    " + eqtext(i, e) + "\n" for i, e in enumerate(sp.teqs))
    if sp.mvars:
        s += f"{K('!measurement-variables')}\n    " + sep.join(name_fmt(n, sp.desc.get(n)) for n in sp.mvars) + "\n"
        if sp.mshocks:
            s += f"{K('!measurement-shocks')}\n    " + sep.join(name_fmt(n, sp.desc.get(n)) for n in sp.mshocks) + "\n"
        s += f"{K('!measurement-equations')}\n" + "".join("    " + eqtext(len(sp.teqs) + i, e) + "\n" for i, e in enumerate(sp.meqs))
    if log_block is not None:
        s += log_block + "\n"
    elif sp.logvars:
        s += "!log-variables\n    " + ", ".join(sorted(sp.logvars)) + "\n"
    return s


def base_spec(expr="a*x[-1]", **kw):
    return Spec(("x", "y", "z"), ("e",), ("a", "b"),
                (f"x = {expr} + e", "y = a*y[-1] + b", "z = z[-1]*0.5 + x[+1] - y[-2]^2"), **kw)


PSEUDO = ("diff", "diff_log", "difflog", "pct", "roc", "mov_sum", "movsum", "mov_avg", "movavg", "mov_prod", "movprod", "shift")
INNER = ("y", "y[-1]", "z[+1]", "(y+z[-1])", "a*y", "log(y)", "y*z[-2]")


def cases(tier):
    """yield (case id, source text, Spec expected, context, expect) ; expect in {'equal', 'equal_or_reject'}"""
    out = []
    # ---- A. pseudofunctions
    for f in PSEUDO:
        shifts = [None, -1, -2, -4] + ([1, 2] if f in ("diff", "pct", "roc", "shift", "diff_log") else [])
        inners = INNER if tier == "thorough" else INNER[:4] + INNER[5:6]
        for k in shifts:
            for inner in inners:
                if tier == "quick" and not (k in (None, -2) or inner in ("y", "(y+z[-1])")):
                    continue
                call = f"{f}({inner})" if k is None else f"{f}({inner}, {k:+d})" if k > 0 else f"{f}({inner}, {k})"
                sp = base_spec(f"0.5*{call}")
                out.append((f"pseudo:{call}", render_plain(sp), sp, None, "equal"))
    # spacing variants and brace shifts inside pseudofunction arguments
    for call, canon in (("diff( y , -2 )", "diff(y, -2)"), ("pct(y{-1},-2)", "pct(y[-1], -2)"), ("roc( (y + z{-1}) )", "roc((y+z[-1]))"),
                        ("mov_avg(y,-3)", "mov_avg(y, -3)"), ("shift(y)", "shift(y)"), ("diff_log(y, -4)", "diff_log(y, -4)")):
        sp = base_spec(f"0.5*{canon}")
        src = render_plain(sp).replace(canon, call)
        out.append((f"pseudo_spacing:{call}", src, sp, None, "equal"))
    # an unparenthesised sum as the argument: the expansion must bind as a whole
    for f in ("shift", "diff", "roc", "mov_sum", "pct"):
        call = f"{f}(y+z[-1], -2)"
        sp = base_spec(f"0.5*{call}")
        out.append((f"pseudo_sum_argument:{call}", render_plain(sp), sp, None, "equal"))
    # two-digit time shifts, written and generated by pseudofunctions (monthly models: 12-period lags)
    for expr, cid in (("a*x[-1] + 0.5*y[-12] - z[+10]", "written"), ("a*x[-12] + y[-11]*z[-10]", "written_product")):
        sp = base_spec(expr)
        out.append((f"two_digit_shift:{cid}", render_plain(sp), sp, None, "equal"))
        out.append((f"two_digit_shift:{cid}:curly", render_plain(sp, shift_style="{"), sp, None, "equal"))
    for call in ("diff(y, -12)", "pct(y, -12)", "mov_sum(y, -12)", "mov_avg(y[-1], -11)", "shift(y[-6], -6)", "roc(y, -10)", "diff_log(y[-3], -12)"):
        sp = base_spec(f"0.5*{call}")
        out.append((f"two_digit_shift:{call}", render_plain(sp), sp, None, "equal"))
    # shocks at a lag or lead (each occurrence stands for shock + anticipated twin at that date)
    for expr, cid in (("a*x[-1] + 0.5*e[-1]", "lagged_shock"), ("a*x[-1] + 0.25*e[+1] - e[-2]", "led_and_lagged_shock")):
        sp = base_spec(expr)
        out.append((f"shock_shift:{cid}", render_plain(sp), sp, None, "equal"))
        out.append((f"shock_shift:{cid}:curly", render_plain(sp, shift_style="{"), sp, None, "equal"))
    # forms the regex expansion cannot handle must be rejected, never evaluated to something else
    for call in ("diff(diff(y))", "diff(log(y+(z)))", "mov_sum(pct(y), -2)", "diff(y[-1], -1) + roc(shift(z))"):
        sp = base_spec(f"0.5*{call}")
        out.append((f"pseudo_hard:{call}", render_plain(sp), sp, None, "equal_or_reject"))
    # ---- B. syntactic alternatives of one model
    full = Spec(("x", "y", "z"), ("e", "u"), ("a", "b"),
                ("x = a*x[-1] + diff(y, -2) + e", "y = a*y[-1] + b*x[+1]^2 + u", "z = z[-1]*0.5 + pct(x) - y[-2]"),
                mvars=("ox",), mshocks=("wo",), meqs=("ox = x + 2*z + wo",), xvars=("w",), logvars=("y",),
                desc={"x": "Output gap", "e": "Demand shock", "a": "Persistence", "ox": "Observed x"},
                eqdesc={0: "IS curve", 3: "Measurement of x"}, steady={1: "y = b"})
    full.teqs[2] = "z = z[-1]*0.5 + pct(x) - y[-2] + w"
    B = []
    B.append(("plain", render_plain(full), None))
    B.append(("curly_shifts", render_plain(full, shift_style="{"), None))
    B.append(("assign_:=", render_plain(full, assign=":="), None))
    B.append(("power_**", render_plain(full, power="**"), None))
    B.append(("aliases", render_plain(full, kw={"!transition-variables": "!variables", "!transition-shocks": "!shocks", "!transition-equations": "!equations"}), None))
    B.append(("underscores", render_plain(full, kw={"!transition-variables": "!transition_variables", "!transition-shocks": "!transition_shocks",
                                                      "!transition-equations": "!transition_equations", "!measurement-variables": "!measurement_variables",
                                                      "!measurement-shocks": "!measurement_shocks", "!measurement-equations": "!measurement_equations",
                                                      "!exogenous-variables": "!exogenous_variables"}), None))
    B.append(("newline_separated_names", render_plain(full, sep="\n    "), None))
    B.append(("semicolon_separated_names", render_plain(full, sep="; "), None))
    B.append(("line_comments", render_plain(full, eq_suffix=lambda i: "  % trailing comment with = and ; inside" if i % 2 == 0 else "  # another one"), None))
    B.append(("block_comment", render_plain(full, extra_head="%{ a block\n comment x = 1; %}\n"), None))
    B.append(("hash_block_comment", render_plain(full, extra_head="#{ !transition-variables q #}\n"), None))
    cont = render_plain(full).replace("a*x[-1] + diff(y, -2)", "a*x[-1] ... continued on the next line\n        + diff(y, -2)")
    B.append(("line_continuation", cont, None))
    cont2 = render_plain(full).replace("a*x[-1] + diff(y, -2)", "a*x[-1] \\ backslash continuation\n        + diff(y, -2)")
    B.append(("backslash_continuation", cont2, None))
    B.append(("attributes", render_plain(full).replace("!transition-variables\n", "!transition-variables{:main :core}\n", 1), None))
    B.append(("log_all_but", render_plain(full, log_block="!log-variables !all-but\n    x, z, ox, w"), None))
    B.append(("log_all_but_underscore", render_plain(full, log_block="!log_variables !all_but\n    x, z, ox, w"), None))
    # blocks split in two
    split = render_plain(full).replace("!parameters\n    ", "!parameters\n    ").replace('"Persistence" a, b', '"Persistence" a\n!parameters\n    b')
    B.append(("split_blocks", split, None))
    # !for loop over two structurally identical equations
    loop = Spec(("x", "y", "z"), ("e",), ("a", "b"),
                ("x = a*x[-1] + b + e", "y = a*y[-1] + b + e", "z = x[-1] - y[+1]"))
    loop_src = ("!transition-variables\n    x, y, z\n!transition-shocks\n    e\n!parameters\n    a, b\n!transition-equations\n"
                "    !for ?v = x, y !do\n        ?v = a*?v[-1] + b + e;\n    !end\n    z = x[-1] - y[+1];\n")
    B2 = [("for_loop", loop_src, loop, None)]
    B2.append(("for_loop_colon", loop_src.replace("?v = x, y", "?v : x y"), loop, None))
    B2.append(("for_loop_default_control", loop_src.replace("?v = x, y", "x, y").replace("?v", "?"), loop, None))
    B2.append(("for_loop_context_tokens", loop_src.replace("?v = x, y", "?v = <names>"), loop, {"names": ["x", "y"]}))
    B2.append(("for_in_declaration", loop_src.replace("    x, y, z\n", "    !for x, y, z !do ? !end\n"), loop, None))
    ifsrc = ("!transition-variables\n    x, y, z\n!transition-shocks\n    e\n!parameters\n    a, b\n!transition-equations\n"
             "    x = a*x[-1] + b + e;\n    !if flag !then\n    y = a*y[-1] + b + e;\n    !else\n    y = 0;\n    !end\n    z = x[-1] - y[+1];\n")
    B2.append(("if_true", ifsrc, loop, {"flag": True}))
    other = Spec(("x", "y", "z"), ("e",), ("a", "b"), ("x = a*x[-1] + b + e", "y = 0", "z = x[-1] - y[+1]"))
    B2.append(("if_false", ifsrc, other, {"flag": False}))
    # parenthesised control names and their case-changing spellings: ?(c) token as written, ?[c] lower case, ?{c} upper case, ?(c)|lower, ?(c)|upper
    def _case_loop(body_token, names):
        return ("!transition-variables\n    !for ?(c) = Us, eA !do x_" + body_token + " !end\n!transition-shocks\n    e\n!parameters\n    a, b\n!transition-equations\n"
                "    !for ?(c) = Us, eA !do\n        x_" + body_token + " = a*x_" + body_token + "[-1] + b + e;\n    !end\n",
                Spec(names, ("e",), ("a", "b"), tuple(f"{n} = a*{n}[-1] + b + e" for n in names)))
    for cid, tok, names in (("as_written", "?(c)", ("x_Us", "x_eA")), ("lower_bracket", "?[c]", ("x_us", "x_ea")), ("upper_brace", "?{c}", ("x_US", "x_EA")),
                            ("lower_filter", "?(c)|lower", ("x_us", "x_ea")), ("upper_filter", "?(c)|upper", ("x_US", "x_EA"))):
        src_, sp_ = _case_loop(tok, names)
        B2.append((f"for_loop_control_case:{cid}", src_, sp_, None))
    # signed numbers as !for tokens (lags generated by a loop), written directly and produced by a contextual expression
    negsp = Spec(("x", "y", "z"), ("e",), ("a", "b"), ("x = a*x[-1] + b*y[-1] + b*y[-2] + e", "y = a*y[-1] + b + e", "z = x[-1] - y[+1]"))
    negsrc = ("!transition-variables\n    x, y, z\n!transition-shocks\n    e\n!parameters\n    a, b\n!transition-equations\n"
              "    x = a*x[-1] !for ?k = -1, -2 !do + b*y[?k] !end + e;\n    y = a*y[-1] + b + e;\n    z = x[-1] - y[+1];\n")
    B2.append(("for_loop_negative_tokens", negsrc, negsp, None))
    B2.append(("for_loop_negative_tokens_from_context", negsrc.replace("?k = -1, -2", "?k = <lags>"), negsp, {"lags": [-1, -2]}))
    B2.append(("for_loop_signed_tokens", negsrc.replace("?k = -1, -2", "?k = -1 -2").replace("z = x[-1] - y[+1]", "z = x[-1] !for ?j = +1 !do - y[?j] !end"), negsp, None))
    # an !if without !else followed by a sibling !if ... !else ... !end
    ifsib = ("!transition-variables\n    x, y, z\n!transition-shocks\n    e\n!parameters\n    a, b\n!transition-equations\n"
             "    x = a*x[-1] + b + e;\n    !if flag !then\n    y = a*y[-1] + b + e;\n    !end\n"
             "    !if other !then\n    z = x[-1] - y[+1];\n    !else\n    z = 0;\n    !end\n    !if not flag !then\n    y = 0;\n    !end\n")
    B2.append(("if_without_else_then_sibling_if_true_true", ifsib, loop, {"flag": True, "other": True}))
    B2.append(("if_without_else_then_sibling_if_false_true", ifsib,
               Spec(("x", "y", "z"), ("e",), ("a", "b"), ("x = a*x[-1] + b + e", "z = x[-1] - y[+1]", "y = 0")), {"flag": False, "other": True}))
    B2.append(("if_without_else_then_sibling_if_true_false", ifsib,
               Spec(("x", "y", "z"), ("e",), ("a", "b"), ("x = a*x[-1] + b + e", "y = a*y[-1] + b + e", "z = 0")), {"flag": True, "other": False}))
    B2.append(("if_expression", ifsrc.replace("!if flag", "!if K > 1 and name == 'q'"), loop, {"K": 2, "name": "q"}))
    ctx = Spec(("x", "y", "z"), ("e",), ("a", "b"), ("x = a*x[-1] + b + e", "y = a*y[-3] + b + e", "z = x[-1] - y[+1]"))
    B2.append(("contextual_expression", loop_src.replace("!for ?v = x, y !do\n        ?v = a*?v[-1] + b + e;\n    !end",
                                                          "x = a*x[-1] + b + e;\n    y = a*y[<-K>] + b + e;"), ctx, {"K": 3}))
    subs = ("!transition-variables\n    x, y, z\n!transition-shocks\n    e\n!parameters\n    a, b\n!substitutions\n    s := a*x[-1] + b;\n    r = a*y[-1];\n"
            "!transition-equations\n    x = $s$ + e;\n    y = $r$ + b + e;\n    z = x[-1] - y[+1];\n")
    B2.append(("substitutions", subs, loop, None))
    # substitutions together with !! steady-state variants (variant without and with a substitution inside)
    loop_st = Spec(("x", "y", "z"), ("e",), ("a", "b"), ("x = a*x[-1] + b + e", "y = a*y[-1] + b + e", "z = x[-1] - y[+1]"),
                   steady={0: "x = b/(1 - a)", 1: "y = a*y[-1] + b"})
    subs_st = subs.replace("x = $s$ + e;", "x = $s$ + e !! x = b/(1 - a);").replace("y = $r$ + b + e;", "y = $r$ + b + e !! y = $r$ + b;")
    B2.append(("substitutions_with_steady_variants", subs_st, loop_st, None))
    loop_st2 = Spec(("x", "y", "z"), ("e",), ("a", "b"), ("x = a*x[-1] + b + e", "y = a*y[-1] + b + e", "z = x[-1] - y[+1]"), steady={2: "z = x - y"})
    B2.append(("unused_substitution_with_steady_variant", subs.replace("z = x[-1] - y[+1];", "z = x[-1] - y[+1] !! z = x - y;"), loop_st2, None))
    B2.append(("for_loop_with_steady_variant", loop_src.replace("?v = a*?v[-1] + b + e;", "?v = a*?v[-1] + b + e !! ?v = b/(1 - a);"),
               Spec(("x", "y", "z"), ("e",), ("a", "b"), ("x = a*x[-1] + b + e", "y = a*y[-1] + b + e", "z = x[-1] - y[+1]"), steady={0: "x = b/(1 - a)", 1: "y = b/(1 - a)"}), None))
    lst = ("!transition-variables\n    x`lg, y`lg, z\n!transition-shocks\n    e\n!parameters\n    a, b\n!transition-equations\n"
           "    x = a*x[-1] + b + e;\n    y = a*y[-1] + b + e;\n    z = x[-1] - y[+1];\n!log-variables\n    !list(`lg)\n")
    loopl = Spec(("x", "y", "z"), ("e",), ("a", "b"), ("x = a*x[-1] + b + e", "y = a*y[-1] + b + e", "z = x[-1] - y[+1]"), logvars=("x", "y"))
    B2.append(("lists", lst, loopl, None))
    nested = ("!transition-variables\n    x, y, z\n!transition-shocks\n    e\n!parameters\n    a, b\n!transition-equations\n"
              "    !for ?v = x, y !do\n      !if '?v' == 'x' !then\n        ?v = a*?v[-1] + b + e;\n      !else\n        ?v = a*?v[-1] + b + e;\n      !end\n    !end\n    z = x[-1] - y[+1];\n")
    B2.append(("nested_for_if", nested, loop, None))
    # log status of every loggable kind (transition, measurement and exogenous variables), three equivalent spellings
    import copy
    fullx = copy.deepcopy(full)
    fullx.logvars = {"y", "w", "ox"}
    B2.append(("log_exogenous_and_measurement", render_plain(fullx), fullx, None))
    B2.append(("log_exogenous_and_measurement_all_but", render_plain(fullx, log_block="!log-variables !all-but\n    x, z"), fullx, None))
    B2.append(("log_exogenous_and_measurement_list", render_plain(fullx, log_block="!log-variables\n    !list(`lg)")
               .replace("!exogenous-variables\n    w", "!exogenous-variables\n    w`lg").replace(" y, z\n", " y`lg, z\n").replace("ox\n", "ox`lg\n", 1), fullx, None))
    for cid, src, ctxt in B:
        out.append((f"syntax:{cid}", src, full, ctxt, "equal"))
    for cid, src, sp, ctxt in B2:
        out.append((f"syntax:{cid}", src, sp, ctxt, "equal"))
    if tier == "thorough":
        # pairwise: every pseudofunction call inside every rendering style
        styles = {"curly": dict(shift_style="{"), "assign": dict(assign=":="), "aliases": dict(kw={"!transition-variables": "!variables", "!transition-equations": "!equations"}),
                  "comments": dict(eq_suffix=lambda i: " % c"), "newline_names": dict(sep="\n    ")}
        for f in PSEUDO:
            for k in (None, -1, -3):
                for inner in ("y", "(y+z[-1])", "a*y[-1]"):
                    call = f"{f}({inner})" if k is None else f"{f}({inner}, {k})"
                    sp = base_spec(f"0.5*{call}", logvars=("y",), steady={0: "x = 0"})
                    for sn, st in styles.items():
                        out.append((f"pair:{sn}:{call}", render_plain(sp, **st), sp, None, "equal"))
    return out


# ------------------------------------------------------------------------------------------

def _lookup(inv, data, steady_shocks_zero=False):
    name_to_row = {q.human: q.id for q in inv.quantities}
    kinds = {q.human: str(q.kind) for q in inv.quantities}

    def lookup(name, sh):
        v = data[name_to_row[name], T0 + sh]
        if ("ant_" + name) in name_to_row and "TRANSITION_SHOCK" in kinds[name]:
            v = v + data[name_to_row["ant_" + name], T0 + sh]
        return v
    return lookup


def check_case(run, ir, pl, cid, src, sp, ctxt, expect):
    key = f"case:{cid}"
    case = dict(case=cid)
    proxy = npproxy.Proxy(object_alloc=False)
    try:
        m = ir.Simultaneous.from_string(src, context=ctxt)
    except Exception as exc:
        if expect == "equal_or_reject":
            run.ok(key, nontrivial=False)
            run.extra["rejected_forms"] = run.extra.get("rejected_forms", 0) + 1
            return
        run.counterexample(key, f"parser:raises:{cid.split(':')[0]}", f"from_string raises {type(exc).__name__}: {str(exc)[:160]}", dict(case, kind="raises"))
        return
    inv = m._invariant
    # ---- names, kinds, descriptions, log status (concrete)
    run.extra["executed_obligations"] = run.extra.get("executed_obligations", 0) + 1
    got_k = {q.human: str(q.kind).split(".")[-1] for q in inv.quantities}
    exp_k = sp.kinds()
    problems = []
    if got_k != exp_k:
        problems.append(f"names/kinds differ: extra {sorted(set(got_k) - set(exp_k))} missing {sorted(set(exp_k) - set(got_k))} "
                        f"wrong kind {[n for n in got_k if n in exp_k and got_k[n] != exp_k[n]]}")
    for q in inv.quantities:
        if q.human in exp_k and not q.human.startswith(("ant_", "std_")):
            if (q.description or "") != (sp.desc.get(q.human) or ""):
                problems.append(f"description of {q.human}: {q.description!r} != {sp.desc.get(q.human)!r}")
            if bool(q.logly) != (q.human in sp.logvars):
                problems.append(f"log status of {q.human}: {q.logly} != {q.human in sp.logvars}")
    eqs = sp.equations()
    dyn = list(inv.dynamic_equations)
    std = list(inv.steady_equations)
    if len(dyn) != len(eqs) or len(std) != len(eqs):
        problems.append(f"{len(dyn)} dynamic / {len(std)} steady equations, expected {len(eqs)}")
    else:
        for i, e in enumerate(dyn):
            if (e.description or "") != (sp.eqdesc.get(i) or ""):
                problems.append(f"description of equation {i}: {e.description!r} != {sp.eqdesc.get(i)!r}")
    if problems:
        if expect == "equal_or_reject":
            pass
        else:
            run.counterexample(key, f"parser:structure:{cid.split(':')[0]}", "; ".join(problems)[:300], dict(case, kind="structure"))
            return
    # ---- equations on symbolic data
    nq = len(inv.quantities)
    name_of = {q.id: q.human for q in inv.quantities}
    data = np.empty((nq, NCOL), dtype=object)
    syms = {}
    for i in range(nq):
        for j in range(NCOL):
            nm = f"{name_of[i]}__{j - T0 if j >= T0 else 'm' + str(T0 - j)}"
            syms[nm] = S.sym(nm, Fraction(3 + i, 2) + Fraction(j, 8))
            data[i, j] = syms[nm]
    try:
        with npproxy.installed(proxy, pl):
            impl_dyn = inv._plain_dynamic_equator.eval(data, T0)
            impl_std = inv._plain_steady_equator.eval(data, T0)
    except S.SymbolicBranchError:
        raise
    except Exception as exc:
        if expect == "equal_or_reject":
            run.ok(key, nontrivial=False)
            run.extra["rejected_forms"] = run.extra.get("rejected_forms", 0) + 1
            return
        run.counterexample(key, f"parser:eval_raises:{cid.split(':')[0]}", f"evaluating the parsed equations raises {type(exc).__name__}: {str(exc)[:160]}", dict(case, kind="eval_raises"))
        return
    lk = _lookup(inv, data)
    pos = [s.t > 0 for s in syms.values()]
    claims = []
    for i, e in enumerate(eqs):
        eq = Equation(e + (" !! " + sp.steady[i] if i in sp.steady else ""))
        l, r = eq.sides(lk, steady=False, numeric=lambda v: v)
        claims.append((f"dynamic[{i}]", S.const(impl_dyn[i]).t, S.const(r - l).t))
        l, r = eq.sides(lambda n, sh: data[{q.human: q.id for q in inv.quantities}[n], T0 + sh], steady=True, numeric=lambda v: v)
        claims.append((f"steady[{i}]", S.const(impl_std[i]).t, S.const(r - l).t))
    r0, _ = run.check_sat(pos, timeout_ms=20000)
    if r0 != "sat":
        run.unknown(key, "domain unsat")
        return
    run.reach_ok += 1
    for labl, a, b in claims:
        res, mdl = run.prove(f"{key}:{labl}", a == b, pos + exp_log_axioms([a, b]) + div_domain([a, b]), timeout_ms=30000, nl=True,
                             sample={"case": cid, "equation": labl, "impl": str(a)[:150], "oracle": str(b)[:150]} if labl == "dynamic[0]" else None)
        if res == "unsat":
            continue
        if res == "sat":
            if expect == "equal_or_reject":
                pass
            vals = model_values(mdl, sorted(syms))
            run.counterexample(key, f"parser:meaning:{cid.split(':')[0]}", f"{labl} evaluates to a different term than the equation as written: {str(a)[:100]} vs {str(b)[:100]}",
                               dict(case, kind="meaning", label=labl, values={n: [v.numerator, v.denominator] for n, v in vals.items()}))
            return
        run.unknown(key, f"solver {res} on {labl}")
        return
    run.ok(key)


def main(run):
    ir = load_irispie()
    from irispie.equators import plain as pl
    run.extra["proxy_selftest_checks"] = npproxy.selftest()
    run.functions_encoded += ["parsers.preparser.from_string (comments, shifts, !for/!if, <...>, lists, pseudofunctions)", "parsers.models.from_string (grammar, aliases, substitutions)",
                              "parsers._pseudofunctions, _shifts, _lists, _substitutions", "sources / equations.xtring_from_human / quantities", "simultaneous._invariants.Invariant.from_source",
                              "equators.plain.PlainEquator.eval (the generated evaluation function) on symbolic data"]
    cs = cases(run.tier)
    run.bounds["programs"] = (f"{len(cs)} sources enumerated by checks/C04.cases (tier={run.tier}): every pseudofunction spelling x shift x inner expression (depth<=2, <=3 names), "
                              "bracket styles, = / :=, ^ / **, !! steady variants, keyword aliases and underscores, name separators, descriptions, attributes, "
                              "line/block comments, line continuations, split blocks, !for / !if / nested, <...> context expressions, lists, substitutions, "
                              "!log-variables incl. !all-but; forms the regex expansion cannot handle must be rejected")
    run.bounds["values"] = "one independent positive real per (quantity, column) over 13 columns; exact equality"
    run.assumptions += ["a transition shock in a dynamic equation stands for the sum of its unanticipated and anticipated (ant_) component",
                        "LOG/EXP uninterpreted with normalising constructors", "every non-constant denominator occurring in an equation is non-zero", "the oracle's pseudofunction semantics: f(expr,k) relates expr to expr with every time subscript shifted by k"]
    run.outside += ["Jinja templating", "arbitrary preparser contexts", "nesting depth > 2", "Sequential-model sources (see C17)"]
    for cid, src, sp, ctxt, expect in cs:
        try:
            check_case(run, ir, pl, cid, src, sp, ctxt, expect)
        except S.SymbolicBranchError as exc:
            run.unknown(f"case:{cid}", exc)
        except Exception as exc:
            run.error(f"case:{cid}", exc)
    run.extra["exhaustive"] = True


def replay(case):
    ir = load_irispie()
    cid = case["case"]
    found = [c for c in cases("thorough") + cases("quick") if c[0] == cid]
    if not found:
        return False, "unknown case id"
    _, src, sp, ctxt, expect = found[0]
    try:
        m = ir.Simultaneous.from_string(src, context=ctxt)
    except Exception as exc:
        return case["kind"] == "raises", f"from_string raises {type(exc).__name__}: {exc}"
    inv = m._invariant
    if case["kind"] == "raises":
        return False, "parses fine"
    if case["kind"] == "structure":
        got_k = {q.human: str(q.kind).split(".")[-1] for q in inv.quantities}
        bad = got_k != sp.kinds()
        for q in inv.quantities:
            if q.human in sp.kinds() and not q.human.startswith(("ant_", "std_")):
                bad = bad or (q.description or "") != (sp.desc.get(q.human) or "") or bool(q.logly) != (q.human in sp.logvars)
        eqs = sp.equations()
        bad = bad or len(inv.dynamic_equations) != len(eqs)
        if not bad:
            for i, e in enumerate(inv.dynamic_equations):
                bad = bad or (e.description or "") != (sp.eqdesc.get(i) or "")
        return bad, "structure compared concretely"
    vals = {k: float(Fraction(a, b)) for k, (a, b) in case.get("values", {}).items()}
    nq = len(inv.quantities)
    name_of = {q.id: q.human for q in inv.quantities}
    data = np.empty((nq, NCOL))
    for i in range(nq):
        for j in range(NCOL):
            nm = f"{name_of[i]}__{j - T0 if j >= T0 else 'm' + str(T0 - j)}"
            data[i, j] = vals.get(nm, 1.5 + 0.5 * i + 0.125 * j)
    try:
        with np.errstate(all="ignore"):
            impl_dyn = inv._plain_dynamic_equator.eval(data, T0)
            impl_std = inv._plain_steady_equator.eval(data, T0)
    except Exception as exc:
        return case["kind"] == "eval_raises", f"evaluation raises {type(exc).__name__}: {exc}"
    if case["kind"] == "eval_raises":
        return False, "evaluates fine"
    lk = _lookup(inv, data)
    rows = {q.human: q.id for q in inv.quantities}
    worst, msg = 0.0, "all equations agree"
    for i, e in enumerate(sp.equations()):
        eq = Equation(e + (" !! " + sp.steady[i] if i in sp.steady else ""))
        try:
            l, r = eq.sides(lk)
            want_d = r - l
            l, r = eq.sides(lambda n, sh: data[rows[n], T0 + sh], steady=True)
            want_s = r - l
        except (ValueError, ZeroDivisionError, OverflowError):
            continue
        for labl, got, want in ((f"dynamic[{i}]", float(impl_dyn[i]), want_d), (f"steady[{i}]", float(impl_std[i]), want_s)):
            if not (math.isfinite(got) and math.isfinite(want)):
                continue
            err = abs(got - want) / (1 + abs(want))
            if err > worst:
                worst, msg = err, f"{labl}: irispie {got!r} vs as written {want!r}"
    return worst > 1e-9, msg


if __name__ == "__main__":
    standard_main(PID, main, replay)
