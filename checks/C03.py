"""
C03 -- Kalman filter, smoother and likelihood equal exact Gaussian conditioning.

(A) API level: Simultaneous.kalman_filter is lifted (every observed cell symbolic); predicted / updated / smoothed means of
    variables and shocks are affine terms which z3 (QF_LRA) compares, for all data in the unit box, with the conditional
    means of the joint Gaussian built independently from the unrolled state space (batch oracle, symx/kf.py).  Standard
    deviations (data-independent) are compared numerically.  The negative log-likelihood (a quadratic form in the data) is
    compared with the batch log-density (QF_NRA), contributions sum to the total, periods without observations contribute 0,
    and the rescale_variance identities hold.
(B) Kernel level, all systems: fords.kalmans.predict/update/smooth are called directly with fully symbolic system matrices,
    stds, prior and data (n<=2, m=1, 2 periods) and compared with an independently written textbook recursion (QF_NRA).
"""
from __future__ import annotations

import itertools
import math
from fractions import Fraction

import numpy as np
import z3

from symx import sreal as S
from symx import npproxy, zoo, fo, kf, poly
from symx.concolic import model_values
from symx.series_tools import load_irispie
from symx.report import standard_main
from checks.C01 import _cell_term, _box, _steady
from checks.C08 import _model, _data_db, _masks, _mask_str, STDS

PID = "C03"
TOL = Fraction(1, 10 ** 8)
STDS.setdefault("ur_mix", dict(std_el=1.0, std_eg=0.5, std_ex=0.8, std_wl=0.3))
UR_MODELS = ("ur_mix", "ur_drift")


def _fr(x):
    return S.rv(S.float_fraction(float(x)))


def _tv_stds(zm, nper):
    """time-varying stds supplied as data: the first transition shock and the first measurement shock (if any) change every period"""
    out = {}
    s0 = float(STDS[zm.name]["std_" + zm.tshocks[0]])
    out["std_" + zm.tshocks[0]] = [s0 * f for f in (2.5, 0.5, 1.5, 0.75)[:nper]]
    if zm.mshocks:
        w0 = float(STDS[zm.name]["std_" + zm.mshocks[0]])
        out["std_" + zm.mshocks[0]] = [w0 * f for f in (0.5, 2.0, 1.0, 1.5)[:nper]]
    return out


def _oracle_setup(ir, zm, m, nper, deviation, std_override=None, tv=None):
    sol = m.get_solution()
    T, P, K, Z, H, D = (np.array(getattr(sol, n), dtype=float) for n in "T P K Z H D".split())
    if deviation:
        K, D = np.zeros_like(K), np.zeros_like(D)
    vec = m._get_dynamic_solution_vectors()
    q2n = m.create_qid_to_name()
    stds = dict(STDS[zm.name])
    if std_override:
        stds.update(std_override)
    su = [stds["std_" + q2n[t.qid]] for t in vec.transition_shocks]
    sw = [stds["std_" + q2n[t.qid]] for t in vec.measurement_shocks]
    su_t = sw_t = None
    if tv:
        su_t = np.array([tv.get("std_" + q2n[t.qid], [s_] * nper) for t, s_ in zip(vec.transition_shocks, su)], dtype=float).reshape(len(su), nper)
        sw_t = np.array([tv.get("std_" + q2n[t.qid], [s_] * nper) for t, s_ in zip(vec.measurement_shocks, sw)], dtype=float).reshape(len(sw), nper)
    B = kf.BatchOracle(T, P, K, Z, H, D, su, sw, nper, unit_roots=zm.unit_roots, su_t=su_t, sw_t=sw_t)
    xi = [(q2n[t.qid], t.shift) for t in vec.transition_variables]
    ynames = [q2n[t.qid] for t in vec.measurement_variables]
    unames = [q2n[t.qid] for t in vec.transition_shocks]
    wnames = [q2n[t.qid] for t in vec.measurement_shocks]
    return B, xi, ynames, unames, wnames


def _affine(m0, C, my, ysyms):
    t = _fr(m0)
    for k, y in enumerate(ysyms):
        t = t + _fr(C[k]) * (y - _fr(my[k]))
    return t


def _within(a, b, tol=TOL):
    d = a - b
    return z3.And(d <= tol, d >= -tol)


def _tolerance_query(run, claims, assume, tol, timeout_ms=120000, extra=()):
    """decide  AND |a-b| <= tol  on the unit box: linear relaxation first (unsat is conclusive), exact NRA query otherwise"""
    try:
        lins, cons = [], []
        for i, (_, a, b) in enumerate(claims):
            opq = {}
            pl = poly.to_poly(z3.simplify(a - b), opaque=opq)
            if any(n.startswith("opaque!") for mono in pl for n in mono):
                raise poly.NotPolynomial("opaque term does not cancel")
            lin, c = poly.relax_on_unit_box(pl, prefix=f"mono{i}")
            lins.append(lin); cons += c
        viol = z3.Or(*[z3.Or(l > tol, l < -tol) for l in lins])
        r, _ = run.check_sat(list(assume) + cons + [viol], timeout_ms=timeout_ms)
        if r == "unsat":
            run.extra["decided_by_linear_relaxation"] = run.extra.get("decided_by_linear_relaxation", 0) + 1
            return "unsat", None
    except poly.NotPolynomial:
        pass
    viol = z3.Or(*[z3.Not(_within(a, b, tol)) for _, a, b in claims])
    return run.check_sat(list(assume) + list(extra) + [viol], timeout_ms=timeout_ms, nl=True)


def api_vs_oracle(run, ir, zm, m, nper, mask, deviation, tv=False):
    ms = _mask_str(mask, len(zm.mvars), nper)
    base_key = f"{zm.name}:dev={deviation}:T={nper}:mask={ms}" + (":time-varying stds" if tv else "")
    case = dict(kind="api", model=zm.name, deviation=deviation, nper=nper, mask=ms, tv=bool(tv))
    start = ir.qq(2020, 1)
    span = start >> (start + nper - 1)
    db = _data_db(ir, zm, start, nper, mask)
    tvd = _tv_stds(zm, nper) if tv else None
    kw_tv = {}
    if tvd:
        for n_, vals_ in tvd.items():
            db[n_] = ir.Series(start=start, values=tuple(vals_))
        kw_tv = dict(stds_from_data=True)
    try:
        with kf.KalmanLift(ir, zm.mvars) as L, S.Path() as path:
            out = m.kalman_filter(db, span, deviation=deviation, **kw_tv)
    except S.SymbolicBranchError:
        raise
    except Exception as exc:
        # the public call itself fails: decided by replay (the same call on floats, no lifting)
        run.counterexample(f"api:{base_key}", f"kalman:raises:{zm.name}", f"kalman_filter raises {type(exc).__name__}: {str(exc)[:140]}", dict(case, kind="api_raises", values={}))
        return
    cache = L.caches[0]
    syms = dict(L.cap["syms"])
    B, xi, ynames, unames, wnames = _oracle_setup(ir, zm, m, nper, deviation, tv=tvd)
    yrow = {n: r for r, n in enumerate(ynames)}
    obs_all = [(yrow[n], t) for r, n in enumerate(zm.mvars) for t in range(nper) if mask[(r, t)]]
    obs_all.sort(key=lambda o: (o[1], o[0]))
    ysym = {o: z3.Real(f"{ynames[o[0]]}__{o[1]}") for o in obs_all}
    claims, std_checks = [], []
    filt = {"predict": lambda o, t: o[1] < t, "update": lambda o, t: o[1] <= t, "smooth": lambda o, t: True}
    for kind, f in filt.items():
        med, std = out[f"{kind}_med"], out[f"{kind}_std"]
        for t in range(nper):
            obs = [o for o in obs_all if f(o, t)]
            ys = [ysym[o] for o in obs]
            targets = []
            for i, (name, sh) in enumerate(xi):
                if sh == 0:
                    targets.append((name, B.A[t][i:i + 1, :], B.mu[t][i]))
            for j, name in enumerate(unames):
                targets.append((name, B.U[t][j:j + 1, :], 0.0))
            for j, name in enumerate(wnames):
                targets.append((name, B.W[t][j:j + 1, :], 0.0))
            if kind == "predict":
                for r, name in enumerate(ynames):
                    targets.append((name, B.Y[t][r:r + 1, :], B.muy[t][r]))
            for name, Lrow, m0 in targets:
                if name not in med:
                    continue
                c = _cell_term(kf.series_cells(med[name], start + t, 1)[0])
                if c is None:
                    continue
                m0_, C, my = B.cond_mean_coef(Lrow, m0, obs)
                claims.append((f"{kind}_med:{name}@{t}", c, _affine(m0_, C[0] if len(obs) else [], my, ys)))
                if name in std:
                    sc = kf.series_cells(std[name], start + t, 1)[0]
                    if not (isinstance(sc, float) and math.isnan(sc)):
                        v = float(B.cond_cov(Lrow, obs)[0, 0])
                        std_checks.append((f"{kind}_std:{name}@{t}", float(sc.v if isinstance(sc, S.SReal) else sc), math.sqrt(max(v, 0.0))))
    # ---- means: one LRA query
    key = f"means:{base_key}"
    assume = _box(syms) + [path.condition()]
    r0, _ = run.check_sat(assume, timeout_ms=30000)
    if r0 != "sat" or not claims:
        run.unknown(key, f"reachability witness {r0} / {len(claims)} claims")
        return
    run.reach_ok += 1
    viol = z3.Or(*[z3.Not(_within(a, b)) for _, a, b in claims])
    r, mdl = run.check_sat(assume + [viol], timeout_ms=180000)
    if r == "unsat":
        if len(run.samples) < 12:
            l0, a0, b0 = claims[-1]
            run.samples.append({"obligation": key, "verdict": "unsat: predicted/updated/smoothed means equal the conditional means of the joint Gaussian "
                                "(tolerance 1e-8) for all data in the unit box", "claims": len(claims), "example": f"{l0}: impl - oracle = {str(z3.simplify(a0 - b0))[:160]}"})
        run.ok(key)
    elif r == "sat":
        bad = []
        for labl, a, b in claims:
            d = mdl.eval(a - b, model_completion=True)
            fv = Fraction(d.numerator_as_long(), d.denominator_as_long())
            if abs(fv) > TOL:
                bad.append((labl, float(fv)))
        vals = model_values(mdl, sorted(syms))
        run.counterexample(key, f"kalman:means:{zm.name}", f"conditional means differ from exact Gaussian conditioning: {bad[:4]}",
                           dict(case, bad=bad[:6], values={n: [v.numerator, v.denominator] for n, v in vals.items()}))
    else:
        run.unknown(key, f"solver {r}")
    # ---- stds: data-independent, compared numerically (executed obligation)
    key = f"stds:{base_key}"
    run.extra["executed_obligations"] = run.extra.get("executed_obligations", 0) + 1
    badstd = [(l, a, b) for l, a, b in std_checks if abs(a - b) > 1e-6 * (1 + abs(b))]      # a zero variance comes out as 1e-14 in floats, its root as 1e-7
    if badstd:
        run.counterexample(key, f"kalman:stds:{zm.name}", f"standard deviations differ from the conditional covariances: {badstd[:3]}", dict(case, kind="api_std"))
    elif std_checks:
        run.ok(key, nontrivial=False)
    # ---- likelihood
    key = f"likelihood:{base_key}"
    ys = [ysym[o] for o in obs_all]
    Ay, my, Si, Syy = B.condition(obs_all)
    k = len(obs_all)
    sign, logdet = np.linalg.slogdet(Syy)
    quad = _fr(0.0)
    d = [y - _fr(my[i]) for i, y in enumerate(ys)]
    for i in range(k):
        for j in range(k):
            quad = quad + _fr(Si[i, j]) * d[i] * d[j]
    oracle_nll = (_fr(k * math.log(2 * math.pi) + logdet) + quad) / 2
    impl_nll = S.const(cache.neg_log_likelihood).t
    contribs = [S.const(c).t for c in cache.neg_log_likelihood_contributions]
    lik_claims = [("nll==-log density", impl_nll, oracle_nll), ("sum(contributions)==nll", sum(contribs[1:], contribs[0]), impl_nll)]
    ltol = Fraction(1, 10 ** 7)
    for t in range(nper):
        if not any(o[1] == t for o in obs_all):
            lik_claims.append((f"no-observation period {t} contributes 0", contribs[t], S.rv(0)))
    r, mdl = _tolerance_query(run, lik_claims, assume, ltol)
    if r == "unsat":
        if len(run.samples) < 12:
            run.samples.append({"obligation": key, "verdict": "unsat: -log L equals the batch Gaussian -log density (1e-7), contributions sum to the total, empty periods contribute 0",
                                "observations": k})
        run.ok(key)
    elif r == "sat":
        vals = model_values(mdl, sorted(syms))
        bad = []
        for labl, a, b in lik_claims:
            dd = mdl.eval(a - b, model_completion=True)
            try:
                fv = Fraction(dd.numerator_as_long(), dd.denominator_as_long())
            except Exception:
                fv = Fraction(0)
            if abs(fv) > ltol:
                bad.append((labl, float(fv)))
        run.counterexample(key, f"kalman:likelihood:{zm.name}", f"likelihood differs: {bad[:3]}",
                           dict(case, kind="api_lik", values={n: [v.numerator, v.denominator] for n, v in vals.items()}))
    else:
        run.unknown(key, f"solver {r}")
    if tv:
        return          # the rescale_variance identities are decided on the constant-std structures
    # ---- rescale_variance identities
    key = f"rescale:{base_key}"
    with kf.KalmanLift(ir, zm.mvars) as L2, S.Path() as path2:
        m.kalman_filter(db, span, deviation=deviation, rescale_variance=True)
    c2 = L2.caches[0]
    n_obs = c2.sum_num_obs
    vs = S.const(c2.var_scale)
    # (a) var_scale * sum(n) equals the batch quadratic form (tolerance, linear relaxation)
    r, mdl = _tolerance_query(run, [("var_scale == sum(pe'F^-1 pe)/sum(n)", vs.t * n_obs, quad)], assume + [path2.condition()], ltol)
    # (b) algebra of the rescaling with the pre-rescale quadratic form abstracted by a fresh positive symbol Q
    q_impl = sum(i for i in c2.all_pe_Fi_pe if i is not None)
    Q = S.sym("Qform", 1)
    logdet_sum = sum(i for i in c2.all_log_det_F if i is not None)
    sub = lambda x: z3.substitute(S.const(x).t, (S.const(q_impl).t, Q.t))
    algebra = z3.And(
        sub(c2.var_scale) == (Q / n_obs).t,                                           # var_scale = q / sum(n)
        sub(c2.sum_pe_Fi_pe) == n_obs,                                                # rescaled quadratic form = sum(n)
        S.const(c2.sum_log_det_F).t == (S.const(logdet_sum) + n_obs * vs.log()).t,    # log det F += sum(n) log(var_scale)
        S.const(c2.neg_log_likelihood).t == ((S.const(n_obs * c2._LOG_2_PI) + S.const(c2.sum_log_det_F) + S.const(c2.sum_pe_Fi_pe)) / 2).t,
    )
    nll_abs = algebra
    r2, mdl2 = run.prove(key + ":algebra", algebra, [Q.t > 0], timeout_ms=60000, nl=True)
    # (c) the per-period contributions still sum to the (rescaled) total; the pre-rescale quadratic forms are abstracted per period
    contribs2 = getattr(c2, "neg_log_likelihood_contributions", None)
    if r2 == "unsat" and contribs2 is not None:
        per_q = [(t, i) for t, i in enumerate(c2.all_pe_Fi_pe) if isinstance(i, S.SReal) and not z3.is_rational_value(z3.simplify(i.t))]   # periods without observations give a plain 0
        qsyms = {t: S.sym(f"Qform_{t}", 1) for t, _ in per_q}
        subs = [(S.const(i).t, qsyms[t].t) for t, i in per_q]
        sub2 = lambda x: z3.substitute(S.renorm(S.const(x).t), *subs) if subs else S.const(x).t
        total = S.const(0)
        for c_ in contribs2:
            total = total + c_
        qsum = S.const(0)
        for t, _ in per_q:
            qsum = qsum + qsyms[t]
        claim_c = z3.substitute(sub2(total) - sub2(c2.neg_log_likelihood), (S.const(q_impl).t, qsum.t))
        r3, mdl3 = run.prove(key + ":contributions", z3.And(claim_c < Fraction(1, 10 ** 7), claim_c > -Fraction(1, 10 ** 7)), [q.t > 0 for q in qsyms.values()], timeout_ms=60000, nl=True)
        if r3 == "sat":
            vals = model_values(mdl, sorted(syms)) if mdl is not None else {}
            run.counterexample(key, f"kalman:rescale_contributions:{zm.name}", "with rescale_variance=True the per-period likelihood contributions do not sum to the total",
                               dict(case, kind="api_rescale_contributions", values={n: [v.numerator, v.denominator] for n, v in vals.items()}))
            return
        if r3 != "unsat":
            r2 = r3
    still = [n for n in (str(x) for x in []) ]
    if r == "unsat" and r2 == "unsat":
        if len(run.samples) < 12:
            run.samples.append({"obligation": key, "verdict": "unsat: var_scale = q/n (1e-7) and -log L after rescaling = (n log 2pi + sum log det F + n LOG(Q/n) + n)/2 for every Q>0",
                                "algebra_claim": str(nll_abs)[:300]})
        run.ok(key)
    elif r == "sat" or r2 == "sat":
        vals = model_values(mdl, sorted(syms)) if mdl is not None else {}
        run.counterexample(key, f"kalman:rescale:{zm.name}", f"rescale_variance identities violated (var_scale: {r}, algebra: {r2})",
                           dict(case, kind="api_rescale", values={n: [v.numerator, v.denominator] for n, v in vals.items()}))
    else:
        run.unknown(key, f"solver {r}/{r2}")


def _ur_identified(zm, B, mask, nper, ynames):
    """the fixed unknown initial condition must be identified by the observed cells (otherwise its estimate is a convention)"""
    yrow = {n: r for r, n in enumerate(ynames)}
    obs_all = [(yrow[n], t) for r, n in enumerate(zm.mvars) for t in range(nper) if mask[(r, t)]]
    try:
        B.delta_gain(sorted(obs_all, key=lambda o: (o[1], o[0])))
        return True
    except ValueError:
        return False


def _ur_targets(B, xi, ynames, unames, wnames, t, kind):
    nd = B.E.shape[1]
    zero = np.zeros(nd)
    targets = [(name, B.A[t][i:i + 1, :], B.mu[t][i], B.Dx[t][i]) for i, (name, sh) in enumerate(xi) if sh == 0]
    targets += [(name, B.U[t][j:j + 1, :], 0.0, zero) for j, name in enumerate(unames)]
    targets += [(name, B.W[t][j:j + 1, :], 0.0, zero) for j, name in enumerate(wnames)]
    if kind == "predict":
        targets += [(name, B.Y[t][r:r + 1, :], B.muy[t][r], B.Dy[t][r]) for r, name in enumerate(ynames)]
    return targets


def api_vs_oracle_ur(run, ir, zm, m, nper, mask, deviation):
    """unit-root model under the default diffuse_method='fixed_unknown': concentrated-likelihood oracle (the initial condition of
    the unit-root directions is a fixed unknown estimated by GLS from the whole sample; all moments are conditional on the estimate)"""
    ms = _mask_str(mask, len(zm.mvars), nper)
    base_key = f"{zm.name}:dev={deviation}:T={nper}:mask={ms}"
    case = dict(kind="api_ur", model=zm.name, deviation=deviation, nper=nper, mask=ms)
    start = ir.qq(2020, 1)
    span = start >> (start + nper - 1)
    db = _data_db(ir, zm, start, nper, mask)
    B, xi, ynames, unames, wnames = _oracle_setup(ir, zm, m, nper, deviation)
    if not _ur_identified(zm, B, mask, nper, ynames):
        run.extra["ur_masks_not_identified"] = run.extra.get("ur_masks_not_identified", 0) + 1
        return
    try:
        with kf.KalmanLift(ir, zm.mvars) as L, S.Path() as path:
            out = m.kalman_filter(db, span, deviation=deviation)
    except S.SymbolicBranchError:
        raise
    except Exception as exc:
        run.counterexample(f"api:{base_key}", f"kalman:raises:{zm.name}", f"kalman_filter raises {type(exc).__name__}: {str(exc)[:140]}", dict(case, kind="api_raises", values={}))
        return
    cache = L.caches[0]
    syms = dict(L.cap["syms"])
    yrow = {n: r for r, n in enumerate(ynames)}
    obs_all = [(yrow[n], t) for r, n in enumerate(zm.mvars) for t in range(nper) if mask[(r, t)]]
    obs_all.sort(key=lambda o: (o[1], o[0]))
    ys_all = [z3.Real(f"{ynames[o[0]]}__{o[1]}") for o in obs_all]

    def affine(const, coef):
        t = _fr(const)
        for c, y in zip(coef, ys_all):
            if c != 0.0:
                t = t + _fr(c) * y
        return t
    claims, std_checks = [], []
    filt = {"predict": lambda o, t: o[1] < t, "update": lambda o, t: o[1] <= t, "smooth": lambda o, t: True}
    for kind, f in filt.items():
        med, std = out[f"{kind}_med"], out[f"{kind}_std"]
        for t in range(nper):
            obs = [o for o in obs_all if f(o, t)]
            for name, Lrow, m0, Drow in _ur_targets(B, xi, ynames, unames, wnames, t, kind):
                if name not in med:
                    continue
                c = _cell_term(kf.series_cells(med[name], start + t, 1)[0])
                if c is None:
                    continue
                const, coef = B.ur_mean_affine(Lrow, m0, Drow, obs, obs_all)
                claims.append((f"{kind}_med:{name}@{t}", c, affine(const, coef)))
                if name in std:
                    sc = kf.series_cells(std[name], start + t, 1)[0]
                    if not (isinstance(sc, float) and math.isnan(sc)):
                        v = float(B.cond_cov(Lrow, obs)[0, 0])
                        std_checks.append((f"{kind}_std:{name}@{t}", float(sc.v if isinstance(sc, S.SReal) else sc), math.sqrt(max(v, 0.0))))
    key = f"means:{base_key}"
    assume = _box(syms) + [path.condition()]
    r0, _ = run.check_sat(assume, timeout_ms=30000)
    if r0 != "sat" or not claims:
        run.unknown(key, f"reachability witness {r0} / {len(claims)} claims")
        return
    run.reach_ok += 1
    viol = z3.Or(*[z3.Not(_within(a, b)) for _, a, b in claims])
    r, mdl = run.check_sat(assume + [viol], timeout_ms=180000)
    if r == "unsat":
        if len(run.samples) < 12:
            l0, a0, b0 = claims[-1]
            run.samples.append({"obligation": key, "verdict": "unsat: predicted/updated/smoothed means equal the conditional means given the GLS estimate of the "
                                "fixed unknown initial condition (tolerance 1e-8) for all data in the unit box", "claims": len(claims),
                                "example": f"{l0}: impl - oracle = {str(z3.simplify(a0 - b0))[:160]}"})
        run.ok(key)
    elif r == "sat":
        bad = []
        for labl, a, b in claims:
            d = mdl.eval(a - b, model_completion=True)
            fv = Fraction(d.numerator_as_long(), d.denominator_as_long())
            if abs(fv) > TOL:
                bad.append((labl, float(fv)))
        vals = model_values(mdl, sorted(syms))
        run.counterexample(key, f"kalman:means:{zm.name}", f"conditional means differ from exact Gaussian conditioning (fixed unknown initial condition): {bad[:4]}",
                           dict(case, bad=bad[:6], values={n: [v.numerator, v.denominator] for n, v in vals.items()}))
    else:
        run.unknown(key, f"solver {r}")
    key = f"stds:{base_key}"
    run.extra["executed_obligations"] = run.extra.get("executed_obligations", 0) + 1
    badstd = [(l, a, b) for l, a, b in std_checks if abs(a - b) > 1e-6 * (1 + abs(b))]      # a zero variance comes out as 1e-14 in floats, its root as 1e-7
    if badstd:
        run.counterexample(key, f"kalman:stds:{zm.name}", f"standard deviations differ from the conditional covariances: {badstd[:3]}", dict(case, kind="api_ur", values={}))
    elif std_checks:
        run.ok(key, nontrivial=False)
    # ---- concentrated likelihood
    key = f"likelihood:{base_key}"
    c0, R, my_all, Si = B.ur_neg_log_density(obs_all)
    k = len(obs_all)
    d = [y - _fr(my_all[i]) for i, y in enumerate(ys_all)]
    v = []
    for i in range(k):
        t = _fr(0.0)
        for j in range(k):
            if R[i, j] != 0.0:
                t = t + _fr(R[i, j]) * d[j]
        v.append(t)
    quad = _fr(0.0)
    for i in range(k):
        for j in range(k):
            quad = quad + _fr(Si[i, j]) * v[i] * v[j]
    oracle_nll = (_fr(c0) + quad) / 2
    impl_nll = S.const(cache.neg_log_likelihood).t
    contribs = [S.const(c).t for c in cache.neg_log_likelihood_contributions]
    lik_claims = [("nll==concentrated -log density", impl_nll, oracle_nll), ("sum(contributions)==nll", sum(contribs[1:], contribs[0]), impl_nll)]
    for t in range(nper):
        if not any(o[1] == t for o in obs_all):
            lik_claims.append((f"no-observation period {t} contributes 0", contribs[t], S.rv(0)))
    ltol = Fraction(1, 10 ** 7)
    r, mdl = _tolerance_query(run, lik_claims, assume, ltol)
    if r == "unsat":
        if len(run.samples) < 12:
            run.samples.append({"obligation": key, "verdict": "unsat: -log L equals the concentrated Gaussian -log density (1e-7), contributions sum to the total", "observations": k})
        run.ok(key)
    elif r == "sat":
        vals = model_values(mdl, sorted(syms))
        bad = []
        for labl, a, b in lik_claims:
            dd = mdl.eval(a - b, model_completion=True)
            try:
                fv = Fraction(dd.numerator_as_long(), dd.denominator_as_long())
            except Exception:
                fv = Fraction(0)
            if abs(fv) > ltol:
                bad.append((labl, float(fv)))
        run.counterexample(key, f"kalman:likelihood:{zm.name}", f"likelihood differs: {bad[:3]}",
                           dict(case, values={n: [v_.numerator, v_.denominator] for n, v_ in vals.items()}))
    else:
        run.unknown(key, f"solver {r}")


def api_options(run, ir, zm, m, nper, mask, deviation):
    """output options must not change the numbers: asking only for the update step (return_=("update",)) gives the update of the full run;
    a two-variant model filtered with check_singularity=True gives, in each variant, the single-variant result"""
    ms = _mask_str(mask, len(zm.mvars), nper)
    start = ir.qq(2020, 1)
    span = start >> (start + nper - 1)
    db = _data_db(ir, zm, start, nper, mask)
    with kf.KalmanLift(ir, zm.mvars) as L0, S.Path() as path0:
        full = m.kalman_filter(db, span, deviation=deviation)
    names = [n for n in list(zm.tvars) + list(zm.tshocks) if n in full["update_med"]]

    def cells(out, kind, variant=0):
        cs = []
        for n in names:
            ser = out[kind][n]
            for k in range(nper):
                per = start + k
                if ser.start is None or per < ser.start or per > ser.end or ser.data.shape[1] <= variant:
                    cs.append(None)
                else:
                    cs.append(_cell_term(ser.data[per - ser.start, variant]))
        return cs
    base = cells(full, "update_med")
    for label, call in (("return_=('update',)", lambda mm: mm.kalman_filter(db, span, deviation=deviation, return_=("update",))),
                        ("return_=('predict','update')", lambda mm: mm.kalman_filter(db, span, deviation=deviation, return_=("predict", "update")))):
        key = f"options:{zm.name}:dev={deviation}:mask={ms}:{label}"
        case = dict(kind="api_option", model=zm.name, deviation=deviation, nper=nper, mask=ms, option=label, values={})
        try:
            with kf.KalmanLift(ir, zm.mvars) as L1, S.Path() as path1:
                part = call(m)
        except S.SymbolicBranchError:
            raise
        except Exception as exc:
            run.counterexample(key, f"kalman:option_raises:{zm.name}", f"kalman_filter(..., {label}) raises {type(exc).__name__}: {str(exc)[:120]}", case)
            continue
        got = cells(part, "update_med")
        eqs = []
        bad = None
        for a, b in zip(got, base):
            if (a is None) != (b is None):
                bad = "a cell is missing on one side"
                break
            if a is not None:
                eqs.append(a == b)
        if bad:
            run.counterexample(key, f"kalman:option:{zm.name}", bad, case)
            continue
        res, mdl = run.prove(key, z3.And(*eqs), [path0.condition(), path1.condition()], timeout_ms=60000)
        if res == "unsat":
            run.ok(key)
        elif res == "sat":
            vals = model_values(mdl, sorted(L0.cap["syms"]))
            run.counterexample(key, f"kalman:option:{zm.name}", f"{label} changes the updated means", dict(case, values={n_: [v.numerator, v.denominator] for n_, v in vals.items()}))
        else:
            run.unknown(key, f"solver {res}")
    # two variants with the singularity check switched on
    key = f"options:{zm.name}:dev={deviation}:mask={ms}:two variants, check_singularity=True"
    case = dict(kind="api_option", model=zm.name, deviation=deviation, nper=nper, mask=ms, option="variants_singularity", values={})
    m2 = m.copy()
    m2.alter_num_variants(2)
    try:
        with kf.KalmanLift(ir, zm.mvars) as L2, S.Path() as path2:
            two = m2.kalman_filter(db, span, deviation=deviation, check_singularity=True)
    except S.SymbolicBranchError:
        raise
    except Exception as exc:
        run.counterexample(key, f"kalman:option_raises:{zm.name}", f"two-variant kalman_filter(check_singularity=True) raises {type(exc).__name__}: {str(exc)[:120]}", case)
        return
    eqs, bad = [], None
    for variant in (0, 1):
        for a, b in zip(cells(two, "update_med", variant), base):
            if (a is None) != (b is None):
                bad = f"variant {variant}: a cell is missing on one side"
                break
            if a is not None:
                eqs.append(a == b)
    if bad:
        run.counterexample(key, f"kalman:option:{zm.name}", bad, case)
        return
    res, mdl = run.prove(key, z3.And(*eqs), [path0.condition(), path2.condition()], timeout_ms=60000)
    if res == "unsat":
        run.ok(key)
    elif res == "sat":
        run.counterexample(key, f"kalman:option:{zm.name}", "a variant of the two-variant run differs from the single-variant run", case)
    else:
        run.unknown(key, f"solver {res}")
    # two variants that differ in a transition-shock std: variant 1 must equal the single-variant model given variant 1's std
    # (means, stds, likelihood: the initial MSE, the recursion and the likelihood all have to use the variant's own covariance)
    key = f"options:{zm.name}:dev={deviation}:mask={ms}:two variants with different stds"
    case = dict(kind="api_option", model=zm.name, deviation=deviation, nper=nper, mask=ms, option="variants_stds", values={})
    sname = "std_" + zm.tshocks[0]
    s0 = float(STDS[zm.name][sname])
    m3 = m.copy()
    m3.alter_num_variants(2)
    m3.assign(**{sname: [s0, 2.5 * s0]})
    f1 = m.copy()
    f1.assign(**{sname: 2.5 * s0})
    try:
        with kf.KalmanLift(ir, zm.mvars) as L3, S.Path() as path3:
            two = m3.kalman_filter(db, span, deviation=deviation)
        with kf.KalmanLift(ir, zm.mvars) as L4, S.Path() as path4:
            one = f1.kalman_filter(db, span, deviation=deviation)
    except S.SymbolicBranchError:
        raise
    except Exception as exc:
        run.counterexample(key, f"kalman:option_raises:{zm.name}", f"two-variant kalman_filter raises {type(exc).__name__}: {str(exc)[:120]}", case)
        return
    eqs, bad, nums = [], None, []
    for kind in ("predict_med", "update_med", "smooth_med", "predict_std", "smooth_std"):
        if kind not in two or kind not in one:
            continue
        for a, b in zip(cells(two, kind, 1), cells(one, kind, 0)):
            if (a is None) != (b is None):
                bad = f"{kind}: a cell is missing on one side"
                break
            if a is not None:
                d = a - b
                eqs.append(z3.And(d <= TOL, d >= -TOL))
    if len(L3.caches) >= 2 and L4.caches:
        d = S.const(L3.caches[1].neg_log_likelihood).t - S.const(L4.caches[0].neg_log_likelihood).t
        eqs.append(z3.And(d <= Fraction(1, 10 ** 7), d >= -Fraction(1, 10 ** 7)))
    else:
        bad = bad or "the filter was not run once per variant"
    if bad:
        run.counterexample(key, f"kalman:variants:{zm.name}", bad, case)
        return
    box = _box(dict(L3.cap["syms"]))
    res, mdl = run.prove(key, z3.And(*eqs), box + [path3.condition(), path4.condition()], timeout_ms=120000, nl=True)
    if res == "unsat":
        run.ok(key)
    elif res == "sat":
        vals = model_values(mdl, sorted(L3.cap["syms"]))
        run.counterexample(key, f"kalman:variants:{zm.name}", "variant 1 of a two-variant model (different transition-shock std) differs from the single-variant model with that std",
                           dict(case, values={n_: [v.numerator, v.denominator] for n_, v in vals.items()}))
    else:
        run.unknown(key, f"solver {res}")


# ------------------------------------------------------------------------------------------
# (B) kernel-level parametric equivalence with symbolic matrices
# ------------------------------------------------------------------------------------------

def _arr(prefix, *shape, shadow=None):
    a = np.empty(shape, dtype=object)
    for idx in np.ndindex(*shape):
        nm = prefix + "_" + "_".join(map(str, idx))
        sv = Fraction(1, 2) + Fraction(sum(idx) + len(prefix), 7) if shadow is None else shadow
        a[idx] = S.sym(nm, sv)
    return a


class InvStub:
    """matrix inverse stubbed by its contract: fresh symbols Fi with the recorded assumption Fi @ F = I.
    Two instances created with the same `tag` hand out the SAME symbols call by call, so that implementation and reference
    share them; that the matrices they invert are equal is proved separately (obligation 'F[k]')."""

    def __init__(self, tag):
        self.tag = tag
        self.calls = []

    def __call__(self, F):
        k = F.shape[0]
        if k == 0:
            return F
        idx = len(self.calls)
        Fi = np.empty((k, k), dtype=object)
        for i in range(k):
            for j in range(k):
                Fi[i, j] = S.sym(f"{self.tag}{idx}_{min(i, j)}_{max(i, j)}")      # inverse of a symmetric matrix is symmetric
        self.calls.append((F, Fi))
        return Fi

    def contract(self):
        out = []
        for F, Fi in self.calls:
            k = F.shape[0]
            prod = Fi @ F
            for i in range(k):
                for j in range(k):
                    out.append(S.const(prod[i, j]).t == (1 if i == j else 0))
        return out


def _kernel_arrays(n, m, nper, values=None):
    """symbolic (values None) or float arrays of a time-invariant system, prior and data"""
    if values is None:
        mk = _arr
        zero = lambda *shape: np.full(shape, S.const(0), dtype=object)
        c0 = S.const(0)
    else:
        def mk(prefix, *shape):
            a = np.zeros(shape)
            for idx in np.ndindex(*shape):
                a[idx] = values.get(prefix + "_" + "_".join(map(str, idx)), 0.5)
            return a
        zero = lambda *shape: np.zeros(shape)
        c0 = 0.0
    A = dict(T=mk("T", n, n), P=mk("P", n, n), K=mk("K", n), Z=mk("Z", m, n), H=mk("H", m, m), D=mk("D", m),
             su=mk("su", n), sw=mk("sw", m), a=mk("a", n), L=mk("L", n, n), Y=mk("y", m, nper), u0=mk("u0", n), w0=mk("w0", m))
    cov_u, cov_w = zero(n, n), zero(m, m)
    for i in range(n):
        cov_u[i, i] = A["su"][i] * A["su"][i]
    for i in range(m):
        cov_w[i, i] = A["sw"][i] * A["sw"][i]
    for i in range(n):
        for j in range(i + 1, n):
            A["L"][i, j] = c0
    A.update(cov_u=cov_u, cov_w=cov_w, Q=A["L"] @ A["L"].T, c0=c0)
    return A


def _kernel_impl(kk, A, nper, mask_t, m):
    Tm, P, K, Z, H, D, cov_u, cov_w, Y, u0, w0 = (A[k] for k in ("T", "P", "K", "Z", "H", "D", "cov_u", "cov_w", "Y", "u0", "w0"))

    def gps(t):
        if mask_t[t]:
            return Tm, P, K, Z, H, D, cov_u, cov_w, None, None
        return Tm, P, K, Z[:0, :], H[:0, :], D[:0], cov_u, cov_w, None, None

    def gpd(t):
        if mask_t[t]:
            return Y[:, t], u0, None, w0, [True] * m
        return Y[:0, t], u0, None, w0, [False] * m
    stored = {"predict": {}, "update": {}, "smooth": {}}
    cache = kk.predict(num_periods=nper, initials=(A["a"], A["Q"], None), partial_generate_period_system=gps,
                       partial_generate_period_data=gpd,
                       store_predict=lambda **k: stored["predict"].__setitem__(k["t"], k),
                       store_update=lambda **k: stored["update"].setdefault(k["t"], {}).update(k),
                       store_smooth=True)
    kk.update(cache=cache, store_update=lambda **k: stored["update"].setdefault(k["t"], {}).update(k))
    kk.smooth(cache=cache, store_smooth=lambda **k: stored["smooth"].__setitem__(k["t"], k))
    return stored, cache


def _kernel_reference(A, nper, mask_t, n, m, inv):
    """independent textbook reference (Durbin-Koopman forward pass, de Jong backward pass)"""
    Tm, P, K, Z, H, D, cov_u, cov_w, Y, u0, w0 = (A[k] for k in ("T", "P", "K", "Z", "H", "D", "cov_u", "cov_w", "Y", "u0", "w0"))
    a, Q = A["a"], A["Q"]
    fw = []
    for t in range(nper):
        a0 = Tm @ a + K + P @ u0
        Q0 = Tm @ Q @ Tm.T + P @ cov_u @ P.T
        if mask_t[t]:
            F = Z @ Q0 @ Z.T + H @ cov_w @ H.T
            Fi = inv(F)
            pe = Y[:, t] - (Z @ a0 + D + H @ w0)
            G = Q0 @ Z.T @ Fi
            a1 = a0 + G @ pe
            Q1 = Q0 - G @ Z @ Q0
            fw.append(dict(a0=a0, Q0=Q0, Fi=Fi, pe=pe, G=G, Zt=Z, a1=a1, Q1=Q1, y0=Z @ a0 + D + H @ w0))
        else:
            a1, Q1 = a0, Q0
            fw.append(dict(a0=a0, Q0=Q0, Fi=None, pe=None, G=None, Zt=None, a1=a1, Q1=Q1, y0=None))
        a, Q = a1, Q1
    # backward: r_{t-1} = Z'F^-1 pe + L' r_t, L_t = T(I - G_t Z_t); smoothed a = a0 + Q0 r_{t-1}; u = u0 + cov_u P' r_{t-1};
    # w = w0 + cov_w H'(F^-1 pe - G'T' r_t)
    ref_sm = {}
    r = None
    last_obs = max([t for t in range(nper) if mask_t[t]], default=-1)
    for t in reversed(range(nper)):
        f = fw[t]
        if t > last_obs:
            ref_sm[t] = dict(xi=f["a0"], u=u0, w=w0)
            continue
        if f["Fi"] is not None:
            ZtFipe = f["Zt"].T @ f["Fi"] @ f["pe"]
            Lt = Tm - Tm @ f["G"] @ f["Zt"]
            if r is None:
                wsm = w0 + cov_w @ H.T @ (f["Fi"] @ f["pe"])
                r_new = ZtFipe
            else:
                wsm = w0 + cov_w @ H.T @ (f["Fi"] @ f["pe"] - (Tm @ f["G"]).T @ r)
                r_new = ZtFipe + Lt.T @ r
        else:
            wsm = w0
            r_new = (Tm.T @ r) if r is not None else np.full((n,), A["c0"], dtype=object)
        r = r_new
        ref_sm[t] = dict(xi=f["a0"] + f["Q0"] @ r, u=u0 + cov_u @ P.T @ r, w=wsm)
    return fw, ref_sm


def _kernel_claims(stored, cache, fw, ref_sm, n, m, nper, mask_t):
    claims = []
    for t in range(nper):
        f = fw[t]
        sp = stored["predict"][t]
        for i in range(n):
            claims.append((f"predict a0[{i}]@{t}", sp["a0"][i], f["a0"][i]))
            for j in range(n):
                claims.append((f"predict Q0[{i},{j}]@{t}", sp["Q0"][i, j], f["Q0"][i, j]))
        if mask_t[t]:
            for i in range(m):
                claims.append((f"pe[{i}]@{t}", cache.all_pe[t][i], f["pe"][i]))
                claims.append((f"predict y0[{i}]@{t}", sp["y0"][i], f["y0"][i]))
        su_ = stored["update"][t]
        for i in range(n):
            claims.append((f"update xi[{i}]@{t}", su_["xi"][i], f["a1"][i]))
            for j in range(n):
                claims.append((f"update Q[{i},{j}]@{t}", su_["Q"][i, j], f["Q1"][i, j]))
        ss_ = stored["smooth"][t]
        for i in range(n):
            claims.append((f"smooth xi[{i}]@{t}", ss_["xi"][i], ref_sm[t]["xi"][i]))
            claims.append((f"smooth u[{i}]@{t}", ss_["u"][i], ref_sm[t]["u"][i]))
        if mask_t[t]:
            for i in range(m):
                claims.append((f"smooth w[{i}]@{t}", ss_["w"][i], ref_sm[t]["w"][i]))
    return claims


def kernel_parametric(run, ir, n, m, nper, mask_t):
    """mask_t[t] True = period t observed (all m rows)"""
    from irispie.fords import kalmans as kk, covariances as cv
    key = f"kernel:n={n}:m={m}:T={nper}:obs={''.join('o' if x else '.' for x in mask_t)}"
    A = _kernel_arrays(n, m, nper)
    inv_impl, inv_ref = InvStub("fi"), InvStub("fi")
    proxy = npproxy.Proxy()
    extra = [(kk, "_INVERSE_FUNCTION", dict(kk._INVERSE_FUNCTION, regular=inv_impl))]
    with npproxy.installed(proxy, kk, cv, extra=extra), S.Path() as path:
        stored, cache = _kernel_impl(kk, A, nper, mask_t, m)
    dom = [s_.t > 0 for s_ in list(A["su"]) + list(A["sw"])] + [A["L"][i, i].t > 0 for i in range(n)]
    fw, ref_sm = _kernel_reference(A, nper, mask_t, n, m, inv_ref)
    claims = _kernel_claims(stored, cache, fw, ref_sm, n, m, nper, mask_t)
    sym_names = sorted({str(x.t) for k in ("T", "P", "K", "Z", "H", "D", "su", "sw", "a", "L", "Y", "u0", "w0") for x in np.asarray(A[k], dtype=object).flat
                        if isinstance(x, S.SReal) and z3.is_const(x.t) and x.t.decl().kind() == z3.Z3_OP_UNINTERPRETED})
    # the matrices handed to the inverse by implementation and reference must be equal (justifies the shared symbols)
    pre = []
    for kx, ((Fa, _), (Fb, _)) in enumerate(zip(inv_impl.calls, inv_ref.calls)):
        for i in range(Fa.shape[0]):
            for j in range(Fa.shape[1]):
                pre.append((f"F[{kx}][{i},{j}]", Fa[i, j], Fb[i, j]))
    if len(inv_impl.calls) != len(inv_ref.calls):
        run.unknown(key, "implementation and reference invert a different number of matrices")
        return
    contract = inv_impl.contract()
    assume = dom + contract + [path.condition()]
    r0, _ = run.check_sat(dom + [path.condition()], timeout_ms=30000)
    if r0 != "sat":
        run.unknown(key, f"reachability witness {r0}")
        return
    run.reach_ok += 1
    for labl, a_, b_ in pre + claims:
        at, bt = S.const(a_).t, S.const(b_).t
        diff = z3.simplify(at - bt, som=True)
        if z3.is_rational_value(diff) and diff.numerator_as_long() == 0:
            # polynomial identity: the difference normalises to 0 in z3's sum-of-monomials form; confirm with the solver
            res, mdl = run.prove(f"{key}:{labl}", diff == 0, [], timeout_ms=10000)
        else:
            res, mdl = run.prove(f"{key}:{labl}", diff == 0, assume, timeout_ms=60000, nl=True)
        if labl.startswith("smooth xi[0]@0") and len(run.samples) < 12:
            run.samples.append({"obligation": f"{key}:{labl}", "impl": str(at)[:140], "reference": str(bt)[:140], "verdict": res})
        if res == "unsat":
            continue
        if res == "sat":
            vals = model_values(mdl, sym_names)
            run.counterexample(key, f"kalman:kernel:{labl.split('@')[0]}", f"kernel differs from the textbook recursion at {labl}",
                               dict(kind="kernel", n=n, m=m, nper=nper, mask=list(mask_t), label=labl,
                                    values={k_: [v.numerator, v.denominator] for k_, v in vals.items()}))
            return
        run.unknown(key, f"solver {res} on {labl}")
        return
    run.ok(key)


def main(run):
    ir = load_irispie()
    run.extra["proxy_selftest_checks"] = npproxy.selftest()
    run.functions_encoded += [
        "fords.kalmans.{kalman_filter,predict,update,smooth,one_step_back,Cache.calculate_likelihood,calculate_likelihood_contributions,"
        "_calculate_variance_scale,_OutputStore.*}", "simultaneous._kalmans.{_generate_period_system,_generate_period_data}",
        "fords.initializers.{initialize,_initialize_med,_initialize_mse,_fixed_unknown}", "fords.kalmans.{estimate_unknown_init,correct_for_unknown_init}", "fords.covariances.{symmetrize,get_cov_alpha_00 via initialize}",
        "reached through Simultaneous.kalman_filter (A) and by direct calls with symbolic callables (B)",
    ]
    run.bounds["structures"] = ("(A) stationary zoo models with a measurement block (nk3, ar2m; pc_const in thorough), deviation in {T,F}, T=3, "
                                f"{'5 representative' if run.tier == 'quick' else 'all non-empty'} missing-data masks, fixed stds; "
                                "(B) fully symbolic time-invariant systems with n<=2 states, m=1 observable (m=2 for n=1 in thorough), 2 periods, every observed/unobserved pattern")
    run.bounds["values"] = "(A) every observed cell in [-1,1], tolerance 1e-8 (means) / 1e-7 (likelihood); (B) all reals with positive stds and positive-definite prior (exact)"
    run.stubs += ["(A) numpy.linalg.inv/det on concrete covariances via ground-concretising shims", "(B) matrix inverse stubbed by its contract: fresh symmetric Fi with Fi@F=I, shared by implementation and reference after proving their F equal"]
    run.assumptions += ["cells are mathematical reals; float-born coefficients read exactly", "(A) the oracle is built from the square solution T,P,K,Z,H,D "
                        "returned by get_solution() (C01 decides the solution) and from unconditional moments computed independently (linear solve, Lyapunov)"]
    run.bounds["unit_roots"] = ("(A-UR) unit-root zoo models ur_mix (random walk with drift + two stationary components with non-zero means, measurement shock) "
                                "and ur_drift under the default diffuse_method='fixed_unknown', deviation in {T,F}, same masks (those that identify the "
                                "initial condition), against the concentrated-likelihood oracle")
    run.stubs.append("(A-UR) numpy.linalg.lstsq with a concrete matrix and a symbolic right-hand side executed as pinv(matrix) @ rhs")
    run.outside += ["approx_diffuse and fixed_zero initialisation", "unit-root models with rescale_variance", "observation sets that do not identify the unknown initial condition", "time-varying stds other than the two per model supplied in (A)", "n>2 or m>2 in (B)", "spans > 3 periods"]
    models = ("nk3", "ar2m") if run.tier == "quick" else ("nk3", "ar2m", "pc_const")
    nper = 3
    for name in models:
        zm, m = _model(ir, name)
        for mask in _masks(len(zm.mvars), nper, run.tier):
            for deviation in ((False,) if run.tier == "quick" else (False, True)):
                try:
                    api_vs_oracle(run, ir, zm, m, nper, mask, deviation)
                except S.SymbolicBranchError as exc:
                    run.unknown(f"api:{zm.name}:{_mask_str(mask, len(zm.mvars), nper)}", exc)
                except Exception as exc:
                    run.error(f"api:{zm.name}:{_mask_str(mask, len(zm.mvars), nper)}", exc)
    # time-varying stds supplied as data (stds_from_data=True): full data and one mask per model
    for name in models:
        zm, m = _model(ir, name)
        masks_ = _masks(len(zm.mvars), nper, run.tier)
        for mask in (masks_[:2] if run.tier == "quick" else masks_[:8]):
            try:
                api_vs_oracle(run, ir, zm, m, nper, mask, False, tv=True)
            except S.SymbolicBranchError as exc:
                run.unknown(f"api:tv:{zm.name}:{_mask_str(mask, len(zm.mvars), nper)}", exc)
            except Exception as exc:
                run.error(f"api:tv:{zm.name}:{_mask_str(mask, len(zm.mvars), nper)}", exc)
    for name in UR_MODELS:
        zm, m = _model(ir, name)
        for mask in _masks(len(zm.mvars), nper, run.tier):
            for deviation in (False, True):
                try:
                    api_vs_oracle_ur(run, ir, zm, m, nper, mask, deviation)
                except S.SymbolicBranchError as exc:
                    run.unknown(f"api:{zm.name}:{_mask_str(mask, len(zm.mvars), nper)}", exc)
                except Exception as exc:
                    run.error(f"api:{zm.name}:{_mask_str(mask, len(zm.mvars), nper)}", exc)
    for name in models:
        zm, m = _model(ir, name)
        masks = _masks(len(zm.mvars), nper, run.tier)
        for mask in (masks[:1] + masks[2:3] if run.tier == "quick" else masks[:4]):
            try:
                api_options(run, ir, zm, m, nper, mask, False)
            except S.SymbolicBranchError as exc:
                run.unknown(f"options:{zm.name}:{_mask_str(mask, len(zm.mvars), nper)}", exc)
            except Exception as exc:
                run.error(f"options:{zm.name}:{_mask_str(mask, len(zm.mvars), nper)}", exc)
    shapes = [(1, 1), (2, 1)] if run.tier == "quick" else [(1, 1), (2, 1), (1, 2)]
    for (n, mm) in shapes:
        for mask_t in itertools.product((True, False), repeat=2):
            if not any(mask_t):
                continue
            try:
                kernel_parametric(run, ir, n, mm, 2, mask_t)
            except S.SymbolicBranchError as exc:
                run.unknown(f"kernel:n={n}:m={mm}:{mask_t}", exc)
            except Exception as exc:
                run.error(f"kernel:n={n}:m={mm}:{mask_t}", exc)
    run.extra["exhaustive"] = True


def replay(case):
    ir = load_irispie()
    if case["kind"] == "kernel":
        from irispie.fords import kalmans as kk
        n, m_, nper, mask_t = case["n"], case["m"], case["nper"], tuple(case["mask"])
        vals = {k: float(Fraction(a, b)) for k, (a, b) in case["values"].items()}
        A = _kernel_arrays(n, m_, nper, values=vals)
        with np.errstate(all="ignore"):
            stored, cache = _kernel_impl(kk, A, nper, mask_t, m_)
            fw, ref_sm = _kernel_reference(A, nper, mask_t, n, m_, np.linalg.inv)
        worst, msg = 0.0, "kernel equals the textbook recursion"
        for labl, a, b in _kernel_claims(stored, cache, fw, ref_sm, n, m_, nper, mask_t):
            a, b = float(a), float(b)
            if not (math.isfinite(a) and math.isfinite(b)):
                continue
            e = abs(a - b) / (1 + abs(b))
            if e > worst:
                worst, msg = e, f"{labl}: kernel {a!r} vs reference {b!r}"
        return worst > 1e-7, msg
    zm, m = _model(ir, case["model"])
    nper, deviation = case["nper"], case["deviation"]
    rows = case["mask"].split("/")
    mask = {(r, t): rows[r][t] == "o" for r in range(len(zm.mvars)) for t in range(nper)}
    vals = {k: float(Fraction(a, b)) for k, (a, b) in case.get("values", {}).items()}
    start = ir.qq(2020, 1)
    span = start >> (start + nper - 1)
    db = _data_db(ir, zm, start, nper, mask, values=vals)
    tvd, kw_tv = None, {}
    if case.get("tv"):
        tvd = _tv_stds(zm, nper)
        for n_, vals_ in tvd.items():
            db[n_] = ir.Series(start=start, values=tuple(vals_))
        kw_tv = dict(stds_from_data=True)
    if case["kind"] == "api_option":
        opt = case["option"]
        if opt == "variants_stds":
            sname = "std_" + zm.tshocks[0]
            s0 = float(STDS[zm.name][sname])
            m3 = m.copy(); m3.alter_num_variants(2); m3.assign(**{sname: [s0, 2.5 * s0]})
            f1 = m.copy(); f1.assign(**{sname: 2.5 * s0})
            try:
                two, info2 = m3.kalman_filter(db, span, deviation=deviation, return_info=True)
                one, info1 = f1.kalman_filter(db, span, deviation=deviation, return_info=True)
            except Exception as exc:
                return True, f"kalman_filter raises {type(exc).__name__}: {exc}"
            worst, msg = 0.0, "variant 1 equals the single-variant model"
            for kind in ("predict_med", "update_med", "smooth_med", "predict_std", "smooth_std"):
                for n in list(zm.tvars) + list(zm.tshocks):
                    if n not in two[kind] or n not in one[kind]:
                        continue
                    a = np.asarray(two[kind][n].get_data(span), dtype=float)
                    b = np.asarray(one[kind][n].get_data(span), dtype=float)
                    if a.shape[1] < 2:
                        return True, f"{kind}[{n}] has {a.shape[1]} variant(s)"
                    d = np.abs(a[:, 1] - b[:, 0])
                    d = float(np.nanmax(d)) if np.isfinite(d).any() else 0.0
                    if d > worst:
                        worst, msg = d, f"{kind}[{n}]: variant 1 differs from the single-variant model by {d!r}"
            n2 = info2[1]["neg_log_likelihood"] if isinstance(info2, (list, tuple)) else info2["neg_log_likelihood"]
            d = abs(float(np.asarray(n2).reshape(-1)[-1]) - float(np.asarray(info1["neg_log_likelihood"]).reshape(-1)[0]))
            if d > worst:
                worst, msg = d, f"neg_log_likelihood of variant 1 differs by {d!r}"
            return worst > 1e-7, msg
        full = m.kalman_filter(db, span, deviation=deviation)
        try:
            if opt == "variants_singularity":
                m2 = m.copy(); m2.alter_num_variants(2)
                part = m2.kalman_filter(db, span, deviation=deviation, check_singularity=True)
            elif "predict" in opt:
                part = m.kalman_filter(db, span, deviation=deviation, return_=("predict", "update"))
            else:
                part = m.kalman_filter(db, span, deviation=deviation, return_=("update",))
        except Exception as exc:
            return True, f"kalman_filter with {opt} raises {type(exc).__name__}: {exc}"
        worst = 0.0
        for n in list(zm.tvars) + list(zm.tshocks):
            if n not in full["update_med"]:
                continue
            a = np.asarray(full["update_med"][n].get_data(span), dtype=float)
            b = np.asarray(part["update_med"][n].get_data(span), dtype=float)
            for col in range(b.shape[1]):
                d = np.nanmax(np.abs(a[:, 0] - b[:, col])) if a.size else 0.0
                worst = max(worst, float(d))
        return worst > 1e-8, f"updated means differ by {worst!r}"
    if case["kind"] == "api_raises":
        try:
            m.kalman_filter(db, span, deviation=deviation)
        except Exception as exc:
            return True, f"kalman_filter raises {type(exc).__name__}: {exc}"
        return False, "kalman_filter completes on floats"
    B, xi, ynames, unames, wnames = _oracle_setup(ir, zm, m, nper, deviation, tv=tvd)
    yrow = {n: r for r, n in enumerate(ynames)}
    obs_all = [(yrow[n], t) for r, n in enumerate(zm.mvars) for t in range(nper) if mask[(r, t)]]
    obs_all.sort(key=lambda o: (o[1], o[0]))

    def g(box, n, per):
        s = box[n]
        if s.start is None or per < s.start or per > s.end:
            return float("nan")
        return float(np.asarray(s.get_data(per)).reshape(-1)[0])
    yv = {o: g(db, ynames[o[0]], start + o[1]) for o in obs_all}
    out, info = m.kalman_filter(db, span, deviation=deviation, return_info=True, **kw_tv)
    worst, msg = 0.0, "all claims hold"
    if case["kind"] == "api_rescale_contributions":
        out2, info2 = m.kalman_filter(db, span, deviation=deviation, return_info=True, rescale_variance=True)
        tot = float(info2["neg_log_likelihood"])
        parts = float(np.nansum(np.asarray(info2["neg_log_likelihood_contributions"].get_data(span), dtype=float)))
        return abs(tot - parts) > 1e-7, f"neg_log_likelihood {tot!r} vs sum of contributions {parts!r}"
    if case["kind"] == "api_rescale":
        out2, info2 = m.kalman_filter(db, span, deviation=deviation, return_info=True, rescale_variance=True)
        nll, my, Si, logdet = B.neg_log_density(obs_all, [yv[o] for o in obs_all])
        d = np.array([yv[o] for o in obs_all]) - my
        q = float(d @ Si @ d)
        k = len(obs_all)
        want_vs = q / k
        want_nll = 0.5 * (k * math.log(2 * math.pi) + logdet + k * math.log(want_vs) + k)
        e1 = abs(float(info2["var_scale"]) - want_vs) / (1 + abs(want_vs))
        e2 = abs(float(info2["neg_log_likelihood"]) - want_nll) / (1 + abs(want_nll))
        return max(e1, e2) > 1e-6, f"var_scale {info2['var_scale']!r} vs {want_vs!r}; nll {info2['neg_log_likelihood']!r} vs {want_nll!r}"

    def cmp(label, a, b, scale=1.0):
        nonlocal worst, msg
        if math.isnan(a) or math.isnan(b):
            return
        e = abs(a - b) / scale
        if e > worst:
            worst, msg = e, f"{label}: irispie {a!r} vs oracle {b!r}"
    if case["kind"] == "api_ur":
        y_all = np.array([yv[o] for o in obs_all])
        filt = {"predict": lambda o, t: o[1] < t, "update": lambda o, t: o[1] <= t, "smooth": lambda o, t: True}
        for kind, f in filt.items():
            for t in range(nper):
                obs = [o for o in obs_all if f(o, t)]
                for name, Lrow, m0, Drow in _ur_targets(B, xi, ynames, unames, wnames, t, kind):
                    const, coef = B.ur_mean_affine(Lrow, m0, Drow, obs, obs_all)
                    if name in out[f"{kind}_med"]:
                        cmp(f"{kind}_med:{name}@{t}", g(out[f"{kind}_med"], name, start + t), float(const + coef @ y_all))
                    if name in out[f"{kind}_std"]:
                        cmp(f"{kind}_std:{name}@{t}", g(out[f"{kind}_std"], name, start + t), math.sqrt(max(float(B.cond_cov(Lrow, obs)[0, 0]), 0.0)))
        c0, R, my_all, Si = B.ur_neg_log_density(obs_all)
        v = R @ (y_all - my_all)
        nll = 0.5 * (c0 + float(v @ Si @ v))
        cmp("neg_log_likelihood", float(info["neg_log_likelihood"]), nll, scale=1 + abs(nll))
        parts = float(np.nansum(np.asarray(info["neg_log_likelihood_contributions"].get_data(span), dtype=float)))
        cmp("sum of contributions", parts, float(info["neg_log_likelihood"]), scale=1 + abs(nll))
        return worst > 1e-6, msg
    filt = {"predict": lambda o, t: o[1] < t, "update": lambda o, t: o[1] <= t, "smooth": lambda o, t: True}
    for kind, f in filt.items():
        for t in range(nper):
            obs = [o for o in obs_all if f(o, t)]
            targets = [(name, B.A[t][i:i + 1, :], B.mu[t][i]) for i, (name, sh) in enumerate(xi) if sh == 0]
            targets += [(name, B.U[t][j:j + 1, :], 0.0) for j, name in enumerate(unames)]
            targets += [(name, B.W[t][j:j + 1, :], 0.0) for j, name in enumerate(wnames)]
            for name, Lrow, m0 in targets:
                m0_, C, my = B.cond_mean_coef(Lrow, m0, obs)
                want = m0_ + (C[0] @ (np.array([yv[o] for o in obs]) - my) if obs else 0.0)
                if name in out[f"{kind}_med"]:
                    cmp(f"{kind}_med:{name}@{t}", g(out[f"{kind}_med"], name, start + t), float(want))
                if name in out[f"{kind}_std"]:
                    cmp(f"{kind}_std:{name}@{t}", g(out[f"{kind}_std"], name, start + t), math.sqrt(max(float(B.cond_cov(Lrow, obs)[0, 0]), 0.0)))
    nll, *_ = B.neg_log_density(obs_all, [yv[o] for o in obs_all])
    cmp("neg_log_likelihood", float(info["neg_log_likelihood"]), float(nll), scale=1 + abs(nll))
    return worst > 1e-6, msg


if __name__ == "__main__":
    standard_main(PID, main, replay)
