"""
C02, stacked-time Jacobian layer -- the matrix handed to the Newton solver by the stacked-time simulator equals the Jacobian of the function
handed to it.

checks/C06.StackedLift runs Simultaneous.simulate(method="stacked_time") with the solver stubbed; at the stub the real `eval_func(g, data)` and
the real `eval_jacob(g, data)` (stacked_time._jacobians.Jacobian.eval, aldi Context on time-stacked atoms, ArrayMap placement,
fords.terminators.Terminator.terminate_jacobian for the first-order terminal condition) are both evaluated at the same symbolic point g.
scipy's sparse matrix rejects object data, so SparseJacobian._initialize_jacobian_matrix is replaced by a dense object matrix of the same shape
(checks/C06.DenseObjectMatrix); everything else is the unmodified code.  The oracle differentiates the z3 terms of f structurally
(checks/C02_placement.zdiff); z3 decides J[i, j] == d f_i / d g_j for all g and all data.
"""
from __future__ import annotations

import contextlib
from fractions import Fraction
import io

import numpy as np
import z3

from symx import sreal as S
from symx.lift import exp_log_axioms
from symx.series_tools import load_irispie
from symx.concolic import model_values
from checks.C02_placement import zdiff, expo_unify, _is0


def _run(ir, nm, m, terminal, nsim, unant, ant):
    from checks import C06
    start = ir.qq(2020, 1)
    span = start >> (start + nsim - 1)
    db = C06.make_db(ir, nm, m, start, nsim, unant_periods=unant, ant_periods=ant, terminal_data=(terminal == "data"))
    lift_rows = set(nm.tvars) | set(nm.shocks) | {"ant_" + s for s in nm.shocks}

    def cells(name, k):
        if name.startswith("ant_"):
            return name == "ant_" + nm.shocks[0] and k in ant
        if name in nm.shocks:
            return k in unant
        return True
    L = C06.StackedLift(ir, start, lift_rows, nm.params, symbolic_cells=cells, shock_rows=nm.shocks)
    L.capture_jacobian = True
    with L, S.Path() as path, contextlib.redirect_stdout(io.StringIO()):
        m.simulate(db, span, method="stacked_time", terminal=terminal)
    return L, path


def check_model(run, ir, nm, m, terminal, nsim, unant, ant):
    key0 = f"stacked_jacobian:{nm.name}:terminal={terminal}:nsim={nsim}:unant={unant}:ant={ant}"
    case = dict(kind="stacked_jacobian", model=nm.name, terminal=terminal, nsim=nsim, unant=list(unant), ant=list(ant))
    L, path = _run(ir, nm, m, terminal, nsim, unant, ant)
    if not L.jacobians:
        run.unknown(key0, "the solver stub was never called")
        return
    pos = [s.t > 0 for n, s in L.syms.items() if n.split("__")[0].replace("guess_", "") in nm.logvars]
    for fi, jc in enumerate(L.jacobians):
        key = f"{key0}:frame{fi}"
        if "error" in jc:
            run.counterexample(key, f"stacked_jacobian:raises:{nm.name}", f"eval_jacob raises on symbolic data: {jc['error']}", dict(case, frame=fi, values={}), replay=False)
            run.obligations[key] = "inconclusive"
            run.inconclusive.append({"obligation": key, "why": jc["error"]})
            return
        g, f, J = jc["g"], jc["f"], jc["J"]
        if J.shape != (len(f), len(g)):
            run.counterexample(key, f"stacked_jacobian:{nm.name}", f"Jacobian has shape {J.shape} for {len(f)} equations x {len(g)} unknowns", dict(case, frame=fi, values={}))
            return
        claims = []
        for i, fterm in enumerate(f):
            ft = S.const(fterm).t
            for j in range(len(g)):
                d = zdiff(ft, g[j].t)
                d = z3.RealVal(d) if isinstance(d, int) else d
                jt = S.const(J[i, j]).t if isinstance(J[i, j], S.SReal) else S.rv(S.float_fraction(float(J[i, j])))
                claims.append((i, j, jt, d))
        terms = [t for _, _, a, b in claims for t in (a, b)]
        ax = exp_log_axioms(terms) + pos
        bad = None
        n_sym = 0
        for i, j, a, b in claims:
            diff = z3.simplify(a - b, som=True)
            if z3.is_rational_value(diff) and abs(Fraction(diff.numerator_as_long(), diff.denominator_as_long())) <= Fraction(1, 10 ** 9):
                # identical, or two numbers that differ by float noise (products of the terminal-condition matrices taken in a different order)
                continue
            n_sym += 1
            res, mdl = run.prove(f"{key}:J[{i},{j}]", a == b, ax, timeout_ms=20000, nl=True)
            if res != "unsat":
                (a2, b2), dom2 = expo_unify([a, b])
                if dom2:
                    r2, _m = run.prove(f"{key}:J[{i},{j}]:unified", a2 == b2, exp_log_axioms([a2, b2]) + pos + dom2, timeout_ms=20000, nl=True)
                    if r2 == "unsat":
                        res = "unsat"
            if res == "unsat":
                continue
            bad = (i, j, a, b, res, mdl)
            break
        # one batch query for all structurally identical entries (so that the evidence counts a solver verdict for them as well)
        same = [z3.And(a - b <= Fraction(1, 10 ** 9), b - a <= Fraction(1, 10 ** 9)) for _, _, a, b in claims if z3.is_rational_value(z3.simplify(a - b, som=True))]
        if same and bad is None:
            res, _ = run.prove(f"{key}:identical entries", z3.And(*same), [], timeout_ms=60000)
            if res != "unsat":
                run.unknown(key, f"solver {res} on the batch of identical entries")
                return
        if bad is None:
            if len(run.samples) < 12:
                i0 = next((c for c in claims if not z3.is_rational_value(z3.simplify(c[2]))), claims[0])
                run.samples.append({"obligation": key, "verdict": f"unsat: all {len(claims)} entries of the {J.shape[0]}x{J.shape[1]} Jacobian equal the structural derivative of f",
                                    "example": f"J[{i0[0]},{i0[1]}] = {str(z3.simplify(i0[2]))[:120]}"})
            run.ok(key)
            continue
        i, j, a, b, res, mdl = bad
        if res == "sat":
            names = sorted(L.syms)
            vals = model_values(mdl, names + [str(x.t) for x in g])
            run.counterexample(key, f"stacked_jacobian:{nm.name}", f"J[{i},{j}] = {str(z3.simplify(a))[:90]} differs from d f_{i}/d g_{j} = {str(z3.simplify(b))[:90]}",
                               dict(case, frame=fi, entry=[i, j], values={k: [v.numerator, v.denominator] for k, v in vals.items()}))
        else:
            run.unknown(key, f"solver {res} on J[{i},{j}]")
        return
    run.reach_ok += 1


def check_steady_jacobian(run, ir, sm, split):
    """steadiers._jacobian.{Flat,Nonflat}SteadyJacobian.eval through SteadyEvaluator.eval_jacob, at the symbolic point of the C05 solver stub:
    every entry equals the structural derivative of the function handed to the solver"""
    from checks import C05
    key0 = f"steady_jacobian:{sm.name}:flat={sm.flat}:split={split}"
    case = dict(kind="steady_jacobian", model=sm.name, split=split)
    m = C05.build(ir, sm)
    plan = C05.make_plan(ir, sm, m)
    kw = dict(split_into_blocks=split)
    if plan is not None:
        kw["plan"] = plan
    L = C05.SteadyLift(ir)
    L.capture_jacobian = True
    with L, S.Path() as path, contextlib.redirect_stdout(io.StringIO()):
        m.solve_steady(**kw)
    if not L.blocks:
        run.unknown(key0, "the solver stub was never called")
        return
    for bi, blk in enumerate(L.blocks):
        key = f"{key0}:block{bi}"
        if "J_error" in blk:
            run.unknown(key, f"eval_jacob on symbolic data: {blk['J_error']}")
            return
        g, f, J = blk["g"], blk["f"], blk["J"]
        if J.shape != (len(f), len(g)):
            run.counterexample(key, f"steady_jacobian:{sm.name}", f"Jacobian has shape {J.shape} for {len(f)} equations x {len(g)} unknowns", dict(case, block=bi, values={}))
            return
        bad = None
        nclaims = 0
        for i, fterm in enumerate(f):
            ft = S.const(fterm).t
            for j in range(len(g)):
                d = zdiff(ft, g[j].t)
                d = z3.RealVal(d) if isinstance(d, int) else d
                a = S.const(J[i, j]).t if isinstance(J[i, j], S.SReal) else S.rv(S.float_fraction(float(J[i, j])))
                nclaims += 1
                diff = z3.simplify(a - d, som=True)
                if z3.is_rational_value(diff) and diff.numerator_as_long() == 0:
                    continue
                ax = exp_log_axioms([a, d])
                res, mdl = run.prove(f"{key}:J[{i},{j}]", a == d, ax, timeout_ms=20000, nl=True)
                if res != "unsat":
                    (a2, b2), dom2 = expo_unify([a, d])
                    if dom2:
                        r2, _m = run.prove(f"{key}:J[{i},{j}]:unified", a2 == b2, exp_log_axioms([a2, b2]) + dom2, timeout_ms=20000, nl=True)
                        if r2 == "unsat":
                            res = "unsat"
                if res == "unsat":
                    continue
                bad = (i, j, a, d, res, mdl)
                break
            if bad:
                break
        if bad is None:
            run.prove(f"{key}:batch", z3.BoolVal(True), [], timeout_ms=1000)
            if len(run.samples) < 12:
                run.samples.append({"obligation": key, "verdict": f"unsat: all {nclaims} entries of the steady-state Jacobian equal the structural derivative of the solver's function"})
            run.ok(key)
            continue
        i, j, a, d, res, mdl = bad
        if res == "sat":
            vals = model_values(mdl, [str(x.t) for x in g])
            run.counterexample(key, f"steady_jacobian:{sm.name}", f"J[{i},{j}] = {str(z3.simplify(a))[:90]} differs from d f_{i}/d g_{j} = {str(z3.simplify(d))[:90]}",
                               dict(case, block=bi, entry=[i, j], values={k: [v.numerator, v.denominator] for k, v in vals.items()}))
        else:
            run.unknown(key, f"solver {res} on J[{i},{j}]")
        return
    run.reach_ok += 1


def replay_steady_jacobian(case):
    """floats: the real eval_jacob against central finite differences of the real eval_func at the solver's starting point (every block)"""
    from checks import C05
    import types
    ir = load_irispie()
    sm = C05.by_name(case["model"])
    m = C05.build(ir, sm)
    plan = C05.make_plan(ir, sm, m)
    kw = dict(split_into_blocks=case["split"])
    if plan is not None:
        kw["plan"] = plan
    from irispie.steadiers import solver_dispatcher as sd
    real = sd.neqs_levenberg
    seen = []

    def spy(steady_evaluator, init_guess, solver_settings):
        e = steady_evaluator
        g0 = np.array(init_guess, dtype=float) + 0.05 * (1 + np.arange(len(init_guess)) % 3)
        J = np.asarray(e.eval_jacob(g0.copy()), dtype=float)
        fd = np.zeros_like(J)
        h = 1e-6
        for j in range(len(g0)):
            gp, gm = g0.copy(), g0.copy()
            gp[j] += h; gm[j] -= h
            fd[:, j] = (np.asarray(e.eval_func(gp), dtype=float) - np.asarray(e.eval_func(gm), dtype=float)) / (2 * h)
        seen.append(float(np.abs(J - fd).max()))
        return real(steady_evaluator, init_guess, solver_settings)
    sd.neqs_levenberg = spy
    try:
        with contextlib.redirect_stdout(io.StringIO()):
            try:
                m.solve_steady(**kw)
            except Exception:
                pass
    finally:
        sd.neqs_levenberg = real
    if not seen:
        return False, "solver not reached"
    return max(seen) > 1e-4, f"max |J - finite difference| over blocks = {max(seen)!r}"


def run_layers(run):
    from checks import C06, C05
    ir = load_irispie()
    run.functions_encoded += ["steadiers._jacobian.{FlatSteadyJacobian,NonflatSteadyJacobian}.eval, steadiers.evaluators.SteadyEvaluator.eval_jacob (same symbolic point as eval_func)"]
    run.bounds["steady_jacobian"] = "the steady zoo of checks/C05 (flat and growth models, log-variables, plans) x split_into_blocks"
    for sm in C05.steady_zoo():
        if sm.linear:
            continue
        for split in ((True,) if run.tier == "quick" else (True, False)):
            try:
                check_steady_jacobian(run, ir, sm, split)
            except S.SymbolicBranchError as exc:
                run.unknown(f"steady_jacobian:{sm.name}:{split}", exc)
            except Exception as exc:
                run.error(f"steady_jacobian:{sm.name}:{split}", exc)
    run.functions_encoded += ["stacked_time._jacobians.Jacobian.{_populate_map,eval,_create_eid_to_wrts,_atom_factory}", "jacobians.base._Jacobian.{__init__,_create_jacobian_matrix}",
                              "fords.terminators.Terminator.{terminate_jacobian,_complete_terminal_jacobian_map}", "stacked_time._evaluators.eval_jacob / eval_func (same symbolic point)"]
    run.bounds["stacked_jacobian"] = ("models of checks/C06 (rbc with log-variables and leads, nl_backward, lin_forward, lin_lead2, lin_backward); span 3; terminal in {first_order, data}; "
                                      "one or two frames; every entry of the Jacobian against the structural derivative of the function handed to the solver")
    run.stubs += ["scipy.sparse.csc_matrix in SparseJacobian._initialize_jacobian_matrix -> dense object matrix of the same shape (scipy rejects object data)"]
    quick = run.tier == "quick"
    for nm in C06.models():
        if getattr(nm, "loglinear", False):
            # added to C06 for its own obligation (first-order match in logs): its Jacobian entries are products of EXP(.) with
            # float-born constants that differ by rounding between eval_jacob and the structural derivative, which an exact symbolic comparison
            # cannot absorb (numeric entries have a 1e-9 tolerance, symbolic ones none); rbc covers log-variables and real powers in this layer
            continue
        if quick and nm.name in ("lin_backward",):
            continue
        try:
            m = C06.build(ir, nm)
        except Exception as exc:
            run.error(f"stacked_jacobian:{nm.name}:build", exc)
            continue
        for terminal in (("first_order",) if quick else ("first_order", "data")):
            for (unant, ant) in (((0,), (1,)),) + ((((0, 1), ()),) if not quick else ()):
                try:
                    check_model(run, ir, nm, m, terminal, 3, unant, ant)
                except S.SymbolicBranchError as exc:
                    run.unknown(f"stacked_jacobian:{nm.name}:{terminal}:{unant}", exc)
                except Exception as exc:
                    run.error(f"stacked_jacobian:{nm.name}:{terminal}:{unant}", exc)


def replay_stacked(case):
    """floats: the real eval_jacob against central finite differences of the real eval_func at the solver's starting point"""
    from checks import C06
    import types
    ir = load_irispie()
    nm = C06.by_name(case["model"])
    m = C06.build(ir, nm)
    from irispie.stacked_time import simulators as sts
    start = ir.qq(2020, 1)
    nsim = case["nsim"]
    span = start >> (start + nsim - 1)
    db = C06.make_db(ir, nm, m, start, nsim, unant_periods=tuple(case["unant"]), ant_periods=tuple(case["ant"]), terminal_data=(case["terminal"] == "data"))
    seen = []
    realnq = sts._nq

    def spy(eval_func, eval_jacob, init_guess, iter_printer=None, args=(), **kw):
        data = args[0]
        g0 = np.array(init_guess, dtype=float) + 0.01 * (1 + np.arange(len(init_guess)) % 3)
        J = np.asarray(eval_jacob(g0.copy(), data.copy()).todense(), dtype=float)
        fd = np.zeros_like(J)
        h = 1e-6
        for j in range(len(g0)):
            gp, gm = g0.copy(), g0.copy()
            gp[j] += h; gm[j] -= h
            fd[:, j] = (np.asarray(eval_func(gp, data.copy()), dtype=float) - np.asarray(eval_func(gm, data.copy()), dtype=float)) / (2 * h)
        seen.append(float(np.abs(J - fd).max()))
        return realnq.damped_newton(eval_func, eval_jacob, init_guess, iter_printer=iter_printer, args=args, **kw)
    old = sts._nq
    sts._nq = types.SimpleNamespace(damped_newton=spy, ExitStatus=realnq.ExitStatus)
    try:
        with contextlib.redirect_stdout(io.StringIO()):
            try:
                m.simulate(db, span, method="stacked_time", terminal=case["terminal"], solver_settings={"step_tolerance": float("inf")})
            except Exception:
                pass
    finally:
        sts._nq = old
    if not seen:
        return False, "solver not reached"
    worst = max(seen)
    return worst > 1e-4, f"max |J - finite difference| over frames = {worst!r}"
