"""
C15 -- Model-implied autocovariances solve the solved model's Lyapunov equation.

Simultaneous.get_acov / getv_autocov / get_acorr run with symbolic shock variances (getv_cov_u/getv_cov_w return diag(v));
scipy.linalg.solve_discrete_lyapunov is stubbed by its contract (fresh symmetric X with X = Ta X Ta' + Sigma).  Real code:
fords.covariances.get_autocov_square(_00), get_autocov_triangular_00, get_cov_triangular_00, get_cov_alpha_00, acorr_from_acov,
row selection in simultaneous/_covariances.  Oracle on the SQUARE solution T,P,Z,H (independent of the triangular route):
  C0_xx = T C0_xx T' + P diag(v) P',  C0_yy = Z C0_xx Z' + H diag(w) H',  C0_xy = C0_xx Z',  C_j = [T;ZT]^j-type recursions,
unit-root-loaded rows/columns NaN, homogeneity in the variances.  QF_LRA with tolerance on v in [0,1].
"""
from __future__ import annotations

import math
from fractions import Fraction

import numpy as np
import z3

from symx import sreal as S
from symx import npproxy, zoo, fo
from symx.concolic import model_values, explore
from symx.series_tools import load_irispie
from symx.report import standard_main
from checks.C08 import STDS

PID = "C15"
TOL = Fraction(1, 10 ** 8)
NAN_NAMES = {"ur_drift": {"l", "ol"}, "ar_rw": {"rw", "obs_rw", "obs_c"}}

# a stationary variable declared BEFORE a random walk; measurements of the stationary one, of the random walk and of their sum:
# which measurement variables are loaded on the unit root is not readable from the leading columns of Z
AR_RW = zoo.ZModel(
    "ar_rw", ("x", "rw"), ("ex", "er"),
    ("x = 0.5*x[-1] + ex", "rw = rw[-1] + er"), dict(),
    mvars=("obs_x", "obs_rw", "obs_c"), mshocks=("w",), meqs=("obs_x = x + w", "obs_rw = rw", "obs_c = x + rw"),
    tags=("unit_root", "measurement", "backward"), forward=0, unit_roots=1)


def _zm(name):
    return AR_RW if name == "ar_rw" else zoo.by_name(name)


def _diag(v):
    d = np.full((len(v), len(v)), S.const(0), dtype=object)
    for i, x in enumerate(v):
        d[i, i] = x
    return d


class CovLift:
    def __init__(self, ir, m, scale=1, values=None):
        from irispie.fords import covariances as cv
        from irispie.simultaneous import _covariances as sc
        import scipy
        self.cv, self.sc, self.scipy = cv, sc, scipy
        self.m = m
        self.scale = scale
        self.values = values or {}      # shadow values of the variance symbols (DART)
        self.contract = []
        self.calls = 0
        # the stub's symbols must differ between lifts that differ: two lifts in one query (scale 1 and scale 4) sharing the name X0_i_j would assert
        # X = TXT' + PVP' and X = TXT' + 4PVP' of the SAME X, forcing V = 0 and making every claim vacuous
        # (names are a function of the scale, so that repeated runs of one structure -- path enumeration -- use the same symbols)
        self.tag = f"s{scale}"

    def __enter__(self):
        m, outer = self.m, self
        vec = m._get_dynamic_solution_vectors()
        q2n = m.create_qid_to_name()
        self.vu = [S.sym("v_" + q2n[t.qid], self.values.get("v_" + q2n[t.qid], Fraction(1, 2))) for t in vec.transition_shocks]
        self.vw = [S.sym("v_" + q2n[t.qid], self.values.get("v_" + q2n[t.qid], Fraction(1, 3))) for t in vec.measurement_shocks]
        sc_ = self.scale

        def lyap(A, Q, *a, **k):
            A, Q = np.asarray(A), np.asarray(Q)
            if Q.dtype != object or not S.has_symbol(Q):
                return outer.scipy.linalg.solve_discrete_lyapunov(np.asarray(A, dtype=float), np.asarray(Q, dtype=float))
            n = A.shape[0]
            X = np.empty((n, n), dtype=object)
            c = outer.calls
            outer.calls += 1
            # shadows: the float solution at the shadow variances, so that concolic branches on covariances follow the real path
            try:
                Xf = outer.scipy.linalg.solve_discrete_lyapunov(np.asarray(A, dtype=float), np.asarray(S.shadow_float(Q), dtype=float))
                Xf = (Xf + Xf.T) / 2
            except Exception:
                Xf = np.full((n, n), 0.5)
            for i in range(n):
                for j in range(i, n):
                    X[i, j] = X[j, i] = S.sym(f"X{outer.tag}_{c}_{i}_{j}", Fraction(float(Xf[i, j])))
            R = A.astype(object) @ X @ A.T.astype(object) + Q
            for i in range(n):
                for j in range(i, n):
                    outer.contract.append(S.const(X[i, j]).t == S.const(R[i, j]).t)
            return X
        sl = npproxy.SubProxy(self.scipy.linalg, {"solve_discrete_lyapunov": lyap})
        sp = npproxy.SubProxy(self.scipy, {"linalg": sl})
        self.proxy = npproxy.Proxy()
        klass = type(m)
        # several variants: each variant has its OWN variance symbols (v_<shock> for variant 0, v_<shock>__v<k> for variant k)
        self.vu_k, self.vw_k = {0: self.vu}, {0: self.vw}
        for k in range(1, len(m._variants)):
            self.vu_k[k] = [S.sym(f"v_{q2n[t.qid]}__v{k}", self.values.get(f"v_{q2n[t.qid]}__v{k}", Fraction(2, 3))) for t in vec.transition_shocks]
            self.vw_k[k] = [S.sym(f"v_{q2n[t.qid]}__v{k}", self.values.get(f"v_{q2n[t.qid]}__v{k}", Fraction(1, 4))) for t in vec.measurement_shocks]

        def vindex(self_, variant):
            for k, v in enumerate(self_._variants):
                if v is variant:
                    return k
            raise KeyError("variant is not one of the model's variants")
        extra = [(self.cv, "_sp", sp),
                 (klass, "getv_cov_u", lambda self_, variant: _diag([sc_ * v for v in outer.vu_k[vindex(self_, variant)]])),
                 (klass, "getv_cov_w", lambda self_, variant: _diag([sc_ * v for v in outer.vw_k[vindex(self_, variant)]]))]
        self._ctx = npproxy.installed(self.proxy, self.cv, self.sc, extra=extra)
        self._ctx.__enter__()
        return self

    def __exit__(self, *exc):
        self._ctx.__exit__(*exc)
        return False


def _t(x):
    return None if (x is None or (isinstance(x, float) and math.isnan(x))) else S.const(x).t


def _mat_claims(label, A, B, claims, problems):
    """entrywise A == B (object/float arrays with NaN)"""
    A, B = np.asarray(A, dtype=object), np.asarray(B, dtype=object)
    for idx in np.ndindex(*A.shape):
        a, b = _t(A[idx]), _t(B[idx])
        if a is None or b is None:
            if (a is None) != (b is None):
                problems.append(f"{label}{list(idx)}: NaN on one side only")
            continue
        claims.append((f"{label}{list(idx)}", a - b))


def check_model(run, ir, zm, order):
    key = f"acov:{zm.name}:order<={order}"
    case = dict(kind="acov", model=zm.name, order=order)
    finding = f"acov:{zm.name}"
    m = fo.build_model(ir, zm, **STDS[zm.name])
    sol = m.get_solution()
    T, P, Z, H = (np.array(getattr(sol, n), dtype=float) for n in "TPZH")
    n, ny = T.shape[0], Z.shape[0]
    vec = m._get_dynamic_solution_vectors()
    q2n = m.create_qid_to_name()
    xi_names = [(q2n[t.qid], t.shift) for t in vec.transition_variables]
    y_names = [q2n[t.qid] for t in vec.measurement_variables]
    with CovLift(ir, m) as L, S.Path() as path:
        full = m.getv_autocov(m._variants[0], ..., up_to_order=order)          # all elements of [xi; y]
        api = m.get_acov(up_to_order=order)                                     # current-dated elements only
        dimnames = m.get_acov_dimension_names()
    with CovLift(ir, m, scale=4) as L4, S.Path() as path4:
        full4 = m.getv_autocov(m._variants[0], ..., up_to_order=order)
    V, W = _diag(L.vu), _diag(L.vw)
    nan_names = NAN_NAMES.get(zm.name, set())
    claims, problems = [], []
    C0 = np.asarray(full[0], dtype=object)
    X, Y, XY = C0[:n, :n], C0[n:, n:], C0[:n, n:]
    # NaN pattern: exactly the rows/columns of variables loaded on unit roots
    allnames = [nm for nm, _ in xi_names] + y_names
    for i, ni in enumerate(allnames):
        for j, nj in enumerate(allnames):
            isn = _t(C0[i, j]) is None
            want = (ni in nan_names) or (nj in nan_names)
            if isn != want:
                problems.append(f"C0[{ni},{nj}] is {'NaN' if isn else 'finite'}, expected {'NaN' if want else 'finite'}")
    if problems:
        run.counterexample(key, finding + ":nan_pattern", "; ".join(problems[:3]), dict(case, what="nan"))
        return
    if not nan_names:
        Tm, Pm, Zm, Hm = T.astype(object), P.astype(object), Z.astype(object), H.astype(object)
        _mat_claims("lyapunov C0_xx", X, Tm @ X @ Tm.T + Pm @ V @ Pm.T, claims, problems)
        if ny:
            _mat_claims("measurement C0_yy", Y, Zm @ X @ Zm.T + Hm @ W @ Hm.T, claims, problems)
            _mat_claims("cross C0_xy", XY, X @ Zm.T, claims, problems)
        prev = C0
        for j in range(1, order + 1):
            Cj = np.asarray(full[j], dtype=object)
            Xp = prev[:n, :n]
            XYp = prev[:n, n:]
            _mat_claims(f"C{j}_xx", Cj[:n, :n], Tm @ Xp, claims, problems)              # cov(xi_t, xi_{t-j})
            if ny:
                _mat_claims(f"C{j}_yx", Cj[n:, :n], Zm @ Tm @ Xp, claims, problems)     # cov(y_t, xi_{t-j})
                _mat_claims(f"C{j}_xy", Cj[:n, n:], Tm @ XYp, claims, problems)         # cov(xi_t, y_{t-j})
                _mat_claims(f"C{j}_yy", Cj[n:, n:], Zm @ Tm @ XYp, claims, problems)
            prev = Cj
    else:
        # unit-root model: the finite block must satisfy the Lyapunov relation of the stable sub-dynamics (oracle: variance of g)
        pass
    # API selection: get_acov returns exactly the current-dated rows/columns, named accordingly
    sel = [i for i, (nm, sh) in enumerate(xi_names) if sh == 0] + [n + i for i in range(ny)]
    for j in range(order + 1):
        Aj = np.asarray(api[j], dtype=object)
        Fj = np.asarray(full[j], dtype=object)[np.ix_(sel, sel)]
        if Aj.shape != Fj.shape:
            problems.append(f"get_acov order {j} has shape {Aj.shape}, expected {Fj.shape}")
            continue
        _mat_claims(f"api C{j}", Aj, Fj, claims, problems)
    want_names = tuple([nm for nm, sh in xi_names if sh == 0] + y_names)
    if tuple(dimnames.rows) != want_names:
        problems.append(f"dimension names {dimnames.rows} != {want_names}")
    # homogeneity: variances scaled by 4 (stds by 2) scale every autocovariance by 4
    for j in range(order + 1):
        _mat_claims(f"homogeneity C{j}", np.asarray(full4[j], dtype=object), 4 * np.asarray(full[j], dtype=object), claims, problems)
    if problems:
        run.counterexample(key, finding, "; ".join(problems[:3]), dict(case, what="structure"))
        return
    syms = {str(v.t): v for v in L.vu + L.vw}
    box = [z3.And(v.t >= 0, v.t <= 1) for v in syms.values()]
    assume = box + L.contract + L4.contract + [path.condition(), path4.condition()]
    # reachability witness in the INTERIOR (every variance clearly positive): a witness with all variances zero would hide a contract
    # that is only satisfiable there
    r0, _ = run.check_sat(assume + [v.t >= Fraction(1, 4) for v in syms.values()], timeout_ms=30000)
    if r0 != "sat" or not claims:
        run.unknown(key, f"reachability witness {r0} / {len(claims)} claims")
        return
    run.reach_ok += 1
    viol = z3.Or(*[z3.Or(t > TOL, t < -TOL) for _, t in claims])
    res, mdl = run.check_sat(assume + [viol], timeout_ms=180000)
    if res == "unsat":
        if len(run.samples) < 12:
            run.samples.append({"obligation": key, "verdict": "unsat: Lyapunov / measurement / cross / order-j / selection / homogeneity relations hold (1e-8) for all variances in [0,1]",
                                "claims": len(claims), "contract_equations": len(L.contract), "example": f"{claims[0][0]}: {str(z3.simplify(claims[0][1]))[:140]}"})
        run.ok(key)
    elif res == "sat":
        bad = []
        for labl, t in claims:
            dv = mdl.eval(t, model_completion=True)
            fv = Fraction(dv.numerator_as_long(), dv.denominator_as_long())
            if abs(fv) > TOL:
                bad.append((labl, float(fv)))
        vals = model_values(mdl, sorted(syms))
        run.counterexample(key, finding, f"autocovariances violate {bad[:3]}", dict(case, what="relations", bad=bad[:5], values={k: [v.numerator, v.denominator] for k, v in vals.items()}))
    else:
        run.unknown(key, f"solver {res}")
    # ---- acorr: every path of the scaling code over the variances (DART), each decided for all values on the path
    key2 = f"acorr:{zm.name}:order<={order}"
    names = sorted(syms)

    def runner(values):
        with CovLift(ir, m, values=values) as L2:
            acov2 = m.get_acov(up_to_order=order)
            acorr = m.get_acorr(acov=acov2, up_to_order=order)
        return acov2, acorr, L2
    try:
        with S.Path():
            contract0 = runner({})[2].contract
        dom0 = box + contract0
        results, exhausted = explore(names, runner, domain=dom0, init={k: v.v for k, v in syms.items()}, max_paths=40, stats=run.q, timeout_ms=30000)
    except S.SymbolicBranchError as exc:
        run.unknown(key2, exc)
        return
    run.paths += len(results)
    if not exhausted:
        run.unknown(key2, f"path enumeration over the variances not exhausted after {len(results)} paths")
        return
    npos_paths = 0
    for pth, (acov2, acorr, L2), values in results:
        pc = pth.condition()
        A0 = np.asarray(acov2[0], dtype=object)
        positive = [S.shadow_float(np.array([A0[a, a]], dtype=object))[0] > 0 if _t(A0[a, a]) is not None else False for a in range(A0.shape[0])]
        # (i) both variances positive on this path: acorr_ab * std_a * std_b == acov_ab, decided on an ABSTRACTION: the acov entry and the
        #     two standard deviations SQRT(acov_aa), SQRT(acov_bb) are replaced by fresh symbols (c arbitrary, q > 0).  The abstraction has
        #     more models than the original, so `unsat` is conclusive; a model of it is decided by replay.
        # (ii) a variance not positive on this path: the path condition (with the Lyapunov contract) must imply that the covariance
        #     entry itself is zero -- the variable is degenerate, and the reported correlation is 0 -- exact linear arithmetic.
        eqs, dom, zero_claims = [], [], []
        fresh = {}

        def ab(term, prefix, positive_=False):
            k = term.get_id()
            if k not in fresh:
                fresh[k] = z3.Real(f"{prefix}{len(fresh)}")
                if positive_:
                    dom.append(fresh[k] > 0)
            return (term, fresh[k])
        for j in range(order + 1):
            Rj, Aj = np.asarray(acorr[j], dtype=object), np.asarray(acov2[j], dtype=object)
            for a in range(Rj.shape[0]):
                for b in range(Rj.shape[1]):
                    r_, c_ = _t(Rj[a, b]), _t(Aj[a, b])
                    if r_ is None or c_ is None:
                        if (r_ is None) != (c_ is None):
                            run.counterexample(key2, finding + ":acorr", f"acorr[{a},{b}] NaN pattern differs from acov", dict(case, what="acorr"))
                            return
                        continue
                    if positive[a] and positive[b]:
                        saa, sbb = S.const(A0[a, a]).sqrt().t, S.const(A0[b, b]).sqrt().t
                        subs = [ab(saa, "q", True), ab(sbb, "q", True)]
                        if not (z3.is_rational_value(c_)):
                            subs.append(ab(c_, "c"))
                        eqs.append(z3.substitute(r_ * saa * sbb == c_, *subs))
                    else:
                        zero_claims.append(z3.And(c_ == 0, r_ == 0))
        if eqs:
            npos_paths += 1
            res, mdl = run.prove(key2, z3.And(*eqs), dom, timeout_ms=60000, nl=True)
            left = [e for e in eqs if "SQRT" in str(e)]
            if res == "sat" or (res == "unsat" and left):
                # a model of the abstraction is not a counterexample of the real code: replay (at this path's variances) decides
                run.counterexample(key2, finding + ":acorr", "acorr is not acov scaled by the order-0 standard deviations (abstract model; decided by replay)",
                                   dict(case, what="acorr", values={k: [Fraction(v).numerator, Fraction(v).denominator] for k, v in values.items()}))
                return
            if res != "unsat":
                run.unknown(key2, f"solver {res}")
                return
        if zero_claims:
            res, mdl = run.prove(key2 + ":degenerate", z3.And(*zero_claims), dom0 + [pc], timeout_ms=60000)
            if res == "sat":
                vals = model_values(mdl, names)
                run.counterexample(key2, finding + ":acorr", "a variable is treated as having zero variance (correlations reported as 0) although its covariances are not zero",
                                   dict(case, what="acorr", values={k: [v.numerator, v.denominator] for k, v in vals.items()}))
                return
            if res != "unsat":
                run.unknown(key2, f"solver {res} on the degenerate-variance claims")
                return
    if npos_paths == 0:
        run.unknown(key2, "no path with positive variances")
        return
    run.reach_ok += 1
    if len(run.samples) < 12:
        run.samples.append({"obligation": key2, "verdict": "unsat on every path of the scaling code over the variances (abstraction for positive variances, exact for degenerate ones)",
                            "paths": len(results)})
    run.ok(key2)


def _variant_params(zm, k):
    """parameter values of variant k: the first parameter is scaled by 0.8 in variant 1"""
    p = zm.float_params()
    if k and p:
        first = sorted(p)[0]
        p[first] = p[first] * 0.8
    return p


def _two_variant_model(ir, zm, stds_by_variant=None):
    M = fo.build_model(ir, zm, solve=False, **STDS.get(zm.name, {}))
    M.alter_num_variants(2)
    p0, p1 = _variant_params(zm, 0), _variant_params(zm, 1)
    if p0:
        M.assign(**{k_: [p0[k_], p1[k_]] for k_ in p0})
    if stds_by_variant:
        M.assign(**{k_: [stds_by_variant[0][k_], stds_by_variant[1][k_]] for k_ in stds_by_variant[0]})
    M.steady()
    M.solve()
    return M


def check_variants(run, ir, zm, order):
    """a two-variant model (different parameters, independent variance symbols per variant): each variant's autocovariances satisfy the
    Lyapunov / measurement / order-j relations of ITS OWN solution and ITS OWN shock variances"""
    key = f"acov:variants:{zm.name}:order<={order}"
    case = dict(kind="variants", model=zm.name, order=order)
    finding = f"acov:variants:{zm.name}"
    M = _two_variant_model(ir, zm)
    with CovLift(ir, M) as L, S.Path() as path:
        fulls = [M.getv_autocov(v, ..., up_to_order=order) for v in M._variants]
        api = M.get_acov(up_to_order=order)
    claims, problems = [], []
    if len(api) != 2:
        run.counterexample(key, finding, f"get_acov on a two-variant model returns {len(api)} items", dict(case, values={}))
        return
    for k in range(2):
        F = fo.build_model(ir, zm, **dict(STDS.get(zm.name, {}), **_variant_params(zm, k)))
        sol = F.get_solution()
        T, P, Z, H = (np.array(getattr(sol, n_), dtype=float).astype(object) for n_ in "TPZH")
        n, ny = T.shape[0], Z.shape[0]
        vec = F._get_dynamic_solution_vectors()
        q2n = F.create_qid_to_name()
        xi_names = [(q2n[t.qid], t.shift) for t in vec.transition_variables]
        V, W = _diag(L.vu_k[k]), _diag(L.vw_k[k])
        full = fulls[k]
        C0 = np.asarray(full[0], dtype=object)
        X, XY = C0[:n, :n], C0[:n, n:]
        _mat_claims(f"v{k} lyapunov C0_xx", X, T @ X @ T.T + P @ V @ P.T, claims, problems)
        if ny:
            _mat_claims(f"v{k} measurement C0_yy", C0[n:, n:], Z @ X @ Z.T + H @ W @ H.T, claims, problems)
            _mat_claims(f"v{k} cross C0_xy", XY, X @ Z.T, claims, problems)
        prev = C0
        for j in range(1, order + 1):
            Cj = np.asarray(full[j], dtype=object)
            _mat_claims(f"v{k} C{j}_xx", Cj[:n, :n], T @ prev[:n, :n], claims, problems)
            if ny:
                _mat_claims(f"v{k} C{j}_yy", Cj[n:, n:], Z @ T @ prev[:n, n:], claims, problems)
            prev = Cj
        sel = [i for i, (nm, sh) in enumerate(xi_names) if sh == 0] + [n + i for i in range(ny)]
        for j in range(order + 1):
            Aj = np.asarray(api[k][j], dtype=object)
            Fj = np.asarray(full[j], dtype=object)[np.ix_(sel, sel)]
            if Aj.shape != Fj.shape:
                problems.append(f"variant {k}: get_acov order {j} has shape {Aj.shape}, expected {Fj.shape}")
                continue
            _mat_claims(f"v{k} api C{j}", Aj, Fj, claims, problems)
    if problems:
        run.counterexample(key, finding, "; ".join(problems[:3]), dict(case, values={}))
        return
    allv = [v for k in range(2) for v in L.vu_k[k] + L.vw_k[k]]
    syms = {str(v.t): v for v in allv}
    box = [z3.And(v.t >= 0, v.t <= 1) for v in syms.values()]
    assume = box + L.contract + [path.condition()]
    r0, _ = run.check_sat(assume + [v.t >= Fraction(1, 4) for v in syms.values()], timeout_ms=30000)
    if r0 != "sat" or not claims:
        run.unknown(key, f"reachability witness {r0} / {len(claims)} claims")
        return
    run.reach_ok += 1
    viol = z3.Or(*[z3.Or(t > TOL, t < -TOL) for _, t in claims])
    res, mdl = run.check_sat(assume + [viol], timeout_ms=180000)
    if res == "unsat":
        if len(run.samples) < 12:
            run.samples.append({"obligation": key, "verdict": "unsat: in a two-variant model each variant's autocovariances satisfy the relations of its own solution and its own variances",
                                "claims": len(claims), "contract_equations": len(L.contract)})
        run.ok(key)
    elif res == "sat":
        # a witness with clearly different variances in the two variants
        vals = model_values(mdl, sorted(syms))
        bad = []
        for labl, t in claims:
            dv = mdl.eval(t, model_completion=True)
            fv = Fraction(dv.numerator_as_long(), dv.denominator_as_long())
            if abs(fv) > TOL:
                bad.append((labl, float(fv)))
        run.counterexample(key, finding, f"a variant's autocovariances violate {bad[:3]}", dict(case, bad=bad[:5], values={k_: [v.numerator, v.denominator] for k_, v in vals.items()}))
    else:
        run.unknown(key, f"solver {res}")


def _replay_variants(ir, case):
    zm = _zm(case["model"])
    order = case["order"]
    vals = {k: float(Fraction(a, b)) for k, (a, b) in case.get("values", {}).items()}
    m0 = fo.build_model(ir, zm, **STDS.get(zm.name, {}))
    vec = m0._get_dynamic_solution_vectors()
    q2n = m0.create_qid_to_name()
    shocks = [q2n[t.qid] for t in list(vec.transition_shocks) + list(vec.measurement_shocks)]
    stds = []
    for k in range(2):
        suffix = f"__v{k}" if k else ""
        stds.append({"std_" + nm: math.sqrt(max(vals.get("v_" + nm + suffix, 0.5 + 0.25 * k), 0.0)) for nm in shocks})
    M = _two_variant_model(ir, zm, stds_by_variant=stds)
    try:
        api = M.get_acov(up_to_order=order)
    except Exception as exc:
        return True, f"get_acov raises {type(exc).__name__}: {exc}"
    worst, msg = 0.0, "each variant equals the single-variant model with its values"
    for k in range(2):
        F = fo.build_model(ir, zm, **dict(_variant_params(zm, k), **stds[k]))
        ref = F.get_acov(up_to_order=order)
        for j in range(order + 1):
            a, b = np.asarray(api[k][j], dtype=float), np.asarray(ref[j], dtype=float)
            if a.shape != b.shape:
                return True, f"variant {k} order {j}: shape {a.shape} vs {b.shape}"
            both = ~(np.isnan(a) & np.isnan(b))
            d = float(np.nanmax(np.abs(np.where(both, a - b, 0.0)))) if a.size else 0.0
            if d > worst or d != d:
                worst, msg = (d if d == d else float("inf")), f"variant {k}, order {j}: differs from the single-variant model by {d!r}"
    return worst > 1e-7, msg


def main(run):
    ir = load_irispie()
    run.extra["proxy_selftest_checks"] = npproxy.selftest()
    run.functions_encoded += ["fords.covariances.{get_autocov_square,get_autocov_square_00,get_autocov_triangular_00,get_cov_triangular_00,get_cov_alpha_00,acorr_from_acov,"
                              "_get_scale_matrix,get_acorr_by_variant}", "simultaneous._covariances.Inlay.{get_acov,getv_autocov,get_acorr,get_acov_dimension_names,_get_system_vector}",
                              "fords.solutions.Solution.{Ta_stable,Pa_stable,Za_stable,boolex_stable_*}"]
    run.bounds["structures"] = "zoo models nk3, ar2m, pc_const, lead2 (stationary) and ur_drift (unit root); orders k<=1 (quick) / k<=2 (thorough); one variant, and two-variant models (ar2m, nk3; pc_const thorough) with different parameters and independent variance symbols per variant"
    run.bounds["values"] = "every shock variance an independent real in [0,1]; tolerance 1e-8 (solution matrices are float-born)"
    run.stubs += ["scipy.linalg.solve_discrete_lyapunov -> fresh symmetric X with the contract X = Ta X Ta' + Sigma", "getv_cov_u/getv_cov_w -> diag of symbolic variances "
                  "(numpy.diag(stds**2) itself is not covered)"]
    run.assumptions += ["the oracle uses the square solution T,P,Z,H returned by get_solution() (C01 decides the solution)", "unit-root-loaded names for the NaN pattern are listed "
                        "per zoo model from the model's own structure (ur_drift: l and its observation ol)"]
    run.outside += ["models outside the zoo", "more than two variants", "the value of the finite block of unit-root models beyond NaN pattern, selection and homogeneity"]
    order = 1 if run.tier == "quick" else 2
    for name in ("nk3", "ar2m", "pc_const", "ur_drift", "ar_rw") + (("lead2",) if run.tier == "thorough" else ()):
        zm = _zm(name)
        if name not in STDS:
            STDS[name] = {}
        try:
            check_model(run, ir, zm, order)
        except S.SymbolicBranchError as exc:
            run.unknown(f"acov:{name}", exc)
        except Exception as exc:
            run.error(f"acov:{name}", exc)
    for name in ("ar2m", "nk3") + (("pc_const",) if run.tier == "thorough" else ()):
        zm = _zm(name)
        try:
            check_variants(run, ir, zm, order)
        except S.SymbolicBranchError as exc:
            run.unknown(f"acov:variants:{name}", exc)
        except Exception as exc:
            run.error(f"acov:variants:{name}", exc)
    run.extra["exhaustive"] = True


def replay(case):
    ir = load_irispie()
    if case.get("kind") == "variants":
        return _replay_variants(ir, case)
    zm = _zm(case["model"])
    order = case["order"]
    vals = {k: float(Fraction(a, b)) for k, (a, b) in case.get("values", {}).items()}
    stds = {}
    m0 = fo.build_model(ir, zm, **STDS.get(zm.name, {}))
    vec = m0._get_dynamic_solution_vectors()
    q2n = m0.create_qid_to_name()
    for t in list(vec.transition_shocks) + list(vec.measurement_shocks):
        nm = q2n[t.qid]
        stds["std_" + nm] = math.sqrt(max(vals.get("v_" + nm, 0.5), 0.0))
    m = fo.build_model(ir, zm, **stds)
    sol = m.get_solution()
    T, P, Z, H = (np.array(getattr(sol, n), dtype=float) for n in "TPZH")
    n, ny = T.shape[0], Z.shape[0]
    V = np.diag([stds["std_" + q2n[t.qid]] ** 2 for t in vec.transition_shocks])
    W = np.diag([stds["std_" + q2n[t.qid]] ** 2 for t in vec.measurement_shocks])
    full = m.getv_autocov(m._variants[0], ..., up_to_order=order)
    C0 = np.asarray(full[0], dtype=float)
    xi_names = [(q2n[t.qid], t.shift) for t in vec.transition_variables]
    y_names = [q2n[t.qid] for t in vec.measurement_variables]
    allnames = [nm for nm, _ in xi_names] + y_names
    nan_names = NAN_NAMES.get(zm.name, set())
    for i, ni in enumerate(allnames):
        for j, nj in enumerate(allnames):
            if bool(np.isnan(C0[i, j])) != ((ni in nan_names) or (nj in nan_names)):
                return True, f"NaN pattern wrong at [{ni},{nj}]"
    worst, msg = 0.0, "relations hold"

    def cmp(label, A, B):
        nonlocal worst, msg
        d = np.nanmax(np.abs(np.asarray(A, dtype=float) - np.asarray(B, dtype=float))) if np.asarray(A).size else 0.0
        if d > worst:
            worst, msg = float(d), f"{label}: max difference {d!r}"
    if not nan_names:
        X = C0[:n, :n]
        cmp("lyapunov", X, T @ X @ T.T + P @ V @ P.T)
        if ny:
            cmp("measurement", C0[n:, n:], Z @ X @ Z.T + H @ W @ H.T)
            cmp("cross", C0[:n, n:], X @ Z.T)
        prev = C0
        for j in range(1, order + 1):
            Cj = np.asarray(full[j], dtype=float)
            cmp(f"C{j}_xx", Cj[:n, :n], T @ prev[:n, :n])
            if ny:
                cmp(f"C{j}_yx", Cj[n:, :n], Z @ T @ prev[:n, :n])
                cmp(f"C{j}_xy", Cj[:n, n:], T @ prev[:n, n:])
                cmp(f"C{j}_yy", Cj[n:, n:], Z @ T @ prev[:n, n:])
            prev = Cj
    api = m.get_acov(up_to_order=order)
    sel = [i for i, (nm, sh) in enumerate(xi_names) if sh == 0] + [n + i for i in range(ny)]
    for j in range(order + 1):
        if np.asarray(api[j]).shape != (len(sel), len(sel)):
            return True, f"get_acov order {j} has shape {np.asarray(api[j]).shape}"
        cmp(f"api C{j}", api[j], np.asarray(full[j], dtype=float)[np.ix_(sel, sel)])
    m.rescale_stds(2.0)
    full4 = m.getv_autocov(m._variants[0], ..., up_to_order=order)
    for j in range(order + 1):
        cmp(f"homogeneity C{j}", full4[j], 4 * np.asarray(full[j], dtype=float))
    m.rescale_stds(0.5)
    acorr = m.get_acorr(up_to_order=order)
    A0 = np.asarray(api[0], dtype=float)
    sd = np.sqrt(np.diag(A0))
    for j in range(order + 1):
        cmp(f"acorr {j}", np.asarray(acorr[j], dtype=float) * np.outer(sd, sd), np.asarray(api[j], dtype=float))
    if worst > 1e-6:
        return True, msg
    # scale-free: wherever both variances are positive the correlation is acov / (std_a std_b)
    pos = sd > 0
    for j in range(order + 1):
        R, A = np.asarray(acorr[j], dtype=float), np.asarray(api[j], dtype=float)
        for a in range(len(sd)):
            for b in range(len(sd)):
                if pos[a] and pos[b] and np.isfinite(A[a, b]):
                    want = A[a, b] / (sd[a] * sd[b])
                    if abs(R[a, b] - want) > 1e-6:
                        return True, f"acorr order {j} [{a},{b}] = {R[a, b]!r} but acov/(std std) = {want!r} (variances {A0[a, a]!r}, {A0[b, b]!r})"
    return False, msg


if __name__ == "__main__":
    standard_main(PID, main, replay)
