"""
C06 -- Nonlinear simulations satisfy the equations; match first order when linear.

The property is conditional on the Newton solver's success; only the float iteration inside neqs.damped_newton is not encodable.
stacked_time.simulators._nq.damped_newton is replaced by a CONTRACT STUB: fresh symbols for the guess, the real
evaluator.eval_func(guess, data) (incl. fords.terminators.Terminator.terminate_simulation for terminal="first_order") is run on
them, the assumption ||f||inf < func_tolerance is recorded and SUCCESS returned; the real evaluator.update writes the guess back.
The frame data are lifted at stacked_time.simulators.simulate_frame (every non-missing cell: initial conditions, shocks,
anticipated twins, parameters); frames are CHAINED symbolically (a cell computed by an earlier frame enters later frames as that
term), which also covers method="period_by_period" (one frame per period, terminal="data").
Decided: (i) every transition equation AS WRITTEN IN THE SOURCE holds (|residual| < 2 tol) on the returned array in every simulated
period; (ii) cells neither solved for nor exogenized are the identical input objects; (iii) on linear models, with the idealised
contract f(g)=0, the returned path equals the lifted first-order path (C01 machinery) for the same symbols.
"""
from __future__ import annotations

import contextlib
import io
import math
import types
from fractions import Fraction

import numpy as np
import z3

from symx import sreal as S
from symx import npproxy, zoo, fo
from symx.lift import exp_log_axioms, div_domain
from symx.refeval import Equation
from symx.series_tools import load_irispie
from symx.concolic import model_values
from symx.report import standard_main
from checks import C05
from checks.C01 import lab

PID = "C06"


class NModel:
    """nonlinear / linear model for stacked-time checks"""

    def __init__(self, name, tvars, eqs, params, init, shocks, logvars=(), linear=False, backward=False, xvars=(), loglinear=False):
        self.name, self.tvars, self.eqs, self.params, self.init, self.shocks = name, tuple(tvars), tuple(eqs), dict(params), dict(init), tuple(shocks)
        self.logvars, self.linear, self.backward = tuple(logvars), linear, backward
        self.xvars = tuple(xvars)        # exogenous variables: their whole path is an input
        self.loglinear = loglinear       # exactly log-linear: compared with the first-order simulation in logs

    def source(self):
        s = "!transition-variables\n    " + ", ".join(self.tvars) + "\n!transition-shocks\n    " + ", ".join(self.shocks) + "\n"
        if self.xvars:
            s += "!exogenous-variables\n    " + ", ".join(self.xvars) + "\n"
        if self.params:
            s += "!parameters\n    " + ", ".join(self.params) + "\n"
        if self.logvars:
            s += "!log-variables\n    " + ", ".join(self.logvars) + "\n"
        return s + "!transition-equations\n" + "".join(f"    {e};\n" for e in self.eqs)


def models():
    M = []
    M.append(NModel("rbc", ("y", "c", "k", "r"),
                    ("y = k[-1]^alpha * exp(e)", "c + k = y + (1-delta)*k[-1]", "1/c = beta*(1/c[+1])*(1 + r[+1] - delta)", "r = alpha*y/k[-1]"),
                    dict(alpha=0.3, beta=0.95, delta=0.1), dict(y=1.0, c=0.8, k=2.0, r=0.15), ("e",), logvars=("y", "c", "k")))
    M.append(NModel("nl_backward", ("x", "z"),
                    ("x = 0.5*x[-1] + 0.1*z[-1]^2 + 1 + e", "z = 0.3*z[-1] + x/(1 + x^2) + u"),
                    dict(), dict(x=2.0, z=0.5), ("e", "u"), backward=True))
    M.append(NModel("lin_forward", ("p", "y"),
                    ("p = b*p[+1] + k*(y - 1) + 0.2 + ep", "y = 1 + rho*(y[-1] - 1) + ey"),
                    dict(b=0.9, k=0.25, rho=0.8), dict(p=2.0, y=1.0), ("ep", "ey"), linear=True))
    # lead 2 and a non-zero steady state: the first-order terminal condition covers two columns and has a constant part
    M.append(NModel("lin_lead2", ("q", "s"),
                    ("q = 0.25*q[+2] + 0.25*q[-1] + 0.5*s + 0.3 + eq", "s = 0.5*s[-2] + 0.25*s[-1] + 0.1 + es"),
                    dict(), dict(q=1.0, s=0.4), ("eq", "es"), linear=True))
    # an exactly LOG-LINEAR model (log-variables, a lead, a lag of two): its first-order solution is exact in logs, so the stacked-time path
    # must coincide with the first-order simulation in logs; the first-order terminal condition reads the lag-2 element of a log-variable
    M.append(NModel("loglin_lag2", ("q", "s"),
                    ("q = q[+1]^0.25 * q[-1]^0.25 * q[-2]^0.125 * s^0.375 * exp(eq)", "s = s[-1]^0.5 * exp(0.5*lc + es)"),
                    dict(lc=0.1823215567939546), dict(q=1.2, s=1.2), ("eq", "es"), logvars=("q", "s"), loglinear=True))
    # a linear model with an EXOGENOUS variable whose path is an input like the shocks
    M.append(NModel("lin_exog", ("x", "y"),
                    ("x = rho*x[-1] + gam*w + e", "y = 0.5*y[+1] + 0.3*x + u"),
                    dict(rho=0.7, gam=0.5), dict(x=0.0, y=0.0, w=0.0), ("e", "u"), linear=True, xvars=("w",)))
    M.append(NModel("lin_backward", ("y", "z"),
                    ("y = a*y[-1] + b*y[-2] + ey", "z = c*z[-1] + d*y + ez"),
                    dict(a=0.5, b=0.2, c=0.3, d=0.4), dict(y=0.0, z=0.0), ("ey", "ez"), linear=True, backward=True))
    return M


def by_name(n):
    return [m for m in models() if m.name == n][0]


def build(ir, nm):
    with contextlib.redirect_stdout(io.StringIO()):
        m = ir.Simultaneous.from_string(nm.source(), linear=nm.linear, flat=True)
        if nm.params:
            m.assign(**nm.params)
        m.assign(**nm.init)
        m.solve_steady()
        m.solve()
    return m


def make_db(ir, nm, m, start, nsim, values=None, unant_periods=(0,), ant_periods=(1,), terminal_data=False):
    """steady-state initial conditions perturbed, shocks: unanticipated in `unant_periods`, anticipated in `ant_periods`"""
    lv = {k: float(v) for k, v in m.get_steady_levels().items() if isinstance(v, (int, float, np.floating))}

    def val(n, k, default):
        if values is not None and f"{n}__{lab(k)}" in values:
            return float(values[f"{n}__{lab(k)}"])
        return default
    db = ir.Databox()
    for i, n in enumerate(nm.tvars):
        db[n] = ir.Series(start=start - 2, values=tuple(val(n, k, (lv[n] if lv[n] else 1.0) * (1.02 + 0.01 * i + 0.003 * k) - (0.0 if lv[n] else 0.8)) for k in (-2, -1)))
        if terminal_data:
            # terminal="data": the user supplies the leads beyond the simulation span
            x = db[n]
            for k in (nsim, nsim + 1):
                x[start + k] = val(n, k, lv[n] * (1.01 + 0.005 * i))
            db[n] = x
    for i, n in enumerate(nm.xvars):
        # the whole path of an exogenous variable (initial, simulated and terminal periods) is data
        db[n] = ir.Series(start=start - 2, values=tuple(val(n, k, 0.25 + 0.125 * ((i + k) % 3)) for k in range(-2, nsim + 2)))
    for i, s in enumerate(nm.shocks):
        db[s] = ir.Series(start=start, values=tuple(val(s, k, 0.03 if k in unant_periods else 0.0) if k in unant_periods else 0.0 for k in range(nsim)))
        db["ant_" + s] = ir.Series(start=start, values=tuple(val("ant_" + s, k, 0.02) if (k in ant_periods and i == 0) else 0.0 for k in range(nsim)))
    return db


class DenseObjectMatrix(np.ndarray):
    """dense object-dtype stand-in for the scipy sparse Jacobian (scipy rejects object data): slicing keeps the class, `tocoo()` reports the
    rows that hold an entry (used by Terminator.terminate_jacobian to complete its map), `copy()` and `@` are numpy's"""

    @classmethod
    def zeros(cls, shape):
        a = np.zeros(shape, dtype=object).view(cls)
        return a

    def tocoo(self):
        rows, cols = [], []
        for (i, j), x in np.ndenumerate(np.asarray(self)):
            if isinstance(x, S.SReal) or (not isinstance(x, S.SReal) and x != 0):
                rows.append(i); cols.append(j)
        return types.SimpleNamespace(row=np.array(rows, dtype=int), col=np.array(cols, dtype=int))


class StackedLift:
    def __init__(self, ir, start, lift_rows, param_rows, exact=False, values=None, symbolic_cells=None, shock_rows=()):
        from irispie.stacked_time import simulators as sts, _evaluators as ste, _equators as steq
        from irispie.fords import terminators as ft, simulators as fs
        from irispie.equators import plain as pl
        self.mods = (sts, ste, ft, pl, fs)
        self.sts = sts
        self.start = start
        self.lift_rows, self.param_rows = set(lift_rows), set(param_rows)
        self.exact = exact
        self.values = values
        self.shock_rows = set(shock_rows)
        self.symbolic_cells = symbolic_cells       # optional predicate (name, k) -> lift?
        self.known = {}            # (name, k) -> term computed by an earlier frame
        self.syms = {}
        self.assume = []
        self.frames = []
        self.final = {}            # (name, k) -> cell after the last frame that touched it
        self.inputs = {}
        self.capture_jacobian = False
        self.jacobians = []

    def __enter__(self):
        sts = self.sts
        outer = self
        real_frame = sts.simulate_frame
        realnq = sts._nq

        def stub_newton(eval_func, eval_jacob, init_guess, iter_printer=None, args=(), **kw):
            data = args[0]
            g = np.empty(len(init_guess), dtype=object)
            c = len(outer.frames)
            for i in range(len(init_guess)):
                v = init_guess[i]
                sv = v.v if isinstance(v, S.SReal) else float(v)
                g[i] = S.sym(f"g{c}_{i}", None if (isinstance(sv, float) and not math.isfinite(sv)) else sv)
            f = eval_func(g, data)
            if outer.capture_jacobian:
                # the Jacobian the solver would be given, evaluated at the same symbolic point (C02: stacked-time Jacobian conjunct)
                try:
                    J = eval_jacob(g, data)
                    outer.jacobians.append(dict(g=g, f=list(np.asarray(f, dtype=object).flat), J=np.asarray(J, dtype=object)))
                except S.SymbolicBranchError:
                    raise
                except Exception as exc:
                    outer.jacobians.append(dict(error=f"{type(exc).__name__}: {str(exc)[:200]}"))
            tol = S.rv(S.float_fraction(float(kw.get("func_tolerance", 1e-12))))
            for fi in np.asarray(f, dtype=object).flat:
                t = S.const(fi).t
                outer.assume.append(t == 0 if outer.exact else z3.And(t < tol, t > -tol))
            outer.tol = tol
            return g, realnq.ExitStatus.SUCCESS

        def lifted_frame(model_v, frame_ds, **kw):
            var = frame_ds._variants[0]
            data = var.data
            names = tuple(frame_ds.names)
            periods = tuple(frame_ds.periods)
            obj = np.empty(data.shape, dtype=object)
            ida0 = kw.get("input_data_array")
            for i, nm in enumerate(names):
                for j in range(data.shape[1]):
                    x = float(data[i, j])
                    k = periods[j] - outer.start
                    # a shock cell holding exactly 0.0 stays concrete: frames.prune_frame_data zeroes the
                    # unanticipated shocks dated after the frame's first period, and the lift must not undo that
                    if math.isnan(x) or nm not in outer.lift_rows or (outer.symbolic_cells is not None and not outer.symbolic_cells(nm, k)) \
                            or (x == 0.0 and nm in outer.shock_rows):
                        obj[i, j] = x
                        continue
                    if (nm, k) in outer.known:
                        obj[i, j] = outer.known[(nm, k)]
                        continue
                    sname = nm if nm in outer.param_rows else f"{nm}__{lab(k)}"
                    # a frame cell whose number differs from the user's input (the initial-guess simulation overwrote it) is NOT the
                    # input cell: it gets its own symbol, so that reading the frame instead of the input data is visible
                    if ida0 is not None and nm not in outer.param_rows:
                        xin = float(ida0[i, j])
                        if not math.isnan(xin) and xin != x:
                            sname = f"guess_{nm}__{lab(k)}"
                    if sname not in outer.syms:
                        sv = x if outer.values is None else outer.values.get(sname, x)
                        outer.syms[sname] = S.sym(sname, sv)
                    obj[i, j] = outer.syms[sname]
                    if not sname.startswith("guess_"):
                        outer.inputs.setdefault((nm, k), obj[i, j])
            var.data = obj
            iobj = None
            if ida0 is not None:
                iobj = np.array(ida0, dtype=object)
                for i, nm in enumerate(names):
                    for j in range(iobj.shape[1]):
                        k = periods[j] - outer.start
                        xin = float(ida0[i, j])
                        if math.isnan(xin) or nm not in outer.lift_rows or nm in outer.param_rows or (xin == 0.0 and nm in outer.shock_rows) \
                                or (outer.symbolic_cells is not None and not outer.symbolic_cells(nm, k)):
                            continue
                        if (nm, k) not in outer.inputs:
                            sname = f"{nm}__{lab(k)}"
                            if sname not in outer.syms:
                                outer.syms[sname] = S.sym(sname, xin if outer.values is None else outer.values.get(sname, xin))
                            outer.inputs[(nm, k)] = outer.syms[sname]
                        iobj[i, j] = outer.inputs[(nm, k)]
                kw["input_data_array"] = iobj
            inp = obj.copy()
            try:
                r = real_frame(model_v, frame_ds, **kw)
                out = np.array(var.data, dtype=object)
                frame = kw["frame"]
                outer.frames.append(dict(names=names, periods=periods, inp=inp, out=out, frame=frame, ida=iobj,
                                         columns=tuple(range(frame.first, frame.simulation_last + 1))))
                for i, nm in enumerate(names):
                    for j in range(out.shape[1]):
                        k = periods[j] - outer.start
                        if frame.first <= j <= frame.simulation_last and out[i, j] is not inp[i, j]:
                            outer.known[(nm, k)] = out[i, j]
            finally:
                var.data = S.shadow_float(var.data) if S.has_symbol(var.data) else data
            return r
        self.proxy = npproxy.Proxy()
        extra = [(sts, "simulate_frame", lifted_frame), (sts, "_nq", types.SimpleNamespace(damped_newton=stub_newton, ExitStatus=realnq.ExitStatus)),
                 npproxy.adaptations_patch(self.proxy)]
        mods = list(self.mods)
        if self.capture_jacobian:
            from irispie.jacobians import base as jb
            from irispie.aldi import differentiators as ad
            from irispie.stacked_time import _jacobians as stj
            extra.append((jb.SparseJacobian, "_initialize_jacobian_matrix", lambda self_: DenseObjectMatrix.zeros(self_._shape)))
            mods += [ad, jb, stj]
        self._ctx = npproxy.installed(self.proxy, *mods, extra=extra)
        self._ctx.__enter__()
        return self

    def __exit__(self, *exc):
        self._ctx.__exit__(*exc)
        return False


def _run(ir, nm, m, method, terminal, nsim, unant, ant, exact=False, values=None, lift_params=True, plan_spec=None):
    start = ir.qq(2020, 1)
    span = start >> (start + nsim - 1)
    db = make_db(ir, nm, m, start, nsim, values=values, unant_periods=unant, ant_periods=ant, terminal_data=(terminal == "data"))
    lift_rows = set(nm.tvars) | set(nm.xvars) | set(nm.shocks) | {"ant_" + s for s in nm.shocks} | (set(nm.params) if lift_params else set())

    def cells(name, k):
        if name.startswith("ant_"):
            return name == "ant_" + nm.shocks[0] and k in ant
        if name in nm.shocks:
            return k in unant
        return True
    kw = dict(method=method)
    if method == "stacked_time":
        kw["terminal"] = terminal
    if plan_spec is not None:
        kw["plan"] = apply_plan(ir, nm, m, db, span, start, plan_spec, values)
    with StackedLift(ir, start, lift_rows, nm.params, exact=exact, values=values, symbolic_cells=cells, shock_rows=nm.shocks) as L, S.Path() as path, contextlib.redirect_stdout(io.StringIO()):
        m.simulate(db, span, **kw)
    return L, path, db, span


def apply_plan(ir, nm, m, db, span, start, plan_spec, values=None):
    """plan_spec = dict(mode='a'|'u', targets=[(variable, k)], instruments=[(shock, k)]); target values are written into the databox"""
    lv = {k: float(v) for k, v in m.get_steady_levels().items() if isinstance(v, (int, float, np.floating))}
    plan = ir.SimulationPlan(m, span)
    for (v, k) in plan_spec["targets"]:
        (plan.exogenize_anticipated if plan_spec["mode"] == "a" else plan.exogenize_unanticipated)(start + k, v)
        x = db[v].copy()
        tv = (lv[v] if lv[v] else 1.0) * (1.03 + 0.01 * k) - (0.0 if lv[v] else 0.8)
        if values is not None and f"{v}__{lab(k)}" in values:
            tv = float(values[f"{v}__{lab(k)}"])
        x[start + k] = tv
        db[v] = x
    for (e, k) in plan_spec["instruments"]:
        if plan_spec["mode"] == "a":
            plan.endogenize_anticipated(start + k, "ant_" + e)
        else:
            plan.endogenize_unanticipated(start + k, e)
    return plan


def check_equations(run, ir, nm, m, method, terminal, nsim, unant, ant, plan_spec=None):
    key = f"equations:{nm.name}:{method}:terminal={terminal}:nsim={nsim}:unant={unant}:ant={ant}"
    case = dict(kind="equations", model=nm.name, method=method, terminal=terminal, nsim=nsim, unant=list(unant), ant=list(ant))
    finding = f"stacked:{nm.name}:{method}"
    exo_cells, endo_cells = set(), set()
    if plan_spec is not None:
        key = f"plan:{nm.name}:{method}:terminal={terminal}:nsim={nsim}:unant={unant}:{plan_spec['mode']}:{plan_spec['targets']}<-{plan_spec['instruments']}"
        case["plan"] = plan_spec
        finding = f"stacked:plan:{nm.name}:{plan_spec['mode']}"
        exo_cells = {(v, k) for v, k in plan_spec["targets"]}
        endo_cells = {(("ant_" + e) if plan_spec["mode"] == "a" else e, k) for e, k in plan_spec["instruments"]}
    L, path, db, span = _run(ir, nm, m, method, terminal, nsim, unant, ant, plan_spec=plan_spec)
    if not L.frames or not L.assume:
        run.unknown(key, "the solver stub was never called")
        return
    claims, terms = [], []
    untouched_bad = []
    for fr in L.frames:
        names, out, inp = fr["names"], fr["out"], fr["inp"]
        row = {n: i for i, n in enumerate(names)}
        last_col = fr["columns"][-1]
        for j in fr["columns"]:
            def lookup(name, sh, j=j):
                if name in nm.shocks:
                    a, b = out[row[name], j + sh], out[row["ant_" + name], j + sh]
                    return S.const(a) + S.const(b)
                v = out[row[name], j + sh]
                if terminal == "data" and method == "stacked_time" and j + sh > last_col and fr.get("ida") is not None:
                    # terminal="data": the terminal condition in force is the user's INPUT beyond the span (the input data array),
                    # not whatever the frame holds there when the solver starts
                    v = fr["ida"][row[name], j + sh]
                if isinstance(v, float) and math.isnan(v):
                    raise KeyError(f"{name}[{j + sh}] missing")
                return v
            for ei, src in enumerate(nm.eqs):
                r = Equation(src).residual(lookup, numeric=lambda v: v)
                rt = S.const(r).t
                claims.append((f"eq{ei}@{fr['periods'][j]}", rt))
                terms.append(rt)
        # (ii) untouched cells: everything that is not a transition variable in a simulated column (or a terminal column) is the identical object;
        #      with a plan: exogenized variable cells ARE untouched (equal to the input), endogenized shock cells may change
        tv = {row[n] for n in nm.tvars}
        last = fr["columns"][-1]
        k_of = lambda j: fr["periods"][j] - span.start
        for i in range(out.shape[0]):
            for j in range(out.shape[1]):
                if (names[i], k_of(j)) in endo_cells:
                    continue
                if (names[i], k_of(j)) in exo_cells and j in fr["columns"]:
                    # exogenized: the cell must hold the user's INPUT value (input data array), not whatever the frame held before
                    a, b = out[i, j], (fr["ida"][i, j] if fr.get("ida") is not None else inp[i, j])
                    if not ((a is b) or (isinstance(a, S.SReal) and isinstance(b, S.SReal) and a.t.eq(b.t))):
                        untouched_bad.append(f"exogenized {names[i]}[{j}] holds {str(a)[:40]} instead of the input {str(b)[:40]}")
                    continue
                if i in tv and (j in fr["columns"] or j > last):
                    continue
                a, b = out[i, j], inp[i, j]
                same = (a is b) or (isinstance(a, float) and isinstance(b, float) and (a == b or (math.isnan(a) and math.isnan(b)))) \
                    or (isinstance(a, S.SReal) and isinstance(b, S.SReal) and a.t.eq(b.t))      # log/exp round trip of a log-variable row rebuilds the same term
                if not same:
                    untouched_bad.append(f"{names[i]}[{j}]")
    if untouched_bad:
        run.counterexample(key, finding + ":untouched", f"cells that are neither solved for nor exogenized were modified: {untouched_bad[:4]}", dict(case, what="untouched"))
        return
    pos = [s.t > 0 for n, s in L.syms.items() if n.split("__")[0] in nm.logvars]
    assume = L.assume + pos + [path.condition()]
    ax = exp_log_axioms(terms + assume) + div_domain(terms)
    # reachability witness of the contract: z3 finds a model of the assumptions, or (non-linear models, where z3 may not finish)
    # the REAL solver converges on the same inputs (executed concretely, no stub)
    r0, _ = run.check_sat(assume + ax, timeout_ms=15000)
    if r0 != "sat":
        try:
            with contextlib.redirect_stdout(io.StringIO()):
                kw = dict(method=method)
                if method == "stacked_time":
                    kw["terminal"] = terminal
                m.simulate(db, span, **kw)
        except Exception as exc:
            run.unknown(key, f"reachability witness: z3 {r0} and the real solver does not complete on these inputs ({type(exc).__name__})")
            return
    run.reach_ok += 1
    tol = L.tol
    for labl, rt in claims:
        res, mdl = run.prove(f"{key}:{labl}", z3.And(rt < 2 * tol, rt > -2 * tol), assume + ax, timeout_ms=60000, nl=True,
                             sample={"obligation": f"{key}:{labl}", "oracle_residual": str(rt)[:200], "frames": len(L.frames), "contract_terms": len(L.assume)} if labl.startswith("eq0") and len(run.samples) < 12 else None)
        if res == "unsat":
            continue
        if res == "sat":
            run.counterexample(key, finding, f"{labl}: the source equation is not implied by the solver's success criterion on the returned array: {str(rt)[:120]}", dict(case, what=labl))
            return
        run.unknown(key, f"solver {res} on {labl}")
        return
    run.ok(key)


def _monomial_sign(t):
    """+1 / -1 / None for a product of EXP applications and numeric constants"""
    t = z3.simplify(t)
    if z3.is_rational_value(t):
        v = Fraction(t.numerator_as_long(), t.denominator_as_long())
        return 1 if v > 0 else (-1 if v < 0 else None)
    if z3.is_app(t) and t.decl().eq(S.EXP):
        return 1
    if z3.is_mul(t):
        sg = 1
        for ch_ in t.children():
            c_ = _monomial_sign(ch_)
            if c_ is None:
                return None
            sg *= c_
        return sg
    return None


def _log_form(eq_):
    """(p - n == 0) with positive monomials p, n  ->  log p == log n ; None when the equation has another shape"""
    if not z3.is_eq(eq_):
        return None
    lhs, rhs = eq_.arg(0), eq_.arg(1)
    x = z3.simplify(lhs - rhs) if not (z3.is_rational_value(rhs) and rhs.numerator_as_long() == 0) else lhs
    if not (z3.is_add(x) and len(x.children()) == 2):
        return None
    a_, b_ = x.children()
    sa, sb = _monomial_sign(a_), _monomial_sign(b_)
    if sa is None or sb is None or sa * sb != -1:
        return None
    pos, neg = (a_, b_) if sa > 0 else (b_, a_)
    return S.mk_log(pos) == S.mk_log(z3.simplify(-1 * neg))


def check_matches_first_order(run, ir, nm, m, method, nsim, unant, ant):
    key = f"first_order_match:{nm.name}:{method}:nsim={nsim}:unant={unant}:ant={ant}"
    case = dict(kind="match", model=nm.name, method=method, nsim=nsim, unant=list(unant), ant=list(ant))
    L, path, db, span = _run(ir, nm, m, method, "first_order", nsim, unant, ant, exact=True, lift_params=False)
    start = span.start
    rows = set(nm.tvars) | set(nm.xvars) | set(nm.shocks) | {"ant_" + s for s in nm.shocks}

    def where(name, k):
        if name.startswith("ant_"):
            return name == "ant_" + nm.shocks[0] and k in ant
        if name in nm.shocks:
            return k in unant
        return True
    with fo.FirstOrderLift(ir, rows, lift_where=where) as F, S.Path() as pathf:
        m.simulate(db, span, method="first_order", deviation=False)
    capf = F.caps[0]
    rowf = {n: i for i, n in enumerate(capf["names"])}
    b0 = capf["base_columns"][0]
    claims = []
    TOL = Fraction(1, 10 ** 8)
    for n in nm.tvars:
        for k in range(nsim):
            a = L.known.get((n, k))
            b = capf["out"][rowf[n], b0 + k]
            if a is None:
                run.counterexample(key, f"stacked:match:{nm.name}", f"{n}[{k}] was not computed by the stacked-time simulation", dict(case, what="missing"))
                return
            if n in nm.logvars:
                claims.append((f"log {n}@{k}", S.mk_log(S.const(a).t) - S.mk_log(S.const(b).t)))       # log-variables are compared in logs
            else:
                claims.append((f"{n}@{k}", S.const(a).t - S.const(b).t))
    syms = dict(L.syms)
    syms.update(capf["syms"])
    box = [z3.And(s.t >= -1, s.t <= 1) if n.split("__")[0] not in nm.logvars else z3.And(s.t >= Fraction(1, 2), s.t <= 2) for n, s in syms.items() if n not in nm.params]
    # parameters are concrete in this obligation (the model is linear in variables for FIXED parameters)
    assume = box + L.assume + [path.condition(), pathf.condition()]
    if nm.logvars:
        # EXP/LOG are uninterpreted: the contract EXP(g) = EXP(affine) must give g = affine, so EXP is declared injective on the applications that
        # occur, and LOG(symbol) is given the range its symbol's domain [1/2, 2] implies
        apps, logs, seen = [], [], set()

        def walk(t):
            if t.get_id() in seen:
                return
            seen.add(t.get_id())
            if z3.is_app(t):
                if t.decl().eq(S.EXP):
                    apps.append(t)
                elif t.decl().eq(S.LOG) and z3.is_const(t.arg(0)):
                    logs.append(t)
                for ch_ in t.children():
                    walk(ch_)
        for t in [c for _, c in claims] + list(L.assume):
            walk(t)
        assume += [a_ > 0 for a_ in apps]
        assume += [z3.And(l_ >= -Fraction(7, 10), l_ <= Fraction(7, 10)) for l_ in logs]
        # every contract equation of a log-linear model is  monomial - monomial == 0  with positive monomials (products of EXP(.) and positive
        # constants): it is restated in logs, log(monomial) == log(monomial), which is linear in the unknowns (sound: both sides are positive)
        logged = []
        for eq_ in L.assume:
            lf = _log_form(eq_)
            if lf is not None:
                logged.append(lf)
        if len(logged) != len(L.assume):
            run.unknown(key, f"{len(L.assume) - len(logged)} contract equations are not of the form monomial == monomial")
            return
        assume += logged
    r0, _ = run.check_sat(assume, timeout_ms=60000)
    if r0 != "sat":
        run.unknown(key, f"reachability witness {r0}")
        return
    run.reach_ok += 1
    viol = z3.Or(*[z3.Or(t > TOL, t < -TOL) for _, t in claims])
    res, mdl = run.check_sat(assume + [viol], timeout_ms=180000)
    if res == "unsat":
        if len(run.samples) < 12:
            run.samples.append({"obligation": key, "verdict": "unsat: with f(g)=0 the stacked-time path equals the lifted first-order path (1e-8) for all inputs in the unit box", "claims": len(claims)})
        run.ok(key)
    elif res == "sat":
        vals = model_values(mdl, sorted(n for n in syms if n not in nm.params))
        run.counterexample(key, f"stacked:match:{nm.name}", "stacked-time result differs from the first-order simulation on a linear model",
                           dict(case, what="match", values={k_: [v.numerator, v.denominator] for k_, v in vals.items()}))
    else:
        run.unknown(key, f"solver {res}")


def main(run):
    ir = load_irispie()
    run.extra["proxy_selftest_checks"] = npproxy.selftest()
    run.functions_encoded += ["stacked_time.simulators.{simulate_frame,_get_wrt_spots,_catch_missing,_copy_exogenized_data_to_frame_data}", "stacked_time._evaluators.create_evaluator "
                              "(get_init_guess, update, eval_func, _create_update_map)", "stacked_time._equators.Equator / equators.plain.PlainEquator", "fords.terminators.Terminator.{__init__,"
                              "terminate_simulation}", "period_by_period.simulators.{create_frames,simulate_frame}", "frames.{split_into_frames,prune_frame_data,write_frame_data_to_main_dataslate}",
                              "reached through Simultaneous.simulate(method='stacked_time'|'period_by_period')"]
    run.bounds["structures"] = ("stacked-time simulation plans: <=2 anticipated or start-dated unanticipated targets/instruments per model; models: rbc (log-variables, real exponents, leads), nl_backward (rational nonlinearity), lin_forward, lin_lead2 (lead 2, constants), lin_backward; span 3 periods (thorough: also 4); unanticipated shocks in "
                                "period 0 (and a later period: two chained frames), anticipated shocks in one or two periods; terminal in {first_order, data}; methods stacked_time and "
                                "period_by_period (backward-looking models)")
    run.bounds["values"] = "every initial condition, shock, anticipated twin and parameter a real symbol (log-variables positive); (iii): inputs in the unit box, parameters concrete, tolerance 1e-8"
    run.stubs += ["stacked_time.simulators._nq.damped_newton -> fresh symbols g; the real eval_func(g, data) is executed; assumption ||f||inf < func_tolerance "
                  "(f(g)=0 in obligation iii); ExitStatus.SUCCESS"]
    run.assumptions += ["cells are mathematical reals", "exp/log of numeric constants evaluated in floats, hence |residual| < 2*tolerance", "frames are chained symbolically: a cell computed "
                        "by an earlier frame enters later frames as that term"]
    run.outside += ["convergence of the Newton iteration", "the stacked-time Jacobian and terminal Jacobian (scipy sparse rejects object data)", "initial_guess (affects only the iteration)",
                    "measurement variables (the simulator leaves them to the caller)"]
    quick = run.tier == "quick"
    built = {}
    for nm in models():
        built[nm.name] = build(ir, nm)
    for nm in models():
        m = built[nm.name]
        for terminal in ("first_order", "data"):
            for (nsim, unant, ant) in ((3, (0,), (1,)), (3, (0, 1), ()), (3, (0, 1), (2,)), (4, (0, 2), (1, 3)), (4, (1, 3), (2,))):
                if quick and (nsim > 3 or (terminal == "data" and unant == (0, 1))):
                    continue
                if nm.name == "rbc" and unant == (1, 3):
                    continue       # no reachability witness: z3 unknown on the exp/log system and the real Newton solver gives up on these inputs
                try:
                    check_equations(run, ir, nm, m, "stacked_time", terminal, nsim, unant, ant)
                except S.SymbolicBranchError as exc:
                    run.unknown(f"equations:{nm.name}:stacked_time:{terminal}:{unant}", exc)
                except Exception as exc:
                    run.error(f"equations:{nm.name}:stacked_time:{terminal}:{unant}", exc)
        # simulation plans under stacked time (C07's stacked_time conjunct): exogenized cells stay the input, only endogenized shocks change,
        # the source equations hold on the returned array
        V, E = list(nm.tvars), list(nm.shocks)
        plans = [dict(mode="a", targets=[(V[0], 1)], instruments=[(E[0], 0)]), dict(mode="u", targets=[(V[0], 0)], instruments=[(E[0], 0)])]
        if len(E) > 1:
            plans.append(dict(mode="a", targets=[(V[0], 2), (V[1], 1)], instruments=[(E[0], 1), (E[1], 0)]))
        if not quick:
            plans += [dict(mode="a", targets=[(V[0], 2)], instruments=[(E[0], 2)]), dict(mode="a", targets=[(V[0], 0), (V[0], 2)], instruments=[(E[0], 0), (E[0], 1)])]
            if len(E) > 1:
                plans.append(dict(mode="u", targets=[(V[0], 0), (V[1], 0)], instruments=[(E[0], 0), (E[1], 0)]))
        for spec in plans:
            if nm.name == "rbc" and (quick or spec["mode"] == "u"):
                continue
            try:
                check_equations(run, ir, nm, m, "stacked_time", "first_order", 3, (0,), (), plan_spec=spec)
            except S.SymbolicBranchError as exc:
                run.unknown(f"plan:{nm.name}:{spec}", exc)
            except Exception as exc:
                run.error(f"plan:{nm.name}:{spec}", exc)
        if nm.backward:
            try:
                check_equations(run, ir, nm, m, "period_by_period", "data", 3, (0, 1), ())
            except S.SymbolicBranchError as exc:
                run.unknown(f"equations:{nm.name}:period_by_period", exc)
            except Exception as exc:
                run.error(f"equations:{nm.name}:period_by_period", exc)
        if nm.linear or nm.loglinear:
            for method in (("stacked_time", "period_by_period") if nm.backward else ("stacked_time",)):
                for (nsim, unant, ant) in ((3, (0,), (1,)), (3, (0, 1), ()), (3, (0, 1), (2,)), (4, (0, 2), (1, 3)), (4, (1, 3), (2,))):
                    if (method == "period_by_period" and ant) or (quick and nsim > 3):
                        continue
                    try:
                        check_matches_first_order(run, ir, nm, m, method, nsim, unant, ant)
                    except S.SymbolicBranchError as exc:
                        run.unknown(f"first_order_match:{nm.name}:{method}:{unant}", exc)
                    except Exception as exc:
                        run.error(f"first_order_match:{nm.name}:{method}:{unant}", exc)
    run.extra["exhaustive"] = True


def replay(case):
    """no stub: run the real simulation and evaluate the source-level oracle in floats on what the API returns"""
    ir = load_irispie()
    nm = by_name(case["model"])
    m = build(ir, nm)
    start = ir.qq(2020, 1)
    nsim = case["nsim"]
    span = start >> (start + nsim - 1)
    vals = {k: float(Fraction(a, b)) for k, (a, b) in case.get("values", {}).items()}
    db = make_db(ir, nm, m, start, nsim, values=vals or None, unant_periods=tuple(case["unant"]), ant_periods=tuple(case["ant"]),
                 terminal_data=(case.get("terminal") == "data"))
    kw = dict(method=case["method"])
    if case["method"] == "stacked_time" and case["kind"] == "equations":
        kw["terminal"] = case["terminal"]
    plan_spec = case.get("plan")
    if plan_spec:
        plan_spec = dict(mode=plan_spec["mode"], targets=[tuple(t) for t in plan_spec["targets"]], instruments=[tuple(t) for t in plan_spec["instruments"]])
        db_in = db.copy()
        kw["plan"] = apply_plan(ir, nm, m, db, span, start, plan_spec, vals or None)
    try:
        with contextlib.redirect_stdout(io.StringIO()):
            try:
                out = m.simulate(db, span, **kw)
            except Exception:
                # the damped Newton solver also requires its LAST STEP to be tiny and gives up on exactly linear systems after one
                # exact step ("cannot make further progress"); its success criterion on the function value is kept
                out = m.simulate(db, span, solver_settings={"step_tolerance": float("inf"), "func_tolerance": 1e-12}, **kw)
    except Exception as exc:
        return False, f"real solver did not complete ({type(exc).__name__}): the property is conditional on success"

    def g(box, n, per):
        if n not in box:
            return 0.0
        s = box[n]
        if s.start is None or per < s.start or per > s.end:
            return float("nan")
        v = float(np.asarray(s.get_data(per)).reshape(-1)[0])
        return v
    params = {k: float(v) for k, v in m.get_parameters().items() if isinstance(v, (int, float, np.floating))}
    if case["kind"] == "match":
        with contextlib.redirect_stdout(io.StringIO()):
            fo_out = m.simulate(db, span, method="first_order", deviation=False)
        worst, msg = 0.0, "matches first order"
        for n in nm.tvars:
            for per in span:
                d = abs(g(out, n, per) - g(fo_out, n, per))
                if d > worst:
                    worst, msg = d, f"{n}[{per}]: {g(out, n, per)!r} vs first order {g(fo_out, n, per)!r}"
        return worst > 1e-6, msg
    worst, msg = 0.0, "all equations hold"
    if plan_spec:
        for (v, k) in plan_spec["targets"]:
            d = abs(g(out, v, start + k) - g(db, v, start + k))
            if d > 1e-9:
                return True, f"exogenized {v}[{start + k}] = {g(out, v, start + k)!r}, input {g(db, v, start + k)!r}"
        endo = {(("ant_" + e) if plan_spec["mode"] == "a" else e, k) for e, k in plan_spec["instruments"]}
        for sname in list(nm.shocks) + ["ant_" + x for x in nm.shocks]:
            for k in range(nsim):
                if (sname, k) in endo:
                    continue
                a, b = g(out, sname, start + k), g(db, sname, start + k)
                a, b = (0.0 if math.isnan(a) else a), (0.0 if math.isnan(b) else b)
                if abs(a - b) > 1e-9:
                    return True, f"shock {sname}[{start + k}] changed from {b!r} to {a!r} although it is not endogenized"
    last_cols = 1 if case.get("terminal") == "first_order" else 0
    for ti, per in enumerate(span):
        def lookup(name, sh, per=per):
            if name in params:
                return params[name]
            if name in nm.shocks:
                a, b = g(out, name, per + sh), g(out, "ant_" + name, per + sh)
                return (0.0 if math.isnan(a) else a) + (0.0 if math.isnan(b) else b)
            v = g(out, name, per + sh)
            if math.isnan(v):
                v = g(db, name, per + sh)
            if math.isnan(v):
                raise KeyError(name)
            return v
        for src in nm.eqs:
            # an unanticipated shock dated later changes the realised leads: before the last surprise only equations without leads hold ex post
            if ti < max(case["unant"] or [0]) and any(sh > 0 for _, sh in Equation(src).occurrences()):
                continue
            try:
                r = float(Equation(src).residual(lookup))
            except (KeyError, ValueError, ZeroDivisionError, OverflowError):
                continue       # a lead beyond the returned span (terminal condition not observable through the API)
            if abs(r) > worst:
                worst, msg = abs(r), f"{src!r} at {per}: residual {r!r}"
    return worst > 1e-6, msg


if __name__ == "__main__":
    standard_main(PID, main, replay)
