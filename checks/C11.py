"""
C11 -- Period conversions round-trip; frequency conversion preserves containment.
Engine XH: CrossHair on generated harness functions calling the real irispie.dates (xh/c11_gen.py).
"""
from __future__ import annotations

import os
import time

from symx.report import standard_main, VERIF
from symx import xhrun

PID = "C11"
HARNESS = os.path.join(VERIF, ".work", "xh", "C11_harness.py")


def _select(tier):
    if tier == "thorough":
        return lambda name: True

    def sel(name):
        if name.startswith(("iso_", "sdmx_", "repr_")) and name.count("_") == 2:
            k, w = name.split("_")[1:]
            return (k in ("q", "m") and w in ("y2000", "y1000")) or (k in ("y", "h") and w == "y0100") or (k == "y" and w == "y9999")
        if name.startswith("position_"):
            return name.endswith(("_m_c2000", "_m_c1900", "_m_y2024", "_y_c2000")) and ("_end_" in name or name.endswith("_m_c2000"))
        if name.startswith("strings_d_"):
            return name.endswith(("leap2024", "y0999end", "first"))
        if name.startswith("refreq_"):
            return name in ("refreq_m_q", "refreq_q_m", "refreq_q_y", "refreq_y_q", "refreq_m_d", "refreq_d_m", "refreq_h_m",
                            "refreq_d_q", "refreq_y_d", "refreq_m_h")
        return True
    return sel


def main(run):
    from xh import c11_gen, calstub
    t = time.time()
    n = calstub.validate(step=1 if run.tier == "thorough" else 7)
    run.extra["calendar_stub_validation"] = {"ordinals_compared_with_datetime": n, "months_compared_with_calendar": 9999 * 12,
                                             "seconds": round(time.time() - t, 1)}
    c11_gen.generate(HARNESS, run.tier)
    run.functions_encoded += ["dates.Period.{from_ymd,from_year_segment,from_python_date,from_iso_string,from_sdmx_string,to_iso_string,"
                              "to_python_date,refrequent,__repr__}", "dates.Frequency.from_sdmx_string + SDMX_REXP_FORMATS",
                              "dates.{Yearly,Halfyearly,Quarterly,Monthly,Daily,Integer}Period.{to_sdmx_string,from_sdmx_string,to_ymd,from_ymd,__repr__}",
                              "dates.refrequent, dates.RegularPeriodMixin.to_daily, dates.yy/hh/qq/mm/dd/ii (through eval(repr))"]
    run.bounds["ints"] = ("ymd / python-date / year-segment round trips: all periods of years 1..9998, every position; all ordinals for daily; "
                          "string legs (ISO, SDMX with auto-detection, repr) on 2-year windows at the decade/century/millennium boundaries "
                          "0009-0011, 0099-0101, 0999-1001, 1999-2001, 9998-9999 and daily windows incl. a leap day; integer periods -12..60; "
                          "true first/last day of each period (day before start / after end falls in the neighbouring period) for monthly and yearly periods on 3-year windows around 1900, 2000, 2400 and 2024 (half-yearly/quarterly period ends are fixed table entries, covered by C09 tiling); refrequent: every ordered pair of calendar frequencies x 3 positions over years 1..9997 (2024-01-15..2024-03-14 for a daily source, 2019-2021 for a daily target)")
    run.stubs += ["datetime.date and calendar.monthrange inside irispie.dates replaced by a loop-free integer Gregorian calendar "
                  "(xh/calstub.py), validated against the real modules on this run; counterexamples are replayed with the real datetime"]
    run.assumptions += ["CrossHair 'Confirmed over all paths' is taken as exhaustive over the precondition's bound",
                        "each harness has a reachability twin (post: False) that must produce a counterexample"]
    run.outside += ["weekly frequency", "string legs outside the listed windows", "CSV import/export of periods (databoxes/_imports, _exports: file I/O)",
                    "compact strings"]
    timeout = 300 if run.tier == "quick" else 600
    xhrun.run_harness(run, HARNESS, select=_select(run.tier), timeout=timeout, twin_timeout=60, finding_prefix="dates:")
    run.extra["exhaustive"] = True
    run.extra["rule"] = ("one evaluation = one CrossHair condition (harness function or its reachability twin) explored over all paths within its "
                         "precondition; non-trivial = confirmed over all paths AND twin produced a counterexample; distinct = distinct harness function")


def replay(case):
    from xh import c11_gen
    c11_gen.generate(HARNESS, "thorough")
    return xhrun.replay_case(case)


if __name__ == "__main__":
    standard_main(PID, main, replay)
