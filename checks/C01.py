"""
C01 -- First-order solution satisfies the model equations and is the stable one.

Simultaneous.simulate(method="first_order") is run through the public API; the kernel fords.simulators.simulate_frame
(simulate_flat, _simulate_measurement, shock_simulators, Solution.expand_square_solution, get_init_xi, dataslate
(de)logarithmize) executes on one symbol per initial condition / shock cell.  Each output cell is an affine term; z3
(QF_LRA) decides, for all inputs in the unit box, that every equation AS WRITTEN IN THE SOURCE holds in every checked
period when leads are read as conditional expectations of the same path (unanticipated shocks dated later set to 0).
"""
from __future__ import annotations

import ast
import inspect
import math
import textwrap
from fractions import Fraction

import numpy as np
import z3

from symx import sreal as S
from symx import npproxy, zoo, fo
from symx.concolic import explore, model_values
from symx.refeval import Equation
from symx.series_tools import load_irispie
from symx.report import standard_main

PID = "C01"

# a measurement equation with a LEAD of a transition variable (must hold under conditional expectations like any other equation)
MLEAD = zoo.ZModel(
    "mlead", ("x",), ("e",), ("x = a*x[-1] + e",), dict(a=Fraction(1, 2)),
    mvars=("o1", "o2"), meqs=("o1 = x[+1]", "o2 = 2*x"), tags=("measurement", "backward", "measurement_lead"), forward=1)      # x[+1] enters the system vector as a forward-looking element
TOL = Fraction(1, 10 ** 9)


def lab(k):
    """column label relative to the first simulated period: -1 -> 'm1'"""
    return f"m{-k}" if k < 0 else str(k)


MAXLAG = 2


def _steady(m):
    lv = {k: float(v) for k, v in m.get_steady_levels().items() if isinstance(v, (int, float, np.floating))}
    ch = {k: float(v) for k, v in m.get_steady_changes().items() if isinstance(v, (int, float, np.floating))}
    return lv, ch


def _setup(ir, zm, nsim, n_ant, deviation, values=None, zero_shocks=False, model=None, ant_ks=None):
    """model, databox, span: every variable gets initial conditions (2 lags), every shock a value in every simulated period"""
    m = fo.build_model(ir, zm) if model is None else model
    lv, ch = _steady(m)
    start = ir.qq(2020, 1)
    span = start >> (start + nsim - 1)

    def val(n, k, default):
        if values is not None and f"{n}__{lab(k)}" in values:
            return float(values[f"{n}__{lab(k)}"])
        return default
    db = ir.Databox()
    for i, n in enumerate(zm.tvars):
        vals = []
        for k in range(-MAXLAG, 0):
            d = val(n, k, 0.25 + 0.0625 * i + 0.03125 * k)
            if not deviation:
                d += lv.get(n, 0.0) + ch.get(n, 0.0) * k
            vals.append(d)
        db[n] = ir.Series(start=start - MAXLAG, values=tuple(vals))
    for i, n in enumerate(list(zm.tshocks) + list(zm.mshocks)):
        db[n] = ir.Series(start=start, values=tuple(0.0 if zero_shocks else val(n, k, 0.125 + 0.03125 * ((i + k) % 3)) for k in range(nsim)))
    ant_cells = set()
    for si, s in enumerate(zm.tshocks):
        vals = []
        for k in range(nsim):
            if si == 0 and (k < n_ant if ant_ks is None else k in ant_ks):
                vals.append(val("ant_" + s, k, 0.125))
                ant_cells.add(("ant_" + s, k))
            else:
                vals.append(0.0)
        db["ant_" + s] = ir.Series(start=start, values=tuple(vals))
    return m, db, span, ant_cells, (lv, ch)


def _lift_rows(zm):
    return set(zm.tvars) | set(zm.tshocks) | set(zm.mshocks) | {"ant_" + s for s in zm.tshocks}


def _where(zm, ant_cells):
    ants = {"ant_" + s for s in zm.tshocks}
    return lambda nm, k: (nm not in ants) or ((nm, k) in ant_cells)


def _cell_term(x):
    return None if (x is None or (isinstance(x, float) and math.isnan(x))) else S.const(x).t


def _expectation(term, k, nsim, unant):
    """E_k: unanticipated shocks dated after offset k are zero"""
    subs = [(z3.Real(f"{s}__{lab(j)}"), z3.RealVal(0)) for s in unant for j in range(k + 1, nsim + 4)]
    return z3.substitute(term, *subs) if subs else term


def _residual_claims(zm, cap, nsim, checked, deviation, steady):
    """[(label, residual term)] for transition and measurement equations on the lifted output path.
    In deviation mode the equation is evaluated at steady path + deviation (linear models: equals the deviation form)."""
    names, out = cap["names"], cap["out"]
    row = {n: i for i, n in enumerate(names)}
    b0 = cap["base_columns"][0]
    unant = list(zm.tshocks)
    lv, ch = steady
    claims = []

    def mk_lookup(k):
        def lookup(name, sh):
            j = b0 + k + sh
            if name in zm.tshocks:
                v = S.const(out[row[name], j]) + S.const(out[row["ant_" + name], j])
            elif name in zm.params:
                v = S.const(zm.params[name])
            else:
                v = out[row[name], j]
            tt = _cell_term(v)
            if tt is None:
                raise KeyError(f"missing cell {name}[{k + sh}]")
            if sh > 0:
                tt = _expectation(tt, k, nsim, unant)
            r = S.SReal(tt)
            if deviation and (name in zm.tvars or name in zm.mvars):
                r = r + S.float_fraction(lv.get(name, 0.0)) + S.float_fraction(ch.get(name, 0.0)) * (k + sh)
            return r
        return lookup
    for k in checked:
        for ei, src in enumerate(zm.teqs):
            r = Equation(src).residual(mk_lookup(k), numeric=lambda v: v)
            claims.append((f"teq{ei}@{k}", S.const(r).t))
        for ei, src in enumerate(zm.meqs):
            r = Equation(src).residual(mk_lookup(k), numeric=lambda v: v)
            claims.append((f"meq{ei}@{k}", S.const(r).t))
    return claims


def _box(syms, bound=1):
    return [z3.And(s.t >= -bound, s.t <= bound) for s in syms.values()]


def _decide_path(run, key, zm, cap, path, claims, case, finding):
    syms = cap["syms"]
    names = sorted(syms)
    assume = _box(syms) + [path.condition()]
    r0, _ = run.check_sat(assume, timeout_ms=20000)
    if r0 != "sat":
        return "infeasible" if r0 == "unsat" else "unknown"
    run.reach_ok += 1
    viol = [z3.Or(c > TOL, c < -TOL) for _, c in claims]
    has_sym = any(not z3.is_rational_value(z3.simplify(c)) for _, c in claims[:4])
    lab0, c0 = claims[0]
    r, m = run.check_sat(assume + [z3.Or(*viol)], timeout_ms=120000)
    if r == "unsat":
        if len(run.samples) < 12:
            run.samples.append({"obligation": key, "verdict": "unsat: |residual| <= 1e-9 for every equation x period, all inputs in the unit box",
                                "example_residual": f"{lab0}: {str(z3.simplify(c0))[:220]}", "symbols": len(names), "claims": len(claims)})
        return "ok" if has_sym else "trivial"
    if r == "sat":
        # prefer a witness with a clear margin (a marginal one, |residual| barely above the tolerance, may not survive float replay)
        big = [z3.Or(c > Fraction(1, 1000), c < -Fraction(1, 1000)) for _, c in claims]
        rb, mb = run.check_sat(assume + [z3.Or(*big)], timeout_ms=60000)
        if rb == "sat":
            m = mb
        bad = []
        for lab, c in claims:
            v = m.eval(c, model_completion=True)
            fv = Fraction(v.numerator_as_long(), v.denominator_as_long())
            if abs(fv) > TOL:
                bad.append((lab, float(fv)))
        vals = model_values(m, names)
        run.counterexample(key, finding, f"equation residuals non-zero on the simulated path: {bad[:4]}",
                           dict(case, bad=bad[:6], values={n: [v.numerator, v.denominator] for n, v in vals.items()}))
        return "violated"
    return "unknown"


# ------------------------------------------------------------------------------------------
# a LINEARISED model (linear=False) with log-variables whose steady state is a balanced-growth path.  The model is exactly
# log-linear, so its first-order solution is exact and the equations can be stated in logs (the oracle below), where every output
# cell EXP(affine in LOG(input), shocks) normalises to an affine term.
# ------------------------------------------------------------------------------------------
GROWTH_SRC = """
!transition-variables
    a, y, c
!log-variables
    a, y, c
!transition-shocks
    ea, ey
!parameters
    g, rho, psi, s
!transition-equations
    a = a[-1] * g * exp(ea);
    y/a = s^(1-rho-psi) * (y[-1]/a[-1])^rho * (y[+1]/a[+1])^psi * exp(ey);
    c = y^0.6 * (c[-1]*g)^0.4;
"""
GROWTH_PAR = dict(g=1.02, rho=0.5, psi=0.3, s=1.5)
GROWTH_VARS, GROWTH_SHOCKS = ("a", "y", "c"), ("ea", "ey")


def _growth_model(ir):
    import contextlib, io
    p = GROWTH_PAR
    with contextlib.redirect_stdout(io.StringIO()):
        m = ir.Simultaneous.from_string(GROWTH_SRC, linear=False, flat=False)
        m.assign(**p)
        m.assign(a=(2.0, p["g"]), y=(2.0 * p["s"], p["g"]), c=(2.0 * p["s"], p["g"]))
        m.solve()
    return m


def _growth_steady(name, k):
    """balanced-growth path, k periods after the first simulated period (closed form: the oracle's own statement)"""
    p = GROWTH_PAR
    lvl = 2.0 * p["g"] if name == "a" else 2.0 * p["s"] * p["g"]
    return lvl * p["g"] ** k


def _growth_db(ir, nsim, ant_cells, deviation, values=None):
    start = ir.qq(2020, 1)
    span = start >> (start + nsim - 1)

    def val(n, k, default):
        if values is not None and f"{n}__{lab(k)}" in values:
            return float(values[f"{n}__{lab(k)}"])
        return default
    db = ir.Databox()
    for i, n in enumerate(GROWTH_VARS):
        base = (1.0 + 0.0625 * (i + 1)) * (1.0 if deviation else _growth_steady(n, -1))
        db[n] = ir.Series(start=start - 1, values=(val(n, -1, base),))
    for i, n in enumerate(GROWTH_SHOCKS):
        db[n] = ir.Series(start=start, values=tuple(val(n, k, 0.03125 * (1 + (i + k) % 3)) for k in range(nsim)))
        db["ant_" + n] = ir.Series(start=start, values=tuple(val("ant_" + n, k, 0.0625) if ("ant_" + n, k) in ant_cells else 0.0 for k in range(nsim)))
    return db, span


def _growth_log_residuals(getl, gets, nsim, checked, expect):
    """the three equations in logs; getl(name, k) = log of the variable, gets(name, k) = shock (unanticipated + anticipated);
    expect(term, k) = conditional expectation at k"""
    p = GROWTH_PAR
    lg, ls = math.log(p["g"]), math.log(p["s"])
    out = []
    for k in checked:
        out.append((f"teq0@{k}", getl("a", k) - (getl("a", k - 1) + lg + gets("ea", k))))
        gap = lambda j: getl("y", j) - getl("a", j)
        out.append((f"teq1@{k}", gap(k) - ((1 - p["rho"] - p["psi"]) * ls + p["rho"] * gap(k - 1) + p["psi"] * expect(gap(k + 1), k) + gets("ey", k))))
        out.append((f"teq2@{k}", getl("c", k) - (0.6 * getl("y", k) + 0.4 * (getl("c", k - 1) + lg))))
    return out


def _growth_domain(syms, deviation):
    out = []
    for n, sy in syms.items():
        if n.split("__")[0] in GROWTH_VARS:
            out.append(z3.And(sy.t >= Fraction(1, 2), sy.t <= 4))
        else:
            out.append(z3.And(sy.t >= -Fraction(1, 4), sy.t <= Fraction(1, 4)))
    return out


def _growth_log_bounds(terms):
    """LOG is uninterpreted: give LOG(symbol) the range its symbol's domain [1/2, 4] implies"""
    seen, out = set(), []

    def walk(t):
        if t.get_id() in seen:
            return
        seen.add(t.get_id())
        if z3.is_app(t):
            if t.decl().eq(S.LOG) and z3.is_const(t.arg(0)):
                out.append(z3.And(t >= -Fraction(7, 10), t <= Fraction(7, 5)))
            for ch_ in t.children():
                walk(ch_)
    for t in terms:
        walk(t)
    return out


def growth_equations(run, ir, deviation, nsim=4, ant=(("ant_ey", 2), ("ant_ea", 1))):
    """every equation of the linearised growth model holds (in logs) on the first-order simulation, in levels (around the
    balanced-growth path) and in deviations; the level simulation equals steady path x deviation simulation of the same inputs"""
    key = f"equations:growth_loglin:dev={deviation}:nsim={nsim}"
    finding = "first_order:equations:growth_loglin"
    ant_cells = set(ant)
    case = dict(kind="growth", deviation=deviation, nsim=nsim, ant=[list(x) for x in ant])
    m = _growth_model(ir)
    db, span = _growth_db(ir, nsim, ant_cells, deviation)
    rows = set(GROWTH_VARS) | set(GROWTH_SHOCKS) | {"ant_" + s_ for s_ in GROWTH_SHOCKS}
    ants = {"ant_" + s_ for s_ in GROWTH_SHOCKS}
    where = lambda nm, k: (nm not in ants) or ((nm, k) in ant_cells)
    with fo.FirstOrderLift(ir, rows, lift_where=where) as L, S.Path() as path:
        m.simulate(db, span, method="first_order", deviation=deviation)
    cap = L.caps[0]
    names, out = cap["names"], cap["out"]
    row = {n: i for i, n in enumerate(names)}
    b0 = cap["base_columns"][0]
    unant = list(GROWTH_SHOCKS)

    def getl(name, k):
        t = _cell_term(out[row[name], b0 + k])
        if t is None:
            raise KeyError(f"missing cell {name}[{k}]")
        t = S.mk_log(t)
        if deviation:
            t = t + S.rv(S.float_fraction(math.log(_growth_steady(name, k))))
        return t

    def gets(name, k):
        return (S.const(out[row[name], b0 + k]) + S.const(out[row["ant_" + name], b0 + k])).t
    expect = lambda term, k: _expectation(term, k, nsim, unant)
    checked = list(range(0, nsim - 1))
    claims = _growth_log_residuals(getl, gets, nsim, checked, expect)
    syms = cap["syms"]
    terms = [c for _, c in claims]
    assume = _growth_domain(syms, deviation) + _growth_log_bounds(terms) + [path.condition()]
    r0, _ = run.check_sat(assume, timeout_ms=20000)
    if r0 != "sat":
        run.unknown(key, f"reachability witness {r0}")
        return
    run.reach_ok += 1
    if not any(not z3.is_rational_value(z3.simplify(c)) for c in terms):
        run.unknown(key, "no symbolic residual")
        return
    viol = z3.Or(*[z3.Or(c > TOL * 10, c < -TOL * 10) for c in terms])
    r, mdl = run.check_sat(assume + [viol], timeout_ms=120000)
    if r == "unsat":
        if len(run.samples) < 12:
            run.samples.append({"obligation": key, "verdict": "unsat: |log residual| <= 1e-8 for every equation x period, log-variables in [1/2,4], shocks in [-1/4,1/4]",
                                "example_residual": f"{claims[1][0]}: {str(z3.simplify(claims[1][1]))[:220]}", "claims": len(claims)})
        run.ok(key)
    elif r == "sat":
        big = z3.Or(*[z3.Or(c > Fraction(1, 1000), c < -Fraction(1, 1000)) for c in terms])
        rb, mb = run.check_sat(assume + [big], timeout_ms=60000)
        if rb == "sat":
            mdl = mb
        vals = model_values(mdl, sorted(syms))
        run.counterexample(key, finding, "equations of the linearised growth model (in logs) do not hold on the first-order simulation",
                           dict(case, values={n: [v.numerator, v.denominator] for n, v in vals.items()}))
    else:
        run.unknown(key, f"solver {r}")


def _growth_replay(ir, case, vals):
    deviation, nsim = case["deviation"], case["nsim"]
    ant_cells = {tuple(x) for x in case["ant"]}
    m = _growth_model(ir)
    db, span = _growth_db(ir, nsim, ant_cells, deviation, values=vals)
    o = m.simulate(db, span, method="first_order", deviation=deviation)
    start = span.start

    def g_(name, k):
        return float(np.asarray(o[name].get_data(start + k)).reshape(-1)[0])

    def getl(name, k):
        v = math.log(g_(name, k))
        return v + (math.log(_growth_steady(name, k)) if deviation else 0.0)

    def gets(name, k):
        return g_(name, k) + g_("ant_" + name, k)
    # leads: only period-0 unanticipated shocks may differ from their expectation; the replay zeroes later unanticipated shocks
    # is not possible here (values come from the solver), so the expectation is taken by re-simulating from period k+1 on without them
    def expect_factory():
        cache = {}

        def expect(term_unused, k):
            if k not in cache:
                db2 = db.copy()
                for sname in GROWTH_SHOCKS:
                    x = db2[sname].copy()
                    for j in range(k + 1, nsim):
                        x[start + j] = 0.0
                    db2[sname] = x
                o2 = m.simulate(db2, span, method="first_order", deviation=deviation)
                gg = lambda name, j: math.log(float(np.asarray(o2[name].get_data(start + j)).reshape(-1)[0])) + (math.log(_growth_steady(name, j)) if deviation else 0.0)
                cache[k] = gg("y", k + 1) - gg("a", k + 1)
            return cache[k]
        return expect
    worst, msg = 0.0, "all equations hold in logs"
    for labl, r in _growth_log_residuals(getl, gets, nsim, list(range(0, nsim - 1)), expect_factory()):
        if not abs(r) <= worst:
            worst, msg = (abs(r) if r == r else float("inf")), f"{labl}: log residual {r!r}"
    return worst > 1e-6, msg



def equations_hold(run, ir, zm, deviation, nsim, n_ant):
    key = f"equations:{zm.name}:dev={deviation}:nsim={nsim}:ant={n_ant}"
    finding = f"first_order:equations:{zm.name}"
    case = dict(kind="equations", model=zm.name, deviation=deviation, nsim=nsim, n_ant=n_ant)
    m, db, span, ant_cells, steady = _setup(ir, zm, nsim, n_ant, deviation)
    ant_names = sorted(f"{n}__{lab(k)}" for n, k in ant_cells)
    maxlead = 2 if "lead2" in zm.tags else 1
    checked = list(range(0, nsim - maxlead))

    def runner(values):
        with fo.FirstOrderLift(ir, _lift_rows(zm), values=values, lift_where=_where(zm, ant_cells)) as L:
            m.simulate(db, span, method="first_order", deviation=deviation)
        return L.caps[0]
    init = {n: Fraction(1, 8) for n in ant_names}
    dom = [z3.And(z3.Real(n) >= -1, z3.Real(n) <= 1) for n in ant_names]
    results, exhausted = explore(ant_names, runner, domain=dom, init=init, max_paths=64, stats=run.q)
    run.paths += len(results)
    if not exhausted:
        run.unknown(key, f"path exploration not exhausted after {len(results)} paths")
        return
    verdicts = []
    for path, cap, values in results:
        claims = _residual_claims(zm, cap, nsim, checked, deviation, steady)
        v = _decide_path(run, key, zm, cap, path, claims, case, finding)
        verdicts.append(v)
        if v in ("violated", "unknown"):
            break
    if "violated" in verdicts:
        return
    if "unknown" in verdicts:
        run.unknown(key, "solver unknown")
        return
    if "ok" not in verdicts:
        run.unknown(key, "no path with a symbolic residual")
        return
    run.ok(key)


def span_extension(run, ir, zm, deviation, nsim):
    """the simulation over nsim periods equals the first nsim periods of the simulation over nsim+2 periods with the same inputs and
    no shocks in the added periods (shocks are expected to be zero beyond the span): in particular anticipated shocks dated in the LAST
    period of the span have their full effect.  Together with equations_hold on the longer span this covers the equations of the
    last periods, whose leads lie beyond the span."""
    key = f"span_extension:{zm.name}:dev={deviation}:nsim={nsim}"
    finding = f"first_order:span_extension:{zm.name}"
    case = dict(kind="span_extension", model=zm.name, deviation=deviation, nsim=nsim)
    m, db_s, span_s, ant_s, steady = _setup(ir, zm, nsim, nsim, deviation)
    _m, db_l, span_l, ant_l, _st = _setup(ir, zm, nsim + 2, nsim, deviation, model=m)
    shock_rows = set(zm.tshocks) | set(zm.mshocks)
    for n in shock_rows:
        x = db_l[n].copy()
        for k in (nsim, nsim + 1):
            x[span_l.start + k] = 0.0
        db_l[n] = x
    ants = {"ant_" + s for s in zm.tshocks}
    where = lambda nm, k: ((nm not in ants) or ((nm, k) in ant_s)) and not (nm in shock_rows and k >= nsim)
    caps = []
    paths = []
    for db, span in ((db_s, span_s), (db_l, span_l)):
        with fo.FirstOrderLift(ir, _lift_rows(zm), lift_where=where) as L, S.Path() as path:
            m.simulate(db, span, method="first_order", deviation=deviation)
        caps.append(L.caps[0])
        paths.append(path)
    (cs, cl) = caps
    rs, rl = {n: i for i, n in enumerate(cs["names"])}, {n: i for i, n in enumerate(cl["names"])}
    bs, bl = cs["base_columns"][0], cl["base_columns"][0]
    claims = []
    for v in list(zm.tvars) + list(zm.mvars):
        for k in range(nsim):
            a, b = _cell_term(cs["out"][rs[v], bs + k]), _cell_term(cl["out"][rl[v], bl + k])
            if a is None or b is None:
                if (a is None) != (b is None):
                    run.counterexample(key, finding, f"{v}@{k} missing in one of the two simulations", dict(case, values={}))
                    return
                continue
            claims.append((f"{v}@{k}", a, b))
    syms = dict(cs["syms"]); syms.update(cl["syms"])
    assume = _box(syms) + [p.condition() for p in paths]
    r0, _ = run.check_sat(assume, timeout_ms=20000)
    if r0 != "sat" or not claims:
        run.unknown(key, f"reachability witness {r0} / {len(claims)} claims")
        return
    run.reach_ok += 1
    tol = Fraction(1, 10 ** 8)
    viol = z3.Or(*[z3.Or(a - b > tol, a - b < -tol) for _, a, b in claims])
    r, mdl = run.check_sat(assume + [viol], timeout_ms=60000)
    if r == "unsat":
        run.ok(key)
    elif r == "sat":
        bad = []
        for labl, a, b in claims:
            d = mdl.eval(a - b, model_completion=True)
            fv = Fraction(d.numerator_as_long(), d.denominator_as_long())
            if abs(fv) > tol:
                bad.append((labl, float(fv)))
        vals = model_values(mdl, sorted(syms))
        run.counterexample(key, finding, f"the simulation over {nsim} periods differs from the first {nsim} periods of the one over {nsim + 2}: {bad[:4]}",
                           dict(case, bad=bad[:6], values={n: [v.numerator, v.denominator] for n, v in vals.items()}))
    else:
        run.unknown(key, f"solver {r}")


def split_equals_single(run, ir, zm, deviation, nsim=5):
    """simulate(..., force_split_frames=True) (one frame per date with an unanticipated shock, frames chained symbolically) returns the same
    path as the single-frame simulation of the same inputs, in particular with an anticipated shock dated after the end of the early frames"""
    from checks.C07 import _merge_caps
    key = f"split_frames:{zm.name}:dev={deviation}:nsim={nsim}"
    finding = f"first_order:split_frames:{zm.name}"
    case = dict(kind="split_frames", model=zm.name, deviation=deviation, nsim=nsim)
    m, db, span, ant_cells, steady = _setup(ir, zm, nsim, 0, deviation, ant_ks={nsim - 1, 1})
    rows = _lift_rows(zm)
    where = _where(zm, ant_cells)
    with fo.FirstOrderLift(ir, rows, lift_where=where) as L1, S.Path() as p1:
        m.simulate(db, span, method="first_order", deviation=deviation)
    with fo.FirstOrderLift(ir, rows, lift_where=where, chain=True) as L2, S.Path() as p2:
        m.simulate(db, span, method="first_order", deviation=deviation, force_split_frames=True)
    if len(L2.caps) < 2:
        run.unknown(key, f"force_split_frames=True ran {len(L2.caps)} frame(s)")
        return
    single, split = L1.caps[0], _merge_caps(L2.caps)
    rs, rp = {n: i for i, n in enumerate(single["names"])}, {n: i for i, n in enumerate(split["names"])}
    b0 = single["base_columns"][0]
    claims = []
    for v in list(zm.tvars) + list(zm.mvars):
        for k in range(nsim):
            a, b = _cell_term(split["out"][rp[v], b0 + k]), _cell_term(single["out"][rs[v], b0 + k])
            if (a is None) != (b is None):
                run.counterexample(key, finding, f"{v}@{k} missing in one of the two simulations", dict(case, values={}))
                return
            if a is not None:
                claims.append((f"{v}@{k}", a - b))
    syms = dict(single["syms"]); syms.update(split["syms"])
    assume = _box(syms) + [p1.condition(), p2.condition()]
    r0, _ = run.check_sat(assume, timeout_ms=20000)
    if r0 != "sat" or not claims:
        run.unknown(key, f"reachability witness {r0} / {len(claims)} claims")
        return
    run.reach_ok += 1
    tol = Fraction(1, 10 ** 8)
    r, mdl = run.check_sat(assume + [z3.Or(*[z3.Or(c > tol, c < -tol) for _, c in claims])], timeout_ms=120000)
    if r == "unsat":
        if len(run.samples) < 12:
            run.samples.append({"obligation": key, "verdict": f"unsat: the {len(L2.caps)}-frame simulation equals the single-frame one (1e-8) for all inputs in the unit box", "claims": len(claims)})
        run.ok(key)
    elif r == "sat":
        big = [z3.Or(c > Fraction(1, 1000), c < -Fraction(1, 1000)) for _, c in claims]
        # the frames are cut where the CONCRETE run has a non-zero unanticipated shock: a witness must keep those shocks away from zero
        nz = [z3.Or(sy.t >= Fraction(1, 8), sy.t <= -Fraction(1, 8)) for n_, sy in syms.items() if n_.split("__")[0] in zm.tshocks]
        rb, mb = run.check_sat(assume + nz + [z3.Or(*big)], timeout_ms=60000)
        if rb == "sat":
            mdl = mb
        bad = []
        for labl, c in claims:
            d = mdl.eval(c, model_completion=True)
            fv = Fraction(d.numerator_as_long(), d.denominator_as_long())
            if abs(fv) > tol:
                bad.append((labl, float(fv)))
        vals = model_values(mdl, sorted(syms))
        run.counterexample(key, finding, f"split-frame simulation differs from the single-frame one: {bad[:4]}",
                           dict(case, bad=bad[:6], values={n: [v.numerator, v.denominator] for n, v in vals.items()}))
    else:
        run.unknown(key, f"solver {r}")


def equations_hold_history(run, ir, zm, deviation, nsim, horizons):
    """a HISTORY of simulations on ONE solved model object (growing and shrinking anticipated-shock horizons): state kept
    between simulations (cached forward expansions) must not change any of them"""
    key = f"history:{zm.name}:dev={deviation}:horizons={horizons}"
    finding = f"first_order:history:{zm.name}"
    m = fo.build_model(ir, zm)
    maxlead = 2 if "lead2" in zm.tags else 1
    checked = list(range(0, nsim - maxlead))
    for step, ant_ks in enumerate(horizons):
        case = dict(kind="history", model=zm.name, deviation=deviation, nsim=nsim, horizons=[list(h) for h in horizons], step=step)
        _m, db, span, ant_cells, steady = _setup(ir, zm, nsim, 0, deviation, model=m, ant_ks=set(ant_ks))
        with fo.FirstOrderLift(ir, _lift_rows(zm), lift_where=_where(zm, ant_cells)) as L, S.Path() as path:
            m.simulate(db, span, method="first_order", deviation=deviation)
        cap = L.caps[0]
        claims = _residual_claims(zm, cap, nsim, checked, deviation, steady)
        v = _decide_path(run, f"{key}:step{step}", zm, cap, path, claims, case, finding)
        if v == "violated":
            return
        if v != "ok":
            run.unknown(key, f"step {step}: {v}")
            return
    run.ok(key)


def level_is_steady_plus_deviation(run, ir, zm, nsim):
    key = f"level=steady+deviation:{zm.name}:nsim={nsim}"
    finding = f"first_order:level_vs_deviation:{zm.name}"
    case = dict(kind="level", model=zm.name, nsim=nsim)
    m, db, span, ant_cells, (steady, _ch) = _setup(ir, zm, nsim, 0, True)
    if zm.steady:
        for k, v in zm.steady.items():
            if abs(steady[k] - float(v)) > 1e-9:
                run.counterexample(key, f"steady:{zm.name}", f"reported steady level of {k} is {steady[k]}, closed form {float(v)}", case, replay=False)
                return
    rows = _lift_rows(zm)
    with fo.FirstOrderLift(ir, rows, lift_where=_where(zm, ant_cells)) as L:
        m.simulate(db, span, method="first_order", deviation=True)
    dev = L.caps[0]
    shift = {n: S.float_fraction(steady[n]) for n in list(zm.tvars) + list(zm.mvars) if n in steady}
    with fo.FirstOrderLift(ir, rows, lift_where=_where(zm, ant_cells), shift=shift) as L2:
        m.simulate(db, span, method="first_order", deviation=False)
    lev = L2.caps[0]
    row = {n: i for i, n in enumerate(dev["names"])}
    claims = []
    for n in list(zm.tvars) + list(zm.mvars):
        for t in dev["base_columns"]:
            a, b = _cell_term(lev["out"][row[n], t]), _cell_term(dev["out"][row[n], t])
            if a is None or b is None:
                if (a is None) != (b is None):
                    run.counterexample(key, finding, f"{n}@{t} missing in one of the two simulations", case, replay=False)
                    return
                continue
            claims.append((f"{n}@{t}", a - S.rv(shift.get(n, 0)) - b))
    syms = dict(dev["syms"]); syms.update(lev["syms"])
    assume = _box(syms)
    viol = [z3.Or(c > TOL, c < -TOL) for _, c in claims]
    r, mdl = run.check_sat(assume + [z3.Or(*viol)], timeout_ms=120000)
    if r == "unsat":
        run.reach_ok += 1
        if len(run.samples) < 12:
            run.samples.append({"obligation": key, "verdict": "unsat", "claims": len(claims), "example": str(z3.simplify(claims[0][1]))[:200]})
        run.ok(key)
    elif r == "sat":
        names = sorted(syms)
        vals = model_values(mdl, names)
        bad = [lab for lab, c in claims if abs(Fraction(mdl.eval(c, model_completion=True).numerator_as_long(), mdl.eval(c, model_completion=True).denominator_as_long())) > TOL]
        run.counterexample(key, finding, f"level simulation != steady + deviation simulation at {bad[:4]}",
                           dict(case, bad=bad[:6], values={n: [v.numerator, v.denominator] for n, v in vals.items()}))
    else:
        run.unknown(key, f"solver {r}")


def non_explosive(run, ir, zm, horizon):
    """zero-shock continuation contracts: every cell `horizon` periods ahead is bounded by 1/2 for all initial states in the unit box"""
    key = f"contraction:{zm.name}:h={horizon}"
    finding = f"first_order:explosive:{zm.name}"
    case = dict(kind="contraction", model=zm.name, horizon=horizon)
    m, db, span, ant_cells, _st = _setup(ir, zm, horizon, 0, True, zero_shocks=True)
    # no shocks at all: only initial conditions are symbolic
    with fo.FirstOrderLift(ir, set(zm.tvars)) as L:
        m.simulate(db, span, method="first_order", deviation=True)
    cap = L.caps[0]
    row = {n: i for i, n in enumerate(cap["names"])}
    # shocks in db are non-zero floats: rebuild with zero shocks
    last = cap["base_columns"][-1]
    claims = []
    for n in zm.tvars:
        c = _cell_term(cap["out"][row[n], last])
        claims.append((f"{n}@{last}", c))
    syms = cap["syms"]
    assume = _box(syms)
    half = Fraction(1, 2)
    viol = [z3.Or(c > half, c < -half) for _, c in claims]
    r, mdl = run.check_sat(assume + [z3.Or(*viol)], timeout_ms=120000)
    if r == "unsat":
        run.reach_ok += 1
        if len(run.samples) < 12:
            run.samples.append({"obligation": key, "verdict": "unsat: |x_T| <= 1/2 for all initial conditions in the unit box, zero shocks", "horizon": horizon})
        run.ok(key)
    elif r == "sat":
        vals = model_values(mdl, sorted(syms))
        run.counterexample(key, finding, f"state {horizon} periods ahead exceeds 1/2 of the unit box: explosive or non-contracting path",
                           dict(case, values={n: [v.numerator, v.denominator] for n, v in vals.items()}))
    else:
        run.unknown(key, f"solver {r}")


# ------------------------------------------------------------------------------------------
# root predicates extracted from the current source of Solution.from_system
# ------------------------------------------------------------------------------------------

def root_predicates(run):
    key = "root_predicates"
    from irispie.fords import solutions as sol
    src = textwrap.dedent(inspect.getsource(sol.Solution.from_system.__func__))
    tree = ast.parse(src)
    wanted = ("is_alpha_beta_stable_or_unit_root", "is_stable_root", "is_unit_root")
    found = {}
    for node in ast.walk(tree):
        if isinstance(node, ast.FunctionDef) and node.name in wanted:
            found[node.name] = node
    if set(found) != set(wanted):
        run.unknown(key, f"predicates not found in Solution.from_system: {sorted(found)}")
        return
    tol = S.sym("tol", Fraction(1, 100))
    ns = {"tolerance": tol, "abs": abs}
    for name, node in found.items():
        mod = ast.Module(body=[node], type_ignores=[])
        ast.fix_missing_locations(mod)
        code = compile(mod, f"<{name} from fords/solutions.py>", "exec")
        exec(code, ns)
    ra, rb = S.sym("abs_alpha", 2), S.sym("abs_beta", 1)       # |alpha| > 0, |beta| >= 0; root = beta/alpha, |root| = rb/ra
    root = rb / ra
    try:
        qz = ns["is_alpha_beta_stable_or_unit_root"](ra, rb)
        st = ns["is_stable_root"](root)
        with S.Path() as p:      # `a and b` in is_unit_root branches on the first conjunct
            un_first = ns["is_unit_root"](root)
        # explore the other side of the `and`
    except Exception as exc:
        run.error(key, exc)
        return
    # is_unit_root uses `and`, which calls bool(): rebuild its meaning from both sides of the branch
    conds = p.conds
    dom = [ra.t > 0, rb.t >= 0, tol.t > 0, tol.t < 1]
    if conds:
        c0, taken = conds[0]
        # Python `x and y` returns y when x is true, x (false) otherwise
        un_t = z3.And(c0, un_first.t) if taken else None
        if un_t is None:
            # shadow took the false side; re-run with a shadow on the true side
            ra2, rb2 = S.SReal(ra.t, Fraction(1)), S.SReal(rb.t, Fraction(1))
            with S.Path() as p2:
                un2 = ns["is_unit_root"](rb2 / ra2)
            un_t = z3.And(p2.conds[0][0], un2.t)
    else:
        un_t = un_first.t
    unstable = z3.And(z3.Not(st.t), z3.Not(un_t))
    r = root.t
    claims = {
        "exactly_one_class": z3.And(z3.Or(st.t, un_t, unstable), z3.Not(z3.And(st.t, un_t))),
        "qz_partition_iff_not_unstable": qz.t == z3.Not(unstable),
        "classes_ordered_by_modulus": z3.And(z3.Implies(st.t, r < 1), z3.Implies(unstable, r > 1),
                                             z3.Implies(un_t, z3.And(r >= 1 - tol.t, r < 1 + tol.t))),
        "exact_unit_root_is_unit": z3.Implies(r == 1, un_t),
    }
    r0, _ = run.check_sat(dom)
    if r0 != "sat":
        run.unknown(key, "domain unsat")
        return
    run.reach_ok += 1
    for name, cl in claims.items():
        k = f"{key}:{name}"
        res, mdl = run.prove(k, cl, dom, timeout_ms=30000, nl=True,
                             sample={"obligation": k, "claim": str(cl)[:200], "domain": "abs_alpha>0, abs_beta>=0, 0<tol<1"})
        if res == "unsat":
            run.ok(k)
        elif res == "sat":
            run.counterexample(k, f"solutions:root_predicates:{name}", f"root predicates inconsistent: {mdl}",
                               dict(kind="root_predicates", claim=name, model=str(mdl)), replay=False)
        else:
            run.unknown(k, res)


def unstable_count(run, ir, zm):
    """concrete cross-check (reported separately): number of UNSTABLE roots == number of forward-looking variables"""
    key = f"unstable_count:{zm.name}"
    m = fo.build_model(ir, zm)
    st = m.get_eigenvalues_stability()
    n_unst = sum(1 for s in st if "UNSTABLE" in str(s))
    n_unit = sum(1 for s in st if "UNIT" in str(s))
    run.extra["executed_obligations"] = run.extra.get("executed_obligations", 0) + 1
    if n_unst == zm.forward and n_unit == zm.unit_roots:
        run.ok(key, nontrivial=False)
    else:
        run.counterexample(key, f"solutions:unstable_count:{zm.name}", f"{n_unst} unstable / {n_unit} unit roots reported, expected {zm.forward} / {zm.unit_roots}",
                           dict(kind="unstable_count", model=zm.name), replay=True)


def main(run):
    ir = load_irispie()
    run.extra["proxy_selftest_checks"] = npproxy.selftest()
    run.functions_encoded += [
        "fords.simulators.{simulate_frame,simulate_flat,_simulate_measurement,get_init_xi,zero_false_init_xi}",
        "fords.shock_simulators.{_simulate_anticipated_shock_values,extract_shock_values}", "fords.solutions.Solution.expand_square_solution/_get_solution_expansion",
        "dataslates Dataslate.logarithmize/delogarithmize/get_data_variant (inside the kernel)", "fords.solutions.Solution.from_system: root predicates (ast-extracted)",
        "reached through Simultaneous.from_string/steady/solve/simulate(method='first_order')",
    ]
    run.bounds["structures"] = ("zoo of 5 linear models (<=3 transition variables, lags<=2, leads<=2, measurement block, constants, unit root); "
                                "deviation in {True, False}; histories of 3 simulations on one model object with growing/shrinking anticipated horizons; simulated span 5..6 periods, equations checked where all leads lie inside the span; "
                                "anticipated shocks symbolic in the first 2 periods of the first shock (concolic paths over zero/non-zero), "
                                "all unanticipated shocks, measurement shocks and initial conditions symbolic")
    run.bounds["values"] = "every lifted cell in [-1, 1]; residual tolerance 1e-9 (solution matrices are float-born); exact rational arithmetic in the solver"
    run.stubs += ["Solution.from_system (ordqz/Schur/lstsq, LAPACK) runs concretely per zoo model: it builds the program, not the input"]
    run.assumptions += ["cells are mathematical reals; the float solution matrices enter as the exact rationals they denote",
                        "leads in the period-t equation are the same path's terms with unanticipated shocks dated after t set to zero",
                        "the shock in an equation is the sum of its unanticipated and anticipated (ant_) component"]
    run.outside += ["that ordqz/schur produce the decomposition (LAPACK)", "models outside the zoo; linearised (non-linear) models other than the exactly log-linear growth model growth_loglin (see C06 for non-linear simulation)",
                    "count of unstable roots: concrete cross-check on the zoo only"]
    models = zoo.zoo() + [MLEAD]
    quick = run.tier == "quick"
    for zm in models:
        try:
            unstable_count(run, ir, zm)
        except Exception as exc:
            run.error(f"unstable_count:{zm.name}", exc)
        for deviation in (True, False):
            if quick and not deviation and zm.name in ("lead2", "ar2m"):
                continue
            nsim = 5 if quick else 6
            n_ant = 2 if quick else 3
            # (span, number of leading periods with an anticipated shock): the main structure; anticipated shocks in EVERY period incl. the
            # last one (a one-period span leaves no period whose leads are inside the span, so it has no checkable equation)
            structs = [(nsim, n_ant)]
            if zm.tshocks and deviation:
                structs += [(3, 3)]
            for (ns, na) in structs:
                try:
                    equations_hold(run, ir, zm, deviation, ns, na)
                except S.SymbolicBranchError as exc:
                    run.unknown(f"equations:{zm.name}:dev={deviation}:{ns}:{na}", exc)
                except Exception as exc:
                    run.error(f"equations:{zm.name}:dev={deviation}:{ns}:{na}", exc)
        if zm.name == "mlead":
            continue          # known finding first_order:equations:mlead: every other obligation on this model fails for the same reason
        if zm.tshocks:
            for deviation in ((True,) if quick else (True, False)):
                try:
                    span_extension(run, ir, zm, deviation, 3)
                except S.SymbolicBranchError as exc:
                    run.unknown(f"span_extension:{zm.name}:dev={deviation}", exc)
                except Exception as exc:
                    run.error(f"span_extension:{zm.name}:dev={deviation}", exc)
        if zm.tshocks and zm.name in ("nk3", "pc_const", "lead2"):
            for deviation in ((True,) if quick else (True, False)):
                try:
                    split_equals_single(run, ir, zm, deviation)
                except S.SymbolicBranchError as exc:
                    run.unknown(f"split_frames:{zm.name}:dev={deviation}", exc)
                except Exception as exc:
                    run.error(f"split_frames:{zm.name}:dev={deviation}", exc)
        if zm.tshocks and (not quick or zm.name in ("nk3", "pc_const")):
            for hz in (((1,), (0, 3), (2,)), ((0,), (0, 1, 2, 3), (1, 3))):
                try:
                    equations_hold_history(run, ir, zm, True, 6, hz)
                except S.SymbolicBranchError as exc:
                    run.unknown(f"history:{zm.name}:{hz}", exc)
                except Exception as exc:
                    run.error(f"history:{zm.name}:{hz}", exc)
        if "unit_root" not in zm.tags:
            try:
                level_is_steady_plus_deviation(run, ir, zm, 3 if quick else 5)
            except Exception as exc:
                run.error(f"level=steady+deviation:{zm.name}", exc)
            try:
                non_explosive(run, ir, zm, 40)
            except Exception as exc:
                run.error(f"contraction:{zm.name}", exc)
    for deviation in (False, True):
        try:
            growth_equations(run, ir, deviation)
        except S.SymbolicBranchError as exc:
            run.unknown(f"equations:growth_loglin:dev={deviation}", exc)
        except Exception as exc:
            run.error(f"equations:growth_loglin:dev={deviation}", exc)
    try:
        root_predicates(run)
    except Exception as exc:
        run.error("root_predicates", exc)
    run.extra["exhaustive"] = True


# ------------------------------------------------------------------------------------------
def replay(case):
    ir = load_irispie()
    kind = case["kind"]
    zm = (MLEAD if case.get("model") == "mlead" else zoo.by_name(case["model"])) if "model" in case else None
    vals = {k: float(Fraction(a, b)) for k, (a, b) in case.get("values", {}).items()}
    if kind == "growth":
        return _growth_replay(ir, case, vals)
    if kind == "unstable_count":
        m = fo.build_model(ir, zm)
        st = m.get_eigenvalues_stability()
        n_unst = sum(1 for s in st if "UNSTABLE" in str(s))
        n_unit = sum(1 for s in st if "UNIT" in str(s))
        return (n_unst != zm.forward or n_unit != zm.unit_roots), f"{n_unst} unstable, {n_unit} unit"
    if kind == "split_frames":
        deviation, nsim = case["deviation"], case["nsim"]
        m, db, span, ant_cells, steady = _setup(ir, zm, nsim, 0, deviation, values=vals, ant_ks={nsim - 1, 1})
        o1 = m.simulate(db, span, method="first_order", deviation=deviation)
        o2 = m.simulate(db, span, method="first_order", deviation=deviation, force_split_frames=True)
        worst, msg = 0.0, "split-frame and single-frame simulations agree"
        for v in list(zm.tvars) + list(zm.mvars):
            for k in range(nsim):
                a = float(np.asarray(o1[v].get_data(span.start + k)).reshape(-1)[0])
                b = float(np.asarray(o2[v].get_data(span.start + k)).reshape(-1)[0])
                if math.isnan(a) and math.isnan(b):
                    continue
                d = abs(a - b)
                if not d <= worst:
                    worst, msg = (d if d == d else float("inf")), f"{v}@{k}: single frame {a!r} vs split frames {b!r}"
        return worst > 1e-7, msg
    if kind == "span_extension":
        deviation, nsim = case["deviation"], case["nsim"]
        m, db_s, span_s, ant_s, steady = _setup(ir, zm, nsim, nsim, deviation, values=vals)
        _m, db_l, span_l, ant_l, _st = _setup(ir, zm, nsim + 2, nsim, deviation, values=vals, model=m)
        for n in set(zm.tshocks) | set(zm.mshocks):
            x = db_l[n].copy()
            for k in (nsim, nsim + 1):
                x[span_l.start + k] = 0.0
            db_l[n] = x
        o_s = m.simulate(db_s, span_s, method="first_order", deviation=deviation)
        o_l = m.simulate(db_l, span_l, method="first_order", deviation=deviation)
        worst, msg = 0.0, "the two simulations agree"
        for v in list(zm.tvars) + list(zm.mvars):
            for k in range(nsim):
                a = float(np.asarray(o_s[v].get_data(span_s.start + k)).reshape(-1)[0])
                b = float(np.asarray(o_l[v].get_data(span_s.start + k)).reshape(-1)[0])
                if math.isnan(a) and math.isnan(b):
                    continue
                d = abs(a - b)
                if not d <= worst:
                    worst, msg = (d if d == d else float("inf")), f"{v}@{k}: {a!r} over {nsim} periods vs {b!r} over {nsim + 2}"
        return worst > 1e-7, msg
    if kind == "history":
        # replay the same history of simulations on one model object; evaluate the oracle on the failing step
        deviation, nsim = case["deviation"], case["nsim"]
        m = fo.build_model(ir, zm)
        for step, ant_ks in enumerate(case["horizons"]):
            _m, db, span, ant_cells, (lv, ch) = _setup(ir, zm, nsim, 0, deviation, values=vals if step == case["step"] else None, model=m, ant_ks=set(ant_ks))
            if step < case["step"]:
                m.simulate(db, span, method="first_order", deviation=deviation)
                continue
            break
        case = dict(case, kind="equations", n_ant=0)
        kind = "equations_on_model"
    if kind in ("equations", "equations_on_model"):
        deviation, nsim, n_ant = case["deviation"], case["nsim"], case["n_ant"]
        if kind == "equations":
            m, db, span, ant_cells, (lv, ch) = _setup(ir, zm, nsim, n_ant, deviation, values=vals)
        start = span.start
        maxlead = 2 if "lead2" in zm.tags else 1
        checked = list(range(0, nsim - maxlead))
        worst, msg = 0.0, "all residuals ~ 0"
        # conditional expectation at k = the same simulation with unanticipated shocks after k removed
        for k in checked:
            db_k = db.copy()
            for s_ in zm.tshocks:
                ser = db_k[s_].copy()
                for j in range(k + 1, nsim):
                    ser[start + j] = 0.0
                db_k[s_] = ser
            out = m.simulate(db_k, span, method="first_order", deviation=deviation)

            def lookup(name, sh, k=k, out=out):
                if name in zm.params:
                    return float(zm.params[name])
                per = start + k + sh

                def get(nm):
                    if nm not in out:
                        return 0.0
                    v = float(np.asarray(out[nm].get_data(per)).reshape(-1)[0])
                    return v
                if name in zm.tshocks:
                    a_, b_ = get(name), get("ant_" + name)
                    return (0.0 if math.isnan(a_) else a_) + (0.0 if math.isnan(b_) else b_)
                if name in zm.mshocks:
                    a_ = get(name)
                    return 0.0 if math.isnan(a_) else a_
                v = get(name)
                if deviation:
                    v += lv.get(name, 0.0) + ch.get(name, 0.0) * (k + sh)
                return v
            for ei, src in enumerate(list(zm.teqs) + list(zm.meqs)):
                r = Equation(src).residual(lookup)
                if math.isnan(r):
                    continue
                if abs(r) > worst:
                    worst, msg = abs(r), f"equation {src!r} at offset {k}: residual {r!r}"
        return worst > 1e-7, msg
    if kind == "level":
        nsim = case["nsim"]
        m, db, span, ant_cells, (steady, ch) = _setup(ir, zm, nsim, 0, True, values=vals)
        dev = m.simulate(db, span, method="first_order", deviation=True)
        dbl = db.copy()
        for n in zm.tvars:
            dbl[n] = db[n] + steady[n]
        lev = m.simulate(dbl, span, method="first_order", deviation=False)
        worst, msg = 0.0, "level == steady + deviation"
        for n in list(zm.tvars) + list(zm.mvars):
            for per in span:
                a_ = float(np.asarray(lev[n].get_data(per)).reshape(-1)[0]) - steady[n]
                b_ = float(np.asarray(dev[n].get_data(per)).reshape(-1)[0])
                if abs(a_ - b_) > worst:
                    worst, msg = abs(a_ - b_), f"{n}[{per}]: level-steady {a_!r} vs deviation {b_!r}"
        return worst > 1e-7, msg
    if kind == "contraction":
        h = case["horizon"]
        m, db, span, ant_cells, _st = _setup(ir, zm, h, 0, True, values=vals, zero_shocks=True)
        out = m.simulate(db, span, method="first_order", deviation=True)
        worst = max(abs(float(np.asarray(out[n].get_data(span.end)).reshape(-1)[0])) for n in zm.tvars)
        return worst > 0.5, f"max |x| after {h} periods = {worst!r}"
    raise ValueError(kind)


if __name__ == "__main__":
    standard_main(PID, main, replay)
