"""
Loop-free integer model of the proleptic Gregorian calendar (Hinnant's civil_from_days / days_from_civil)
standing in for datetime.date and calendar.monthrange inside irispie.dates during symbolic execution.
A stub by documented contract: `validate()` compares it with the real datetime/calendar on every ordinal.
"""
import datetime as _real_dt
import calendar as _real_ca

MAXORD = 3652059          # datetime.date.max.toordinal()


def days_from_civil(y, m, d):
    y = y - (1 if m <= 2 else 0)
    era = y // 400
    yoe = y - era * 400
    mp = m - 3 if m > 2 else m + 9
    doy = (153 * mp + 2) // 5 + d - 1
    doe = yoe * 365 + yoe // 4 - yoe // 100 + doy
    return era * 146097 + doe - 719468 + 719163


def civil_from_days(n):
    z = n - 719163 + 719468
    era = z // 146097
    doe = z - era * 146097
    yoe = (doe - doe // 1460 + doe // 36524 - doe // 146096) // 365
    y = yoe + era * 400
    doy = doe - (365 * yoe + yoe // 4 - yoe // 100)
    mp = (5 * doy + 2) // 153
    d = doy - (153 * mp + 2) // 5 + 1
    m = mp + 3 if mp < 10 else mp - 9
    return (y + (1 if m <= 2 else 0), m, d)


def isleap(y):
    return y % 4 == 0 and (y % 100 != 0 or y % 400 == 0)


def days_in_month(y, m):
    if m == 2:
        return 29 if isleap(y) else 28
    if m == 4 or m == 6 or m == 9 or m == 11:
        return 30
    return 31


class date:
    __slots__ = ("year", "month", "day")
    max = None
    min = None

    def __init__(self, year, month, day):
        if not (1 <= year <= 9999 and 1 <= month <= 12 and 1 <= day <= days_in_month(year, month)):
            raise ValueError("date out of range")
        self.year, self.month, self.day = year, month, day

    @classmethod
    def fromordinal(cls, n):
        if not (1 <= n <= MAXORD):
            raise ValueError("ordinal out of range")
        y, m, d = civil_from_days(n)
        self = cls.__new__(cls)
        self.year, self.month, self.day = y, m, d
        return self

    def toordinal(self):
        return days_from_civil(self.year, self.month, self.day)

    def __sub__(self, other):
        raise TypeError("unsupported operand type(s) for -: 'date' and '%s'" % type(other).__name__)

    def __rsub__(self, other):
        raise TypeError("unsupported operand type(s) for -: '%s' and 'datetime.date'" % type(other).__name__)

    def __eq__(self, other):
        return isinstance(other, date) and (self.year, self.month, self.day) == (other.year, other.month, other.day)

    def __hash__(self):
        return hash((self.year, self.month, self.day))


class _DT:
    date = date


class _CA:
    @staticmethod
    def monthrange(year, month):
        if not 1 <= month <= 12:
            raise ValueError("bad month")
        return (0, days_in_month(year, month))      # weekday is not used by irispie.dates

    isleap = staticmethod(isleap)


dt_stub = _DT()
ca_stub = _CA()


def install(dates_module):
    dates_module._dt = dt_stub
    dates_module._ca = ca_stub


def validate(step=1):
    """stub == datetime.date / calendar.monthrange on every ordinal / every (year, month)"""
    n_checked = 0
    for n in range(1, MAXORD + 1, step):
        r = _real_dt.date.fromordinal(n)
        assert civil_from_days(n) == (r.year, r.month, r.day), n
        assert days_from_civil(r.year, r.month, r.day) == n, n
        n_checked += 1
    for y in range(1, 10000):
        for m in range(1, 13):
            assert _real_ca.monthrange(y, m)[1] == days_in_month(y, m), (y, m)
    return n_checked
