# CrossHair harnesses for C10: the pure-Python index kernel under every Series read and write
import sys, os
sys.path.insert(0, "/verif")
from xh import chfix
from irispie import dates as D
from irispie.series import main as SM


def _mk(s, flag):
    return None if flag else D.QuarterlyPeriod(s)


def date_positions(base: int, num_periods: int, d0: int, d1: int, d2: int, n0: bool, n1: bool, n2: bool) -> bool:
    """
    pre: 0 <= num_periods <= 6 and -8 <= d0 - base <= 12 and -8 <= d1 - base <= 12 and -8 <= d2 - base <= 12
    post: _
    """
    dates = (_mk(d0, n0), _mk(d1, n1), _mk(d2, n2))
    pos, add_before, add_after = SM._get_date_positions(dates, D.QuarterlyPeriod(base), num_periods)
    ok = len(pos) == 3 and add_before >= 0 and add_after >= 0
    rel = [None if f else d - base for d, f in ((d0, n0), (d1, n1), (d2, n2))]
    present = [r for r in rel if r is not None]
    i = 0
    while i < 3:
        if rel[i] is None:
            ok = ok and pos[i] is None
        else:
            # position = distance from the base plus the rows padded in front; inside the padded array
            ok = ok and pos[i] == rel[i] + add_before and 0 <= pos[i] < max(num_periods, 1) + add_before + add_after + (0 if num_periods else 0)
        i += 1
    if present:
        lo, hi = min(present), max(present)
        # padding is minimal
        ok = ok and add_before == max(-lo, 0) and add_after == max(hi - num_periods + 1, 0)
    else:
        ok = ok and add_before == 0
    return ok


def date_positions_int(base: int, num_periods: int, d0: int) -> bool:
    """
    pre: 0 <= num_periods <= 50 and -100 <= d0 - base <= 100
    post: _
    """
    pos, add_before, add_after = SM._get_date_positions((D.IntegerPeriod(d0),), D.IntegerPeriod(base), num_periods)
    r = d0 - base
    return pos == [r + add_before] and add_before == max(-r, 0) and add_after == max(r - num_periods + 1, 0)
