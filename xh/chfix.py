"""Harness-side workarounds needed to run CrossHair on irispie (DESIGN.md 2.1); no analysis semantics change."""
import sys
import tempfile
import warnings

tempfile.tempdir = "/tmp"          # dill probes the temp dir at import; CrossHair's audit wall blocks the probe
warnings.filterwarnings("ignore")
try:
    import crosshair.fnutil as _fu
    _orig = _fu.set_first_arg_type

    def _tolerant(sig, first_arg_type):
        # Period has zero-parameter pseudo-methods (_frequency(), time_period_arithmetics()): the class-contract
        # parser raises IndexError on them
        if not list(sig.parameters.values()):
            return sig
        return _orig(sig, first_arg_type)
    _fu.set_first_arg_type = _tolerant
except ImportError:      # plain replay process without crosshair
    pass
