"""
Run bookkeeping shared by all checks: solver queries with statistics, counterexample replay,
known findings, evidence file, exit codes (DESIGN.md section 4).

Exit codes: 0 = property held on everything explored (KNOWN-FINDING lines allowed)
            1 = VIOLATION (a float-replayed, reproducing counterexample not in known_findings.txt)
            3 = inconclusive / harness error (solver unknown, CrossHair not confirmed, model that
                does not replay, path bound hit) -- never reported as success
"""
from __future__ import annotations

import json
import os
import subprocess
import sys
import time
import traceback

import z3

VERIF = os.path.dirname(os.path.dirname(os.path.abspath(__file__)))
PY = "/verif/.venv/bin/python"      # the overlay venv always lives in /verif (snapshots run from other directories)


def load_known(pid):
    known, fixed = [], []
    path = os.path.join(VERIF, "known_findings.txt")
    if os.path.exists(path):
        with open(path) as _f:
            lines = _f.readlines()
        for line in lines:
            line = line.strip()
            if not line or line.startswith("#"):
                continue
            kind, _, rest = line.partition(":")
            rest = rest.strip()
            if not rest.startswith(f"property={pid} "):
                continue
            rest = rest[len(f"property={pid} "):]
            key, _, what = rest.partition(" ")
            (known if kind == "known" else fixed).append((key, what))
    return known, fixed


class Run:
    def __init__(self, pid, tier, level="model_checking", seed=None):
        self.pid = pid
        self.tier = tier
        self.level = level
        self.seed = int(os.environ.get("VERIF_SEED", "0") or 0) if seed is None else seed
        self.t0 = time.time()
        self.functions_encoded = []
        self.bounds = {}
        self.stubs = []
        self.assumptions = []
        self.outside = []
        self.q = {"unsat": 0, "sat": 0, "unknown": 0}
        self.solver_s = 0.0
        self.obligations = {}        # key -> status
        self.nontrivial = set()
        self.samples = []
        self.violations = []
        self.known_hits = []
        self.inconclusive = []
        self.errors = []
        self.extra = {}
        self.paths = 0
        self.known, self.fixed = load_known(pid)
        self.reach_ok = 0
        self.crosschecked = 0

    # ------------------------------------------------------------------ solver
    def check_sat(self, constraints, timeout_ms=60000, logic=None, tactic=None, nl=False):
        """raw satisfiability of a list of constraints; returns (status, model|None).
        nl=True: portfolio for non-linear real arithmetic -- the nlsat tactic first (only its `unsat` is accepted:
        it treats uninterpreted applications as opaque variables, which over-approximates the models), then the
        default solver for everything else."""
        if nl and not tactic and not logic:
            s = z3.Tactic("qfnra-nlsat").solver()
            s.set("timeout", int(min(timeout_ms, 15000)))
            for c in constraints:
                s.add(c)
            t = time.time()
            try:
                r = str(s.check())
            except z3.Z3Exception:
                r = "unknown"
            self.solver_s += time.time() - t
            if r == "unsat":
                self.q[r] = self.q.get(r, 0) + 1
                self.extra["unsat_by_nlsat_tactic"] = self.extra.get("unsat_by_nlsat_tactic", 0) + 1
                return r, None
        s = z3.SolverFor(logic) if logic else (z3.Tactic(tactic).solver() if tactic else z3.Solver())
        s.set("timeout", int(timeout_ms))
        for c in constraints:
            s.add(c)
        t = time.time()
        r = str(s.check())
        dt = time.time() - t
        self.solver_s += dt
        if dt > 5 and os.environ.get("VERIF_DEBUG"):
            print(f"SLOW-QUERY {dt:.1f}s {r} tag={getattr(self, 'tag', '')}", flush=True)
        self.q[r] = self.q.get(r, 0) + 1
        return r, (s.model() if r == "sat" else None)

    def prove(self, key, claim, assume=(), timeout_ms=60000, sample=None, nontrivial=True, logic=None, nl=False):
        """
        decide  assume => claim  for all values: query  assume AND NOT claim.
        returns ("unsat", None) when the claim holds, ("sat", model) with a counterexample,
        ("unknown", None) otherwise.  Book-keeping of the obligation is left to the caller
        through ok()/counterexample()/unknown() so that sat results can be replayed first.
        """
        if isinstance(claim, bool):
            claim = z3.BoolVal(claim)
        r, m = self.check_sat(list(assume) + [z3.Not(claim)], timeout_ms=timeout_ms, logic=logic, nl=nl)
        if sample is not None and len(self.samples) < 12 and r == "unsat":
            self.samples.append({"obligation": key, "verdict": "unsat (holds for all values)", "query": sample})
        return r, m

    def ok(self, key, nontrivial=True):
        self.obligations[key] = "discharged"
        if nontrivial:
            self.nontrivial.add(key)

    def unknown(self, key, why):
        self.obligations[key] = "inconclusive"
        self.inconclusive.append({"obligation": key, "why": str(why)[:400]})
        print(f"INCONCLUSIVE property={self.pid} obligation={key}: {str(why)[:300]}", flush=True)

    def error(self, key, exc):
        tb = "".join(traceback.format_exception(type(exc), exc, exc.__traceback__))[-1500:]
        self.obligations[key] = "error"
        self.errors.append({"obligation": key, "error": tb})
        print(f"HARNESS-ERROR property={self.pid} obligation={key}: {type(exc).__name__}: {str(exc)[:300]}", flush=True)

    # --------------------------------------------------------------- violations
    def counterexample(self, key, finding_key, what, case, replay=True):
        """
        A solver model (or a concrete failure of an executed obligation) for obligation `key`.
        `case` is a JSON-serialisable description that `python -m checks.<pid> --replay <file>`
        re-runs against the real code in a clean process without proxies.
        """
        os.makedirs(os.path.join(VERIF, "replays"), exist_ok=True)
        safe = "".join(ch if ch.isalnum() or ch in "-_." else "_" for ch in key)[:120]
        path = os.path.join(VERIF, "replays", f"{self.pid}_{safe}.json")
        case = dict(case)
        case.setdefault("property", self.pid)
        case.setdefault("obligation", key)
        case.setdefault("finding_key", finding_key)
        case.setdefault("what", what)
        with open(path, "w") as f:
            json.dump(case, f, indent=1, default=str)
        ndup = sum(1 for v in self.violations + self.known_hits if v["finding_key"] == finding_key)
        if replay and (ndup >= 3 or len(self.violations) >= 8):
            # the same finding was already replayed and confirmed three times on other structures
            self.obligations[key] = "violated-duplicate"
            self.extra["duplicates_not_replayed"] = self.extra.get("duplicates_not_replayed", 0) + 1
            return True
        if replay:
            try:
                p = subprocess.run([PY, "-m", f"checks.{self.pid}", "--replay", path], cwd=VERIF,
                                   capture_output=True, text=True, timeout=600)
                rc, out = p.returncode, (p.stdout + p.stderr)[-1500:]
            except subprocess.TimeoutExpired:
                rc, out = 99, "replay timed out"
            if rc == 0:
                self.unknown(key, f"solver model does not reproduce on the real float code ({what}); replay={path}; {out[-300:]}")
                return False
            if rc != 1:
                self.unknown(key, f"replay harness failed rc={rc}: {out[-400:]}")
                return False
        for k, desc in self.known:
            if k == finding_key:
                self.known_hits.append({"finding_key": finding_key, "what": what, "replay": path})
                self.obligations[key] = "known-finding"
                print(f"KNOWN-FINDING: property={self.pid} {finding_key} {what}", flush=True)
                return True
        self.obligations[key] = "violated"
        self.violations.append({"obligation": key, "finding_key": finding_key, "what": what, "replay": path})
        print(f"VIOLATION property={self.pid} replay={path}", flush=True)
        print(f"  obligation={key} finding_key={finding_key}: {what}", flush=True)
        return True

    # ------------------------------------------------------------------ finish
    def finish(self):
        wall = time.time() - self.t0
        n_ob = len(self.obligations)
        n_dis = sum(1 for v in self.obligations.values() if v == "discharged")
        cov = {
            "evaluations": int(sum(self.q.values()) + self.extra.get("conditions_run", 0) + self.extra.get("executed_obligations", 0)),
            "distinct_nontrivial": len(self.nontrivial),
            "rule": self.extra.pop("rule", "one evaluation = one SMT query (or CrossHair condition) over all values of the lifted "
                                    "cells on one enumerated structure; non-trivial = the obligation's term contained at least "
                                    "one symbolic cell and its reachability witness was satisfiable; distinct = distinct obligation key"),
            "samples": self.samples[:12] or [{"note": "no sample recorded"}],
            "obligations": n_ob,
            "discharged": n_dis,
            "exhaustive": bool(self.extra.pop("exhaustive", False)),
            "functions_encoded": self.functions_encoded,
            "bounds": self.bounds,
            "outside_bounds": self.outside,
            "stubs_and_assumptions": self.stubs,
            "queries": dict(self.q),
            "paths": self.paths,
            "solver_s": round(self.solver_s, 3),
            "solver_versions": {"z3": z3.get_version_string()},
            "reachability_witnesses_ok": self.reach_ok,
            "known_findings_hit": self.known_hits,
            "inconclusive": self.inconclusive[:20],
            "errors": self.errors[:10],
            "violations": self.violations[:20],
        }
        cov.update(self.extra)
        ev = {
            "property_id": self.pid,
            "tier": self.tier,
            "seed": self.seed,
            "level": self.level,
            "coverage": cov,
            "assumptions": self.assumptions,
            "wall_s": round(wall, 2),
            "violations": len(self.violations),
        }
        os.makedirs(os.path.join(VERIF, "evidence"), exist_ok=True)
        with open(os.path.join(VERIF, "evidence", f"{self.pid}.json"), "w") as f:
            json.dump(ev, f, indent=1, default=str)
        try:
            import jsonschema
            with open("/root/.vp/EVIDENCE.schema.json") as _f:
                jsonschema.validate(ev, json.load(_f))
        except ImportError:
            pass
        except Exception as exc:
            print(f"HARNESS-ERROR evidence file does not validate: {str(exc)[:300]}", flush=True)
            self.errors.append({"obligation": "evidence", "error": str(exc)[:300]})
        print(f"[{self.pid}] tier={self.tier} obligations={n_ob} discharged={n_dis} known={len(self.known_hits)} "
              f"violations={len(self.violations)} inconclusive={len(self.inconclusive)} errors={len(self.errors)} "
              f"queries={self.q} solver_s={self.solver_s:.1f} wall_s={wall:.1f}", flush=True)
        if self.violations:
            code = 1
        elif self.inconclusive or self.errors or n_ob == 0:
            code = 3
        else:
            code = 0
        sys.stdout.flush()
        sys.exit(code)


def standard_main(pid, run_fn, replay_fn):
    """common CLI: --tier quick|thorough | --replay PATH"""
    import argparse
    ap = argparse.ArgumentParser()
    ap.add_argument("--tier", default=os.environ.get("VERIF_TIER", "quick"))
    ap.add_argument("--replay", default=None)
    a = ap.parse_args()
    if a.replay:
        case = json.load(open(a.replay))
        reproduced, msg = replay_fn(case)
        print(("REPRODUCED: " if reproduced else "NOT REPRODUCED: ") + str(msg))
        sys.exit(1 if reproduced else 0)
    tier = a.tier if a.tier in ("quick", "thorough") else "quick"
    run = Run(pid, tier)
    try:
        run_fn(run)
    except SystemExit:
        raise
    except Exception as exc:   # harness failure: never success
        run.error("harness", exc)
    run.finish()
