"""
API-level Kalman lifting (Simultaneous.kalman_filter) and an independent batch Gaussian-conditioning oracle.

Lifting: fords.kalmans.Dataslate is replaced by a wrapper whose from_databox_for_slatable symbolises the
measurement-variable rows (one symbol per observed cell) and whose nan_from_* constructors return object-dtype
slates for the output stores.  std / parameter rows stay concrete, so innovation covariances, gains and
determinants are concrete and LAPACK inv/det run on them through ground-concretising shims.
"""
from __future__ import annotations

import math
from fractions import Fraction

import numpy as np

from . import sreal as S
from . import npproxy
from .lift import lift_matrix


def _ground(a):
    a = np.asarray(a)
    if a.dtype != object:
        return a
    return np.array(a.tolist(), dtype=float).reshape(a.shape)       # raises if a symbolic entry is present


class KalmanLift:
    def __init__(self, ir, lift_rows, values=None, shift=None, override=None, label0=0):
        from irispie.fords import kalmans as kk, covariances as cv, initializers as ini
        from irispie.simultaneous import _kalmans as sk
        import irispie.series.main as sm
        import irispie.series._elementwise as se
        self.se = se            # Series.exp()/log() of the output of models with log-variables (object data holding plain NaN floats)
        self.ir, self.kk, self.cv, self.sk, self.sm, self.ini = ir, kk, cv, sk, sm, ini
        self.lift_rows = set(lift_rows)
        self.values = values
        self.shift = shift or {}
        self.override = override or {}
        self.cap = {}
        self.caches = []

    def __enter__(self):
        kk = self.kk
        RealDS = kk.Dataslate
        outer = self

        def objectify(ds, lift=False):
            names = tuple(ds.names)
            for v in ds._variants:
                if lift:
                    obj, syms = lift_matrix(v.data, names, where=lambda nm, j: nm in outer.lift_rows, values=outer.values)
                    for i, nm in enumerate(names):
                        c = outer.shift.get(nm)
                        for j in range(obj.shape[1]):
                            if (nm, j) in outer.override and not (isinstance(obj[i, j], float) and math.isnan(obj[i, j])):
                                obj[i, j] = outer.override[(nm, j)]
                            elif c is not None and isinstance(obj[i, j], S.SReal):
                                obj[i, j] = obj[i, j] + c
                    outer.cap.setdefault("syms", {}).update(syms)
                    outer.cap["names"] = names
                    outer.cap["inp"] = obj.copy()
                    outer.cap["periods"] = tuple(ds.periods)
                else:
                    obj = v.data.astype(object)
                v.data = obj
            return ds

        class LiftDS:
            def __getattr__(self, n):
                return getattr(RealDS, n)

            def from_databox_for_slatable(self, *a, **k):
                return objectify(RealDS.from_databox_for_slatable(*a, **k), lift=True)

            def nan_from_template(self, *a, **k):
                return objectify(RealDS.nan_from_template(*a, **k))

            def nan_from_names_periods(self, *a, **k):
                return objectify(RealDS.nan_from_names_periods(*a, **k))
        real_predict = kk.predict

        def predict(*a, **k):
            c = real_predict(*a, **k)
            outer.caches.append(c)
            return c
        def lstsq(A, b, rcond=None):
            # least squares with a CONCRETE matrix and a symbolic right-hand side: x = pinv(A) b (minimum-norm solution, linear in b)
            b_arr = np.asarray(b)
            if b_arr.dtype != object or not S.has_symbol(b_arr):
                return np.linalg.lstsq(_ground(A), _ground(b_arr), rcond=rcond)
            return np.linalg.pinv(_ground(A)) @ b_arr, None, None, None
        la = npproxy.SubProxy(np.linalg, {"det": lambda a: np.linalg.det(_ground(a)), "inv": lambda a: np.linalg.inv(_ground(a)), "lstsq": lstsq})
        self.proxy = npproxy.Proxy(linalg=la)
        real_check = kk._check_singularity
        extra = [(kk, "Dataslate", LiftDS()), (kk, "predict", predict),
                 (kk, "_INVERSE_FUNCTION", dict(kk._INVERSE_FUNCTION, regular=lambda F: np.linalg.inv(_ground(F)))),
                 # the rank test (LAPACK svd) sees the concrete covariance matrix, as the inverse does
                 (kk, "_check_singularity", lambda F, *a, **k: real_check(_ground(F), *a, **k))]
        self._ctx = npproxy.installed(self.proxy, kk, self.sk, self.cv, self.sm, self.se, extra=extra)
        self._ctx.__enter__()
        self._prev_float = S.ALLOW_FLOAT[0]
        S.ALLOW_FLOAT[0] = True
        return self

    def __exit__(self, *exc):
        S.ALLOW_FLOAT[0] = self._prev_float
        self._ctx.__exit__(*exc)
        return False


def series_cells(series, start, n):
    """list of the first-variant cells of an (object-data) Series for periods start..start+n-1 (NaN when outside)"""
    out = []
    for k in range(n):
        per = start + k
        if series.start is None or per < series.start or per > series.end:
            out.append(float("nan"))
            continue
        out.append(series.data[per - series.start, 0])
    return out


# ------------------------------------------------------------------------------------------
# batch oracle: exact Gaussian conditioning on the unrolled state space (independent of the recursions)
# ------------------------------------------------------------------------------------------

class BatchOracle:
    """
    xi_t = T xi_{t-1} + K + P u_t,  y_t = Z xi_t + D + H w_t,  xi_0 ~ N(mu0, S0) stationary,
    u_t ~ N(0, diag(su)), w_t ~ N(0, diag(sw)).  eps = (xi_0 - mu0, u_1..u_T, w_1..w_T).
    """

    def __init__(self, T, P, K, Z, H, D, su, sw, nper, unit_roots=0, su_t=None, sw_t=None):
        """su_t / sw_t: optional per-period stds, arrays (nu, nper) / (nw, nper) (time-varying stds supplied as data); the unconditional
        initial distribution is built from the model's own stds su, as irispie does"""
        import scipy.linalg as sla
        T, P, K, Z, H, D = (np.array(x, dtype=float) for x in (T, P, K, Z, H, D))
        self.n, self.nu, self.nw, self.ny, self.nper = T.shape[0], P.shape[1], H.shape[1], Z.shape[0], nper
        n, nu, nw = self.n, self.nu, self.nw
        su, sw = np.asarray(su, dtype=float), np.asarray(sw, dtype=float)
        Su = np.diag(su ** 2) if nu else np.zeros((0, 0))
        Sw = np.diag(sw ** 2) if nw else np.zeros((0, 0))
        if not unit_roots:
            self.mu0 = np.linalg.solve(np.eye(n) - T, K)
            self.S0 = sla.solve_discrete_lyapunov(T, P @ Su @ P.T)
            self.E = np.zeros((n, 0))
        else:
            # xi_0 = E delta + U2 a:  E spans the T-invariant subspace of the unit eigenvalue, delta is a FIXED UNKNOWN; the
            # complementary coordinates a = U2' xi (U2 = orthonormal complement of E: the stable block of the triangular state,
            # autonomous because U2' T = (U2' T U2) U2') start from their own unconditional distribution, uncorrelated with delta.
            # Computed here from the null space of T - I (SVD), not from irispie's Schur form.
            Uf, sv, Vt = np.linalg.svd(T - np.eye(n))
            if int((sv < 1e-9).sum()) != unit_roots:
                raise ValueError(f"BatchOracle: expected {unit_roots} unit roots, singular values of T-I {sv}")
            E = Vt[n - unit_roots:, :].T                   # right null space: T E = E
            Q, _ = np.linalg.qr(np.hstack([E, np.eye(n)]))
            U2 = Q[:, unit_roots:n]
            if np.abs(U2.T @ E).max() > 1e-9 or np.abs(U2.T @ T @ E).max() > 1e-9:
                raise ValueError("BatchOracle: complement of the unit-root subspace is not autonomous")
            A22, k2, P2 = U2.T @ T @ U2, U2.T @ K, U2.T @ P
            if np.abs(np.linalg.eigvals(A22)).max() >= 1 - 1e-9:
                raise ValueError("BatchOracle: the complementary block is not stable")
            mua = np.linalg.solve(np.eye(n - unit_roots) - A22, k2)
            cova = sla.solve_discrete_lyapunov(A22, P2 @ Su @ P2.T)
            self.mu0 = U2 @ mua
            self.S0 = U2 @ cova @ U2.T
            self.E = E
        ne = n + nper * nu + nper * nw
        Var = np.zeros((ne, ne))
        Var[:n, :n] = self.S0
        for t in range(nper):
            a = n + t * nu
            Var[a:a + nu, a:a + nu] = Su if su_t is None else np.diag(np.asarray(su_t, dtype=float)[:, t] ** 2)
            b = n + nper * nu + t * nw
            Var[b:b + nw, b:b + nw] = Sw if sw_t is None else np.diag(np.asarray(sw_t, dtype=float)[:, t] ** 2)
        self.Var = Var
        A = np.zeros((n, ne)); A[:, :n] = np.eye(n)
        mu = self.mu0.copy()
        self.A, self.mu, self.Y, self.muy, self.U, self.W = [], [], [], [], [], []
        self.Dx, self.Dy = [], []          # sensitivities of xi_t and y_t to the fixed unknown delta
        Dcur = self.E
        for t in range(nper):
            Dcur = T @ Dcur
            self.Dx.append(Dcur); self.Dy.append(Z @ Dcur)
        for t in range(nper):
            Sel_u = np.zeros((nu, ne)); Sel_u[:, n + t * nu:n + (t + 1) * nu] = np.eye(nu)
            Sel_w = np.zeros((nw, ne)); Sel_w[:, n + nper * nu + t * nw:n + nper * nu + (t + 1) * nw] = np.eye(nw)
            A = T @ A + P @ Sel_u
            mu = T @ mu + K
            self.A.append(A); self.mu.append(mu)
            self.Y.append(Z @ A + H @ Sel_w); self.muy.append(Z @ mu + D)
            self.U.append(Sel_u); self.W.append(Sel_w)

    def condition(self, obs):
        """obs: list of (y row, period).  Returns (Ay, my, Syy_inv, Syy)"""
        if not obs:
            return np.zeros((0, self.Var.shape[0])), np.zeros((0,)), np.zeros((0, 0)), np.zeros((0, 0))
        Ay = np.vstack([self.Y[t][r:r + 1, :] for r, t in obs])
        my = np.array([self.muy[t][r] for r, t in obs])
        Syy = Ay @ self.Var @ Ay.T
        return Ay, my, np.linalg.inv(Syy), Syy

    def cond_mean_coef(self, L, m0, obs):
        """E[L eps + m0 | y_obs] = m0 + C (y - my): returns (m0, C, my)"""
        Ay, my, Si, _ = self.condition(obs)
        C = L @ self.Var @ Ay.T @ Si if len(obs) else np.zeros((L.shape[0], 0))
        return m0, C, my

    def cond_cov(self, L, obs):
        Ay, my, Si, _ = self.condition(obs)
        V = L @ self.Var @ L.T
        if len(obs):
            G = L @ self.Var @ Ay.T
            V = V - G @ Si @ G.T
        return V

    def neg_log_density(self, obs, yvals):
        """-log N(y_obs; my, Syy) for concrete yvals; also returns (my, Syy_inv, logdet)"""
        Ay, my, Si, Syy = self.condition(obs)
        k = len(obs)
        if k == 0:
            return 0.0, my, Si, 0.0
        sign, logdet = np.linalg.slogdet(Syy)
        d = np.asarray(yvals, dtype=float) - my
        return 0.5 * (k * math.log(2 * math.pi) + logdet + d @ Si @ d), my, Si, logdet

    # ---- fixed unknown initial condition (concentrated likelihood): every quantity is affine in ALL observations
    def delta_gain(self, obs_all):
        """delta_hat = Gd (y_all - my_all): the GLS / maximum-likelihood estimate from the whole sample"""
        Ay, my, Si, _ = self.condition(obs_all)
        M = np.vstack([self.Dy[t][r:r + 1, :] for r, t in obs_all]) if obs_all else np.zeros((0, self.E.shape[1]))
        if M.shape[1] == 0:
            return np.zeros((0, len(obs_all))), M, my, Si
        W = M.T @ Si @ M
        ev = np.linalg.eigvalsh((W + W.T) / 2)
        # absolute as well as relative: a 1x1 information matrix of size 1e-34 (loadings that are zero up to rounding) has condition number 1
        if ev.min() < 1e-10 or ev.max() / ev.min() > 1e10:
            raise ValueError("BatchOracle: the fixed unknown initial condition is not identified by these observations")
        return np.linalg.solve(W, M.T @ Si), M, my, Si

    def ur_mean_affine(self, L, m0, Drow, obs, obs_all):
        """conditional mean of (L eps + m0 + Drow delta) given y_obs with delta = delta_hat(y_all):  const + coef . y_all"""
        Gd, M_all, my_all, _ = self.delta_gain(obs_all)
        pos = {o: i for i, o in enumerate(obs_all)}
        coef = np.zeros(len(obs_all))
        const = float(m0)
        if obs:
            _, C, my = self.cond_mean_coef(L, m0, obs)
            C = C[0]
            M_obs = np.vstack([self.Dy[t][r:r + 1, :] for r, t in obs])
            for k, o in enumerate(obs):
                coef[pos[o]] += C[k]
            const -= float(C @ my)
            dcoef = np.asarray(Drow).reshape(-1) - C @ M_obs
        else:
            dcoef = np.asarray(Drow).reshape(-1)
        if Gd.shape[0]:
            g = dcoef @ Gd
            coef += g
            const -= float(g @ my_all)
        return const, coef

    def ur_neg_log_density(self, obs_all):
        """concentrated -log density: returns (k log 2pi + logdet, R, my_all, Si) with quadratic form (R(y-my))' Si (R(y-my))"""
        Gd, M_all, my_all, Si = self.delta_gain(obs_all)
        k = len(obs_all)
        _, _, _, Syy = self.condition(obs_all)
        sign, logdet = np.linalg.slogdet(Syy)
        R = np.eye(k) - (M_all @ Gd if Gd.shape[0] else 0.0)
        return k * math.log(2 * math.pi) + logdet, R, my_all, Si
