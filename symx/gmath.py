"""Maths generic over floats and SReal: the oracles use these so that the same oracle code is
evaluated symbolically (z3 terms) and, in replay, on plain floats."""
import math
import z3
from . import sreal as S


def LOGF(x): return x.log() if isinstance(x, S.SReal) else math.log(x)
def EXPF(x): return x.exp() if isinstance(x, S.SReal) else math.exp(x)
def SQRTF(x): return x.sqrt() if isinstance(x, S.SReal) else math.sqrt(x)
def EXPIT(x): return 1 / (1 + EXPF(-x))


def ITE(cond, a, b):
    if isinstance(cond, S.SBool):
        a, b = S.const(a), S.const(b)
        v = None if cond.v is None else (a.v if cond.v else b.v)
        return S.SReal(z3.If(cond.t, a.t, b.t), v)
    return a if cond else b


def POW(b, e):
    if isinstance(b, S.SReal) or isinstance(e, S.SReal):
        return S.const(b) ** e
    return b ** e


def isnan(x):
    return x is None or (isinstance(x, float) and math.isnan(x))
