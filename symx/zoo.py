"""
Tiny model zoo: deterministic family of small Simultaneous models used by the first-order, Kalman, steady-state and
stacked-time checks.  Each entry keeps the equations as SOURCE TEXT (the oracle reads them with symx/refeval.py,
never through irispie's parser) together with rational parameter values inside the determinacy region.
"""
from __future__ import annotations

from fractions import Fraction as F


class ZModel:
    def __init__(self, name, tvars, tshocks, teqs, params, mvars=(), mshocks=(), meqs=(), linear=True, logvars=(),
                 tags=(), forward=0, unit_roots=0, steady=None, steady_change=None):
        self.name = name
        self.tvars, self.tshocks, self.teqs = tuple(tvars), tuple(tshocks), tuple(teqs)
        self.mvars, self.mshocks, self.meqs = tuple(mvars), tuple(mshocks), tuple(meqs)
        self.params = dict(params)
        self.linear = linear
        self.logvars = tuple(logvars)
        self.tags = set(tags)
        self.forward = forward            # number of forward-looking variables (= expected unstable roots)
        self.unit_roots = unit_roots
        self.steady = steady              # optional {name: level} known in closed form (oracle side)
        self.steady_change = steady_change

    def source(self):
        s = "!transition-variables\n    " + ", ".join(self.tvars) + "\n"
        if self.tshocks:
            s += "!transition-shocks\n    " + ", ".join(self.tshocks) + "\n"
        if self.params:
            s += "!parameters\n    " + ", ".join(self.params) + "\n"
        if self.logvars:
            s += "!log-variables\n    " + ", ".join(self.logvars) + "\n"
        s += "!transition-equations\n" + "".join(f"    {e};\n" for e in self.teqs)
        if self.mvars:
            s += "!measurement-variables\n    " + ", ".join(self.mvars) + "\n"
            if self.mshocks:
                s += "!measurement-shocks\n    " + ", ".join(self.mshocks) + "\n"
            s += "!measurement-equations\n" + "".join(f"    {e};\n" for e in self.meqs)
        return s

    def float_params(self):
        return {k: float(v) for k, v in self.params.items()}


def zoo():
    Z = []
    # NK3: lags and leads in two equations, a measurement equation with a constant
    Z.append(ZModel(
        "nk3", ("x", "p", "r"), ("ex", "ep"),
        ("x = a*x[-1] + (1-a)*x[+1] - b*(r - p[+1]) + ex",
         "p = c*p[+1] + (1-c)*p[-1] + d*x + ep",
         "r = 0.7*r[-1] + 0.3*(1.5*p + 0.5*x)"),
        dict(a=F(1, 2), b=F(1, 10), c=F(3, 5), d=F(1, 20)),
        mvars=("obs_x",), meqs=("obs_x = x + 1",), tags=("measurement", "forward"), forward=2))
    # AR2M: purely backward-looking, lag 2, measurement shock
    Z.append(ZModel(
        "ar2m", ("y", "z"), ("ey", "ez"),
        ("y = a*y[-1] + b*y[-2] + ey",
         "z = c*z[-1] + d*y + ez"),
        dict(a=F(1, 2), b=F(1, 5), c=F(3, 10), d=F(2, 5)),
        mvars=("oy", "oz"), mshocks=("wy",), meqs=("oy = y + wy", "oz = z + 0.5*y"), tags=("measurement", "backward"), forward=0))
    # NKPC with exogenous AR driver and constants (non-zero steady state): level vs deviation
    Z.append(ZModel(
        "pc_const", ("p", "y"), ("ep", "ey"),
        ("p = b*p[+1] + k*(y - 1) + 0.2 + ep",
         "y = 1 + rho*(y[-1] - 1) + ey"),
        dict(b=F(9, 10), k=F(1, 4), rho=F(4, 5)),
        mvars=("op",), mshocks=("wp",), meqs=("op = 2*p + wp",), tags=("measurement", "forward", "constant"), forward=1,
        steady={"p": F(2), "y": F(1), "op": F(4)}))
    # lead 2 / lag 2
    Z.append(ZModel(
        "lead2", ("q", "s"), ("eq", "es"),
        ("q = 0.25*q[+2] + 0.25*q[-1] + 0.5*s + eq",
         "s = 0.5*s[-2] + 0.25*s[-1] + es"),
        dict(), tags=("forward", "lead2", "lag2"), forward=2))
    # unit root with drift
    Z.append(ZModel(
        "ur_drift", ("l", "g"), ("el", "eg"),
        ("l = l[-1] + g + el",
         "g = 0.5*g[-1] + 0.1 + eg"),
        dict(), mvars=("ol",), meqs=("ol = l",), tags=("unit_root", "measurement", "backward", "constant"), forward=0, unit_roots=1,
        steady_change={"l": F(1, 5), "g": F(0)}))
    return Z


def extras():
    """models reachable by name only (not part of the list the first-order checks iterate over)"""
    X = []
    # unit root with drift next to two stationary components with non-zero means; a measurement shock
    X.append(ZModel(
        "ur_mix", ("l", "g", "x"), ("el", "eg", "ex"),
        ("l = l[-1] + g + el",
         "g = 0.5*g[-1] + 0.1 + eg",
         "x = 0.7*x[-1] + 0.6 + ex"),
        dict(), mvars=("ol", "ox"), mshocks=("wl",), meqs=("ol = l + x + wl", "ox = x + 0.5*g"),
        tags=("unit_root", "measurement", "backward", "constant"), forward=0, unit_roots=1,
        steady_change={"l": F(1, 5), "g": F(0), "x": F(0)}))
    return X


def by_name(name):
    for z in zoo() + extras():
        if z.name == name:
            return z
    raise KeyError(name)
