"""
Reference evaluator for equations written in the irispie model language -- the source-level oracle.

Independent of irispie's parser: own tokenizer and recursive-descent parser for
    names, name[k] / name{k} time shifts, numbers, + - * / ^ **, unary +-, parentheses, function calls,
    pseudofunctions diff, diff_log/difflog, pct, roc, mov_sum/movsum, mov_avg/movavg, mov_prod/movprod, shift
    (documented meaning: f(expr, k) relates expr to expr with every time subscript shifted by k),
    equations  lhs = rhs,  lhs := rhs,  lhs === rhs  and  dynamic !! steady  variants.
Evaluation is generic: `lookup(name, shift)` returns a float or an SReal; the result is rhs - lhs ... see
`residual()` (irispie evaluates dynamic equations as lhs - (rhs)).
"""
from __future__ import annotations

import re

from .gmath import LOGF, EXPF, SQRTF, EXPIT, POW, ITE

_TOKEN = re.compile(r"""
    (?P<num>(?:\d+\.\d*|\.\d+|\d+)(?:[eE][+-]?\d+)?)
  | (?P<name>[A-Za-z_]\w*)
  | (?P<op>\*\*|===|:=|!!|[-+*/^()\[\]{},=])
  | (?P<ws>\s+)
""", re.X)


def tokenize(src):
    out, pos = [], 0
    while pos < len(src):
        m = _TOKEN.match(src, pos)
        if not m:
            raise SyntaxError(f"cannot tokenize at {src[pos:pos+20]!r}")
        pos = m.end()
        if m.lastgroup == "ws":
            continue
        out.append((m.lastgroup, m.group()))
    out.append(("end", ""))
    return out


PSEUDO = {"diff": -1, "diff_log": -1, "difflog": -1, "pct": -1, "roc": -1, "shift": -1,
          "mov_sum": -4, "movsum": -4, "mov_avg": -4, "movavg": -4, "mov_prod": -4, "movprod": -4}


class Parser:
    def __init__(self, src):
        self.toks = tokenize(src)
        self.i = 0

    def peek(self):
        return self.toks[self.i]

    def eat(self, val=None):
        k, v = self.toks[self.i]
        if val is not None and v != val:
            raise SyntaxError(f"expected {val!r} got {v!r}")
        self.i += 1
        return v

    def expr(self):
        node = self.term()
        while self.peek()[1] in ("+", "-"):
            op = self.eat()
            node = (op, node, self.term())
        return node

    def term(self):
        node = self.unary()
        while self.peek()[1] in ("*", "/"):
            op = self.eat()
            node = (op, node, self.unary())
        return node

    def unary(self):
        if self.peek()[1] in ("+", "-"):
            op = self.eat()
            return ("neg", self.unary()) if op == "-" else self.unary()
        return self.power()

    def power(self):
        base = self.atom()
        if self.peek()[1] in ("^", "**"):
            self.eat()
            return ("pow", base, self.unary())
        return base

    def signed_int(self):
        sign = 1
        while self.peek()[1] in ("+", "-"):
            if self.eat() == "-":
                sign = -sign
        k, v = self.peek()
        if k != "num":
            raise SyntaxError("integer expected in time shift")
        self.eat()
        return sign * int(v)

    def atom(self):
        k, v = self.peek()
        if k == "num":
            self.eat()
            return ("num", v)
        if v == "(":
            self.eat("(")
            node = self.expr()
            self.eat(")")
            return node
        if k == "name":
            self.eat()
            nxt = self.peek()[1]
            if nxt == "(":
                self.eat("(")
                args = []
                if self.peek()[1] != ")":
                    args.append(self.expr())
                    while self.peek()[1] == ",":
                        self.eat(",")
                        args.append(self.expr())
                self.eat(")")
                return ("call", v, args)
            if nxt in ("[", "{"):
                close = "]" if nxt == "[" else "}"
                self.eat()
                sh = self.signed_int()
                self.eat(close)
                return ("var", v, sh)
            return ("var", v, 0)
        raise SyntaxError(f"unexpected token {v!r}")


def parse_expr(src):
    p = Parser(src)
    node = p.expr()
    if p.peek()[0] != "end":
        raise SyntaxError(f"trailing input {p.peek()[1]!r} in {src!r}")
    return node


def split_equation(src):
    """'lhs = rhs [!! lhs2 = rhs2]' -> ((lhs, rhs), (steady lhs, steady rhs) or None); one side may be missing (rhs only => lhs 0... )"""
    src = src.strip().rstrip(";").strip()
    parts = src.split("!!")
    out = []
    for part in parts:
        part = part.strip()
        m = re.search(r"===|:=|(?<![=!<>])=(?!=)", part)
        if not m:
            out.append((None, part))
        else:
            out.append((part[:m.start()].strip(), part[m.end():].strip()))
    return out[0], (out[1] if len(out) > 1 else None)


def _const(node):
    """integer value of a constant shift argument"""
    if node[0] == "num":
        return int(float(node[1]))
    if node[0] == "neg":
        return -_const(node[1])
    raise SyntaxError("time shift argument must be an integer constant")


def _num_f(text):
    # integers stay ints; decimals are the reals they spell (exact decimal fraction)
    from fractions import Fraction
    if re.fullmatch(r"\d+", text):
        return int(text)
    return Fraction(text) if "e" not in text.lower() else Fraction(float(text))


def evaluate(node, lookup, offset=0, funcs=None, numeric=float):
    """
    lookup(name, shift) -> value; offset = time offset applied to every variable (pseudofunctions);
    numeric = conversion applied to literal numbers (float for replay, SReal-compatible Fraction otherwise)
    """
    ev = lambda n, off=offset: evaluate(n, lookup, off, funcs, numeric)
    kind = node[0]
    if kind == "num":
        return numeric(_num_f(node[1]))
    if kind == "var":
        return lookup(node[1], node[2] + offset)
    if kind == "neg":
        return -ev(node[1])
    if kind in ("+", "-", "*", "/"):
        a, b = ev(node[1]), ev(node[2])
        return a + b if kind == "+" else a - b if kind == "-" else a * b if kind == "*" else a / b
    if kind == "pow":
        return POW(ev(node[1]), ev(node[2]))
    if kind == "call":
        name, args = node[1], node[2]
        if name in PSEUDO:
            k = _const(args[1]) if len(args) > 1 else PSEUDO[name]
            e = args[0]
            if name == "shift":
                return ev(e, offset + k)
            if name == "diff":
                return ev(e) - ev(e, offset + k)
            if name in ("diff_log", "difflog"):
                return LOGF(ev(e)) - LOGF(ev(e, offset + k))
            if name == "pct":
                return 100 * (ev(e) / ev(e, offset + k)) - 100
            if name == "roc":
                return ev(e) / ev(e, offset + k)
            if k == 0:
                shifts = []
            else:
                step = 1 if k > 0 else -1
                shifts = list(range(0, k, step))
            vals = [ev(e, offset + s) for s in shifts]
            if name in ("mov_sum", "movsum", "mov_avg", "movavg"):
                tot = vals[0] if vals else numeric(0)
                for v in vals[1:]:
                    tot = tot + v
                return tot if name in ("mov_sum", "movsum") else tot / len(vals)
            tot = vals[0]
            for v in vals[1:]:
                tot = tot * v
            return tot
        vals = [ev(a) for a in args]
        if name == "log":
            return LOGF(vals[0])
        if name == "exp":
            return EXPF(vals[0])
        if name == "sqrt":
            return SQRTF(vals[0])
        if name == "logistic":
            return EXPIT(vals[0])
        if name in ("maximum", "max"):
            b = vals[1] if len(vals) > 1 else numeric(0)
            return ITE(vals[0] > b, vals[0], b)
        if name in ("minimum", "min"):
            b = vals[1] if len(vals) > 1 else numeric(0)
            return ITE(vals[0] < b, vals[0], b)
        if funcs and name in funcs:
            return funcs[name](*vals)
        raise NameError(f"function {name} unknown to the reference evaluator")
    raise ValueError(kind)


def names_in(node, acc=None):
    """set of (name, shift) occurring in an AST with pseudofunction offsets applied"""
    acc = set() if acc is None else acc

    def walk(n, off):
        k = n[0]
        if k == "var":
            acc.add((n[1], n[2] + off))
        elif k == "neg":
            walk(n[1], off)
        elif k in ("+", "-", "*", "/", "pow"):
            walk(n[1], off); walk(n[2], off)
        elif k == "call":
            name, args = n[1], n[2]
            if name in PSEUDO:
                kk = _const(args[1]) if len(args) > 1 else PSEUDO[name]
                if name == "shift":
                    walk(args[0], off + kk)
                elif name in ("diff", "diff_log", "difflog", "pct", "roc"):
                    walk(args[0], off); walk(args[0], off + kk)
                else:
                    step = 1 if kk > 0 else -1
                    for s in range(0, kk, step):
                        walk(args[0], off + s)
            else:
                for a in args:
                    walk(a, off)
    walk(node, 0)
    return acc


class Equation:
    """lhs/rhs ASTs of the dynamic and the steady variant of one source equation"""

    def __init__(self, src):
        self.src = src
        (dl, dr), steady = split_equation(src)
        self.dyn = (parse_expr(dl) if dl else ("num", "0"), parse_expr(dr))
        if steady is not None:
            sl, sr = steady
            self.steady = (parse_expr(sl) if sl else ("num", "0"), parse_expr(sr))
        else:
            self.steady = self.dyn

    def residual(self, lookup, steady=False, numeric=float, funcs=None):
        """lhs - rhs at the date `lookup` is anchored at"""
        lhs, rhs = self.steady if steady else self.dyn
        return evaluate(lhs, lookup, 0, funcs, numeric) - evaluate(rhs, lookup, 0, funcs, numeric)

    def sides(self, lookup, steady=False, numeric=float, funcs=None):
        lhs, rhs = self.steady if steady else self.dyn
        return evaluate(lhs, lookup, 0, funcs, numeric), evaluate(rhs, lookup, 0, funcs, numeric)

    def occurrences(self, steady=False):
        lhs, rhs = self.steady if steady else self.dyn
        return names_in(lhs) | names_in(rhs)
