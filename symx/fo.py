"""
First-order lifting: run Simultaneous.simulate(method="first_order") through the public API and execute the real
kernel fords.simulators.simulate_frame (simulate_flat / _simulate_conditional / _simulate_measurement /
shock_simulators / Solution.expand_square_solution / kalmans.* for plans) on one symbol per input cell.
"""
from __future__ import annotations

import math
from fractions import Fraction

import numpy as np
import z3

from . import sreal as S
from . import npproxy
from .lift import lift_matrix


def build_model(ir, zm, solve=True, **assign):
    m = ir.Simultaneous.from_string(zm.source(), linear=zm.linear)
    p = zm.float_params()
    p.update(assign)
    if p:
        m.assign(**p)
    if solve:
        m.steady()
        m.solve()
    return m


def _ground(a):
    a = np.asarray(a)
    if a.dtype != object:
        return a
    return np.array([[float(x) for x in row] for row in a.tolist()], dtype=float) if a.ndim == 2 else np.array(a.tolist(), dtype=float)


class FirstOrderLift:
    """context: proxies + lifting wrapper installed on fords.simulators.simulate_frame"""

    def __init__(self, ir, lift_rows, values=None, lift_where=None, shift=None, override=None, chain=False):
        """
        lift_rows: names of dataslate rows whose non-NaN cells become symbols
        values:    {symbol name: shadow value}
        lift_where(name, col) -> bool: restrict which cells are lifted
        shift:     {row name: constant} -- the lifted cell is (constant + symbol) (level = steady + deviation)
        """
        from irispie.fords import simulators as fs, shock_simulators as fss, kalmans as kk, covariances as cv
        from irispie.dataslates import _variants as dv
        self.ir, self.fs, self.fss, self.kk, self.cv, self.dv = ir, fs, fss, kk, cv, dv
        self.lift_rows = set(lift_rows)
        self.values = values
        self.lift_where = lift_where
        self.shift = shift or {}
        self.override = override or {}     # {(row name, offset k): SReal or number} placed instead of a fresh symbol
        self.proxy = npproxy.Proxy()
        self.caps = []
        self._ctx = None
        # chain=True (simulations split into several frames): a cell computed by an earlier frame enters later frames as that TERM
        # (not as a fresh symbol), and one lifted copy is kept per input_data_array object so that in-place changes persist across frames
        self.chain = chain
        self.known = {}
        self._ida_cache = {}

    def __enter__(self):
        fs = self.fs
        real = fs.simulate_frame
        self._real = real
        outer = self

        def lifted(model_v, frame_ds, **kw):
            var = frame_ds._variants[0]
            data = var.data
            names = tuple(frame_ds.names)
            b00 = tuple(frame_ds.base_columns)[0]
            where = (lambda nm, j: nm in outer.lift_rows and (outer.lift_where is None or outer.lift_where(nm, j - b00)))
            b0 = tuple(frame_ds.base_columns)[0]
            label = lambda j: (f"m{b0 - j}" if j < b0 else str(j - b0))
            obj, syms = lift_matrix(data, names, where=where, values=outer.values, col_label=label)
            for i, nm in enumerate(names):
                c = outer.shift.get(nm)
                if c is not None:
                    for j in range(obj.shape[1]):
                        if isinstance(obj[i, j], S.SReal):
                            obj[i, j] = obj[i, j] + c
            for (nm, k), term in outer.override.items():
                if nm in names and 0 <= b0 + k < obj.shape[1]:
                    obj[names.index(nm), b0 + k] = term
            if outer.chain:
                for i, nm in enumerate(names):
                    for j in range(obj.shape[1]):
                        if (nm, j - b0) in outer.known and not (isinstance(obj[i, j], float) and math.isnan(obj[i, j])):
                            obj[i, j] = outer.known[(nm, j - b0)]
                        elif isinstance(obj[i, j], S.SReal) and float(data[i, j]) == 0.0:
                            obj[i, j] = 0.0        # split frames zero the unanticipated shocks dated after the frame start: keep exact zeros concrete
            var.data = obj
            if kw.get("input_data_array") is not None and outer.chain and id(kw["input_data_array"]) in outer._ida_cache:
                kw["input_data_array"] = outer._ida_cache[id(kw["input_data_array"])][1]
            elif kw.get("input_data_array") is not None:
                ida = kw["input_data_array"]
                iobj, isyms = lift_matrix(ida, names, where=where, values=outer.values, col_label=label)
                if outer.chain:
                    outer._ida_cache[id(ida)] = (ida, iobj)          # keep `ida` alive so that its id stays unique
                    for i in range(iobj.shape[0]):
                        for j in range(iobj.shape[1]):
                            if isinstance(iobj[i, j], S.SReal) and float(ida[i, j]) == 0.0:
                                iobj[i, j] = 0.0
                for i, nm in enumerate(names):
                    c = outer.shift.get(nm)
                    if c is not None:
                        for j in range(iobj.shape[1]):
                            if isinstance(iobj[i, j], S.SReal):
                                iobj[i, j] = iobj[i, j] + c
                for (nm, k), term in outer.override.items():
                    if nm in names and 0 <= b0 + k < iobj.shape[1]:
                        iobj[names.index(nm), b0 + k] = term
                kw["input_data_array"] = iobj
                for k, v in isyms.items():
                    syms.setdefault(k, v)
            cap = dict(names=names, inp=obj.copy(), syms=syms, periods=tuple(frame_ds.periods),
                       base_columns=tuple(frame_ds.base_columns), frame=kw.get("frame"), float_in=data.copy())
            try:
                r = real(model_v, frame_ds, **kw)
                cap["out"] = np.array(var.data, dtype=object)
                outer.caps.append(cap)
                if outer.chain:
                    fr = kw.get("frame")
                    # only the frame's own columns are written back to the main dataslate (frames.write_frame_data_to_main_dataslate)
                    lo = getattr(fr, "first", 0)
                    hi = getattr(fr, "last", cap["out"].shape[1] - 1)
                    for i, nm in enumerate(names):
                        for j in range(lo, min(hi, cap["out"].shape[1] - 1) + 1):
                            a, b = cap["out"][i, j], cap["inp"][i, j]
                            if a is not b and not (isinstance(a, float) and isinstance(b, float) and (a == b or (math.isnan(a) and math.isnan(b)))):
                                outer.known[(nm, j - b0)] = a
            finally:
                if "out" in cap:
                    var.data = S.shadow_float(cap["out"])
                else:
                    var.data = data
            return r
        extra = [(fs, "simulate_frame", lifted),
                 (self.kk, "_INVERSE_FUNCTION", dict(self.kk._INVERSE_FUNCTION, regular=lambda Fm: np.linalg.inv(_ground(Fm))))]
        self._ctx = npproxy.installed(self.proxy, fs, self.fss, self.kk, self.cv, extra=extra)
        self._ctx.__enter__()
        # log-variables: Dataslate variants logarithmize in their own module (elementwise functions only, float allocation kept)
        self._ctx2 = npproxy.installed(npproxy.Proxy(object_alloc=False), self.dv)
        self._ctx2.__enter__()
        return self

    def __exit__(self, *exc):
        self._ctx2.__exit__(*exc)
        self._ctx.__exit__(*exc)
        return False


def make_databox(ir, zm, first, ncol, values=None, default=lambda name, j: 0.0, include=None, nan_cells=()):
    """Databox with a series for every variable/shock (and anticipated twin is NOT a databox name) over ncol periods from `first`"""
    db = ir.Databox()
    names = list(zm.tvars) + list(zm.tshocks) + list(zm.mvars) + list(zm.mshocks)
    for n in names:
        if include is not None and n not in include:
            continue
        vals = []
        for j in range(ncol):
            if (n, j) in nan_cells:
                vals.append(float("nan"))
            elif values is not None and f"{n}__{j}" in values:
                vals.append(float(values[f"{n}__{j}"]))
            else:
                vals.append(float(default(n, j)))
        db[n] = ir.Series(start=first, values=tuple(vals))
    return db


def affine_bound_claims(term, tol):
    """|term| <= tol as a z3 formula"""
    return z3.And(term <= tol, term >= -tol)
