"""Lifting helpers: replace the float data of a Dataslate variant by an object array of symbols (DESIGN 2.2 item 3)."""
from __future__ import annotations

import math

import numpy as np
import z3

from . import sreal as S


def lift_matrix(data, names, constant_rows=(), prefix="", where=None, values=None):
    """
    data: 2-D float array (rows = names, columns = periods).  Every non-NaN cell becomes a fresh symbol
    f'{prefix}{name}__{col}' (or f'{prefix}{name}' shared by the whole row for `constant_rows`).
    Shadow = the float in the cell (or values[symbol name] when given).  Returns (obj, {symbol name: SReal}).
    """
    data = np.asarray(data)
    obj = np.empty(data.shape, dtype=object)
    syms = {}
    for i in range(data.shape[0]):
        nm = names[i]
        for j in range(data.shape[1]):
            x = data[i, j]
            if isinstance(x, (S.SReal, S.SBool)):
                obj[i, j] = x
                continue
            x = float(x)
            if math.isnan(x) or (where is not None and not where(nm, j)):
                obj[i, j] = x
                continue
            sname = f"{prefix}{nm}" if nm in constant_rows else f"{prefix}{nm}__{j}"
            if sname not in syms:
                sv = x if values is None else values.get(sname, x)
                syms[sname] = S.sym(sname, sv)
            obj[i, j] = syms[sname]
    return obj, syms


def exp_log_axioms(terms):
    """ground facts about the uninterpreted functions for every application occurring in `terms`:
       EXP(a) > 0;  SQRT(a)^2 = a and SQRT(a) >= 0 for a >= 0"""
    seen, ax = set(), []

    def walk(t):
        if t.get_id() in seen:
            return
        seen.add(t.get_id())
        if z3.is_app(t):
            if t.decl().eq(S.EXP):
                ax.append(t > 0)
            elif t.decl().eq(S.SQRT):
                a = t.arg(0)
                ax.append(z3.Implies(a >= 0, z3.And(t * t == a, t >= 0)))
                ax.append(z3.Implies(a > 0, t > 0))
            for ch in t.children():
                walk(ch)
    for t in terms:
        if t is not None:
            walk(t)
    return ax


def same_cell(a, b):
    """both NaN, or identical object, or equal concrete numbers; None if a solver question"""
    an = a is None or (isinstance(a, (float, np.floating)) and math.isnan(a))
    bn = b is None or (isinstance(b, (float, np.floating)) and math.isnan(b))
    if an or bn:
        return an and bn
    if a is b:
        return True
    if not isinstance(a, (S.SReal, S.SBool)) and not isinstance(b, (S.SReal, S.SBool)):
        return float(a) == float(b)
    return None
