"""Lifting helpers: replace the float data of a Dataslate variant by an object array of symbols (DESIGN 2.2 item 3)."""
from __future__ import annotations

import math

import numpy as np
import z3

from . import sreal as S


def lift_matrix(data, names, constant_rows=(), prefix="", where=None, values=None, col_label=str):
    """
    data: 2-D float array (rows = names, columns = periods).  Every non-NaN cell becomes a fresh symbol
    f'{prefix}{name}__{col}' (or f'{prefix}{name}' shared by the whole row for `constant_rows`).
    Shadow = the float in the cell (or values[symbol name] when given).  Returns (obj, {symbol name: SReal}).
    """
    data = np.asarray(data)
    obj = np.empty(data.shape, dtype=object)
    syms = {}
    for i in range(data.shape[0]):
        nm = names[i]
        for j in range(data.shape[1]):
            x = data[i, j]
            if isinstance(x, (S.SReal, S.SBool)):
                obj[i, j] = x
                continue
            x = float(x)
            if math.isnan(x) or (where is not None and not where(nm, j)):
                obj[i, j] = x
                continue
            sname = f"{prefix}{nm}" if nm in constant_rows else f"{prefix}{nm}__{col_label(j)}"
            if sname not in syms:
                sv = x if values is None else values.get(sname, x)
                syms[sname] = S.sym(sname, sv)
            obj[i, j] = syms[sname]
    return obj, syms


def exp_log_axioms(terms):
    """ground facts about the uninterpreted functions for every application occurring in `terms`:
       EXP(a) > 0;  SQRT(a)^2 = a and SQRT(a) >= 0 for a >= 0"""
    seen, ax = set(), []

    def walk(t):
        if t.get_id() in seen:
            return
        seen.add(t.get_id())
        if z3.is_app(t):
            if t.decl().eq(S.EXP):
                ax.append(t > 0)
            elif t.decl().eq(S.SQRT):
                a = t.arg(0)
                ax.append(z3.Implies(a >= 0, z3.And(t * t == a, t >= 0)))
                ax.append(z3.Implies(a > 0, t > 0))
            for ch in t.children():
                walk(ch)
    for t in terms:
        if t is not None:
            walk(t)
    return ax


def div_domain(terms):
    """domain of the expressions as written: every non-constant denominator occurring in `terms` is non-zero"""
    seen, out = set(), []

    def walk(t):
        if t.get_id() in seen:
            return
        seen.add(t.get_id())
        if z3.is_app(t):
            if z3.is_div(t):
                d = t.arg(1)
                if not (z3.is_rational_value(d) or z3.is_int_value(d)):
                    out.append(d != 0)
            for ch in t.children():
                walk(ch)
    for t in terms:
        if t is not None:
            walk(t)
    return out


def same_cell(a, b):
    """both NaN, or identical object, or equal concrete numbers; None if a solver question"""
    an = a is None or (isinstance(a, (float, np.floating)) and math.isnan(a))
    bn = b is None or (isinstance(b, (float, np.floating)) and math.isnan(b))
    if an or bn:
        return an and bn
    if a is b:
        return True
    if not isinstance(a, (S.SReal, S.SBool)) and not isinstance(b, (S.SReal, S.SBool)):
        return float(a) == float(b)
    return None


# ------------------------------------------------------------------------------------------
# cut points: every value the kernel WRITES into the working array becomes a fresh symbol with a recorded
# definition.  Obligations are then decided locally (definitions of the symbols occurring in the claim only:
# earlier cells are arbitrary reals -- a sound over-approximation of the preceding state, i.e. an inductive
# step); if that does not give `unsat`, the definitions are unfolded transitively (exact) before any model
# is believed.
# ------------------------------------------------------------------------------------------

class CutStore:
    def __init__(self, prefix="c"):
        self.prefix = prefix
        self.defs = {}          # z3 id of the cut symbol -> (symbol term, defining term)
        self.n = 0

    def cut(self, v):
        if isinstance(v, S.SReal):
            t = v.t
            if z3.is_const(t) and t.decl().kind() == z3.Z3_OP_UNINTERPRETED:
                return v                      # already a plain symbol
            if z3.is_rational_value(t) or z3.is_int_value(t):
                return v
            self.n += 1
            s = S.sym(f"{self.prefix}!{self.n}", v.v)
            self.defs[s.t.get_id()] = (s.t, t)
            return s
        if isinstance(v, np.ndarray) and v.dtype == object:
            out = np.empty(v.shape, dtype=object)
            for idx in np.ndindex(*v.shape):
                out[idx] = self.cut(v[idx])
            return out
        return v

    def _symbols_in(self, terms):
        seen, found = set(), []

        def walk(t):
            if t.get_id() in seen:
                return
            seen.add(t.get_id())
            if t.get_id() in self.defs:
                found.append(t.get_id())
            for ch in t.children():
                walk(ch)
        for t in terms:
            walk(t)
        return found

    def definitions(self, terms, transitive=False):
        """equalities symbol == definition for the cut symbols occurring in `terms` (optionally transitively)"""
        out, done = [], set()
        todo = self._symbols_in(terms)
        while todo:
            i = todo.pop()
            if i in done:
                continue
            done.add(i)
            s, d = self.defs[i]
            out.append(s == d)
            if transitive:
                todo += self._symbols_in([d])
        return out


def unfold(store, term, transitive=False, max_rounds=50):
    """substitute the definitions of the cut symbols occurring in `term` (one level, or until none is left)
    and rebuild the result through the normalising LOG/EXP constructors"""
    t = term
    for _ in range(max_rounds):
        ids = store._symbols_in([t])
        if not ids:
            break
        t = z3.substitute(t, *[store.defs[i] for i in ids])
        if not transitive:
            break
    return S.renorm(t)


def unfold_latest(store, term):
    """substitute the most recently defined cut symbol occurring in `term` by its definition (which mentions only
    earlier symbols) and renormalise; returns (new term, True) or (term, False) when no cut symbol is left"""
    ids = store._symbols_in([term])
    if not ids:
        return term, False
    order = {i: k for k, i in enumerate(store.defs)}      # dict preserves definition order
    i = max(ids, key=lambda j: order[j])
    return S.renorm(z3.substitute(term, store.defs[i])), True


def prove_by_unfolding(run, key, claim, store, assume, axioms_fn, step_timeout_ms=10000, final_timeout_ms=60000, sample=None, nl=True):
    """
    Decide `claim` over cut symbols: unfold the latest-defined symbol, try to prove, repeat.  A claim proved
    with some symbols still folded holds for arbitrary values of those symbols (sound over-approximation).
    Only the fully unfolded (exact) query can return a counterexample.
    returns ("unsat", None, steps) | ("sat", model, steps) | ("unknown", None, steps)
    """
    t, steps = claim, 0
    while True:
        t, more = unfold_latest(store, t)
        if not more:
            break
        steps += 1
        left = store._symbols_in([t])
        if not left:
            break
        nonzero = [store.defs[i][0] != 0 for i in left]     # folded cells are arbitrary non-zero reals (denominators)
        r, _ = run.prove(key, t, list(assume) + nonzero + axioms_fn([t]), timeout_ms=step_timeout_ms, nl=nl,
                         sample=dict(sample, claim_after_unfolding=str(t)[:300], unfolding_steps=steps) if sample and steps == 1 else None)
        if r == "unsat":
            return "unsat", None, steps
    r, m = run.prove(key, t, list(assume) + axioms_fn([t]), timeout_ms=final_timeout_ms, nl=nl,
                     sample=dict(sample, claim_fully_unfolded=str(t)[:300], unfolding_steps=steps) if sample else None)
    return r, m, steps


class CutArray(np.ndarray):
    """object ndarray whose writes go through a CutStore"""
    _store = None

    def __array_finalize__(self, obj):
        if obj is not None:
            self._store = getattr(obj, "_store", None)

    def __setitem__(self, idx, val):
        st = self._store
        if st is not None:
            if isinstance(val, np.ndarray) and val.dtype != object:
                pass
            else:
                val = st.cut(val)
        super().__setitem__(idx, val)


def cut_array(obj, store):
    a = np.asarray(obj, dtype=object).view(CutArray)
    a._store = store
    return a
