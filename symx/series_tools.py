"""Tagged Series: irispie Series whose data array is a numpy object array with one distinct symbol per cell."""
from __future__ import annotations

import math
import sys

import numpy as np

from . import sreal as S
from . import npproxy


def load_irispie():
    import tempfile
    tempfile.tempdir = "/tmp"
    import warnings
    warnings.filterwarnings("ignore")
    import irispie
    return irispie


def series_modules():
    load_irispie()
    return [m for n, m in sorted(sys.modules.items())
            if (n.startswith("irispie.series") or n in ("irispie.has_variants",))
            and any(getattr(m, a, None) is np for a in ("_np", "np_", "np"))]


def series_proxy(**kw):
    return npproxy.Proxy(**kw)


def tagged(ir, start, n, nvar=1, miss=(), prefix="x", values=None):
    """Series starting at `start` with n periods x nvar variants; cell (i, v) is symbol f'{prefix}{i}v{v}'
    unless (i, v) or i is in `miss` (then NaN).  Returns (series, {name: (i, v, SReal)})."""
    a = np.empty((n, nvar), dtype=object)
    syms = {}
    for i in range(n):
        for v in range(nvar):
            if i in miss or (i, v) in miss:
                a[i, v] = float("nan")
            else:
                name = f"{prefix}{i}v{v}"
                val = None if values is None else values.get(name)
                s = S.sym(name, val)
                a[i, v] = s
                syms[name] = (i, v, s)
    x = ir.Series(num_variants=nvar, data_type=object)
    if n:
        x.start = start
        x.data = a
        x.trim()
    return x, syms


def float_series(ir, start, n, nvar, miss, prefix, values):
    """the float twin of `tagged` for replay"""
    a = np.full((n, nvar), np.nan)
    for i in range(n):
        for v in range(nvar):
            if i in miss or (i, v) in miss:
                continue
            a[i, v] = float(values[f"{prefix}{i}v{v}"])
    x = ir.Series(num_variants=nvar)
    if n:
        x.start = start
        x.data = a
        x.trim()
    return x


def cellmap(x):
    """{(serial, variant): value} for every non-missing cell of a Series"""
    out = {}
    if x.start is None or x.data.size == 0:
        return out
    s0 = x.start.serial
    for i in range(x.data.shape[0]):
        for v in range(x.data.shape[1]):
            c = x.data[i, v]
            if c is None or (isinstance(c, (float, np.floating)) and math.isnan(c)):
                continue
            out[(s0 + i, v)] = c
    return out


def none_is_nan_patch(ir):
    """
    numpy stores None as NaN when assigning into a float array; an object array keeps None.  To keep the
    lifted run faithful to the float run, Series.set_data(dates, None) on object data is executed as
    set_data(dates, NaN).  Returned as an `extra` entry for npproxy.installed.
    """
    from irispie.series import main as sm
    orig = sm.Series.set_data

    def set_data(self, dates, data, variants=None):
        if data is None and getattr(getattr(self, "data", None), "dtype", None) == object:
            dates = tuple(self.resolve_periods(dates))
            if not dates:
                return
            return orig(self, dates, float("nan"), variants)
        return orig(self, dates, data, variants)
    return (sm.Series, "set_data", set_data)
