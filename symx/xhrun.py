"""
Engine XH: run CrossHair on harness functions that call the real irispie code (DESIGN.md 2.1).

Verdict mapping (never relaxed):
  "Confirmed over all paths"      -> obligation discharged (all paths, all values within `pre:`)
  counterexample                  -> replayed concretely in a plain python process; reproduces -> VIOLATION
  anything else / timeout         -> inconclusive (exit 3), never success
Each harness function gets a reachability twin (same body, `post: False`) which must yield a counterexample,
so an unsatisfiable `pre:` or an always-raising body cannot pass vacuously.
"""
from __future__ import annotations

import ast
import concurrent.futures as cf
import os
import re
import subprocess
import sys
import time

from .report import VERIF, PY

CROSSHAIR = "/verif/.venv/bin/crosshair"
WORK = os.path.join(VERIF, ".work", "xh")


def functions_of(path):
    """[(name, first line of body inside def)] for top-level harness functions with a contract docstring"""
    src = open(path).read()
    tree = ast.parse(src)
    out = []
    for node in tree.body:
        if isinstance(node, ast.FunctionDef) and not node.name.startswith("_"):
            doc = ast.get_docstring(node) or ""
            if "post:" in doc:
                out.append((node.name, node.lineno + 1, doc))
    return out


def make_twin(path):
    os.makedirs(WORK, exist_ok=True)
    src = open(path).read()
    twin_src = re.sub(r"^(\s*)post:.*$", r"\1post: False", src, flags=re.M)
    twin = os.path.join(WORK, os.path.basename(path)[:-3] + "_twin.py")
    with open(twin, "w") as f:
        f.write(twin_src)
    return twin


def _crosshair(path, line, timeout):
    pp = os.pathsep.join(x for x in (VERIF, os.environ.get("PYTHONPATH", "")) if x)   # keep a caller's PYTHONPATH (seed worktrees)
    env = dict(os.environ, PYTHONPATH=pp, PYTHONWARNINGS="ignore", PYTHONDONTWRITEBYTECODE="1", PYTHONHASHSEED="0")
    t0 = time.time()
    try:
        p = subprocess.run([CROSSHAIR, "check", "--report_all", "--per_condition_timeout", str(timeout), f"{path}:{line}"],
                           capture_output=True, text=True, timeout=timeout * 2 + 120, env=env, cwd=VERIF)
        out = p.stdout + p.stderr
    except subprocess.TimeoutExpired:
        out = "TIMEOUT (process)"
    return out, time.time() - t0


_CEX = re.compile(r"error: (.*?) when calling (.*?)(?: \(which returns (.*)\))?$")


def classify(out):
    for ln in out.splitlines():
        if "Confirmed over all paths" in ln:
            return "confirmed", None
    for ln in out.splitlines():
        m = _CEX.search(ln.strip())
        if m:
            return "counterexample", {"why": m.group(1), "call": m.group(2), "returns": m.group(3)}
    for ln in out.splitlines():
        if "Unable to meet precondition" in ln:
            return "no-precondition", None
        if "Not confirmed" in ln:
            return "not-confirmed", None
    if "error:" in out:
        return "error", {"why": out.strip()[-300:]}
    return "unknown", {"why": out.strip()[-300:]}


def replay_call(harness_path, call):
    """evaluate the counterexample call concretely in a plain process (real datetime, no CrossHair)"""
    code = (
        "import sys, importlib.util\n"
        f"sys.path.insert(0, {VERIF!r})\n"
        "import os\n"
        "os.environ['XH_REPLAY'] = '1'\n"
        f"spec = importlib.util.spec_from_file_location('h', {harness_path!r})\n"
        "h = importlib.util.module_from_spec(spec); spec.loader.exec_module(h)\n"
        "try:\n"
        f"    r = eval({call!r}, h.__dict__)\n"
        "except Exception as e:\n"
        "    print('RAISES', type(e).__name__, str(e)[:200]); sys.exit(1)\n"
        "print('RETURNS', r)\n"
        "sys.exit(0 if r is True else 1)\n"
    )
    p = subprocess.run([PY, "-c", code], capture_output=True, text=True, timeout=300, cwd=VERIF,
                       env=dict(os.environ, PYTHONWARNINGS="ignore"))
    return p.returncode == 1, (p.stdout + p.stderr).strip()[-300:]


def run_harness(run, harness_path, select=None, timeout=60, twin_timeout=30, jobs=None, finding_prefix=""):
    """run every (selected) harness function and its twin; record obligations in `run`"""
    jobs = jobs or min(16, os.cpu_count() or 4)
    funcs = functions_of(harness_path)
    if select is not None:
        funcs = [f for f in funcs if select(f[0])]
    twin = make_twin(harness_path)
    tasks = {}
    with cf.ThreadPoolExecutor(max_workers=jobs) as ex:
        for name, line, doc in funcs:
            tasks[ex.submit(_crosshair, harness_path, line, timeout)] = (name, "main", doc)
            tasks[ex.submit(_crosshair, twin, line, twin_timeout)] = (name, "twin", doc)
        results = {}
        for fut in cf.as_completed(tasks):
            name, kind, doc = tasks[fut]
            out, secs = fut.result()
            results[(name, kind)] = (out, secs, doc)
    run.extra["conditions_run"] = run.extra.get("conditions_run", 0) + len(tasks)
    xs = run.extra.setdefault("crosshair_s", 0.0)
    for name, line, doc in funcs:
        key = f"xh:{name}"
        out, secs, _ = results[(name, "main")]
        tout, tsecs, _ = results[(name, "twin")]
        run.extra["crosshair_s"] = round(run.extra["crosshair_s"] + secs + tsecs, 1)
        verdict, info = classify(out)
        tverdict, tinfo = classify(tout)
        run.extra.setdefault("condition_seconds", {})[name] = [round(secs, 1), round(tsecs, 1)]
        pre = " ".join(l.strip() for l in doc.splitlines() if l.strip().startswith("pre:"))
        if len(run.samples) < 12:
            run.samples.append({"obligation": key, "bound": pre or "unbounded ints", "verdict": verdict, "seconds": round(secs, 1),
                                "twin": tverdict})
        if verdict == "counterexample":
            reproduced, msg = replay_call(harness_path, info["call"])
            if reproduced:
                case = {"kind": "xh", "harness": os.path.relpath(harness_path, VERIF), "call": info["call"], "why": info["why"]}
                run.counterexample(key, f"{finding_prefix}{name}", f"{info['call']}: {info['why']} [{msg[:120]}]", case, replay=False)
            else:
                run.unknown(key, f"CrossHair counterexample {info['call']} does not reproduce concretely: {msg}")
            continue
        if verdict != "confirmed":
            run.unknown(key, f"CrossHair: {verdict} after {secs:.0f}s {info or ''}")
            continue
        if tverdict != "counterexample":
            run.unknown(key, f"reachability twin gave {tverdict} (vacuous precondition or body never returns?)")
            continue
        run.reach_ok += 1
        run.ok(key)
    return results


def replay_case(case):
    path = os.path.join(VERIF, case["harness"])
    reproduced, msg = replay_call(path, case["call"])
    return reproduced, msg
