"""
DART-style path exploration for code that branches on symbolic data (DESIGN.md 2.2 item 4).

`explore(symbols, run_fn, domain)`:
  * run_fn(values) executes the real code with SReal inputs whose shadows are `values`
    (dict name -> Fraction) inside a `Path`; it returns any result object.
  * after each run the taken path condition is blocked and z3 is asked for inputs (inside the
    domain) that take a different path, until the query is unsat (all feasible paths covered)
    or `max_paths` is hit (-> exhausted=False, which callers must treat as inconclusive).
"""
from __future__ import annotations

from fractions import Fraction

import z3

from .sreal import Path


def model_values(model, names, default=Fraction(0)):
    out = {}
    for n in names:
        v = model.eval(z3.Real(n), model_completion=True)
        try:
            out[n] = Fraction(v.numerator_as_long(), v.denominator_as_long())
        except Exception:
            # algebraic number: take a rational approximation
            try:
                out[n] = Fraction(v.approx(20).numerator_as_long(), v.approx(20).denominator_as_long())
            except Exception:
                out[n] = default
    return out


def model_bools(model, names):
    return {n: bool(z3.is_true(model.eval(z3.Bool(n), model_completion=True))) for n in names}


def explore(names, run_fn, domain=(), init=None, max_paths=64, bool_names=(), timeout_ms=20000, stats=None,
            cond_of=None, axioms_fn=None, init_from_solver=False):
    """cond_of(path, result) -> z3 formula of the path over INPUT symbols (default: path.condition());
    axioms_fn(list of formulas) -> ground facts about uninterpreted functions occurring in them"""
    """
    yields (path, result, values) for every feasible path; after exhaustion sets
    explore.last_exhausted.  `names` are real symbols, `bool_names` boolean symbols.
    """
    blocked = []
    seen = set()
    # one incremental solver: the domain once, then one blocking clause per covered path
    s = z3.Solver()
    s.set("timeout", timeout_ms)
    for d in domain:
        s.add(d)
    added_axioms = set()

    def add_axioms(formulas):
        if axioms_fn is None:
            return
        for a in axioms_fn(list(formulas)):
            if a.get_id() not in added_axioms:
                added_axioms.add(a.get_id())
                s.add(a)
    add_axioms(list(domain))
    exhausted = False
    divergences = 0
    results = []
    if init_from_solver:
        r = str(s.check())
        if stats is not None:
            stats[r] = stats.get(r, 0) + 1
        if r == "unsat":
            explore.last_exhausted = True
            return [], True          # empty domain: nothing to explore
        if r != "sat":
            explore.last_exhausted = False
            return [], False
        m = s.model()
        values = model_values(m, names)
        values.update(model_bools(m, bool_names))
    else:
        values = dict(init) if init is not None else {n: Fraction(1) for n in names}
        for n in bool_names:
            values.setdefault(n, False)
    while len(results) < max_paths:
        with Path() as p:
            res = run_fn(values)
        k = p.key()
        if k in seen:
            divergences += 1
            if divergences > 5:
                break
            # the shadow took a path already covered although the solver predicted otherwise
            # (possible only when uninterpreted LOG/EXP occur in conditions): block this model point
            pt = [z3.Real(n) == z3.RealVal(f"{v.numerator}/{v.denominator}") for n, v in values.items() if n in names]
            blocked.append(z3.Not(z3.And(*pt)) if pt else z3.BoolVal(False))
        else:
            seen.add(k)
            results.append((p, res, dict(values)))
            pc = p.condition() if cond_of is None else cond_of(p, res)
            blocked.append(z3.Not(pc))
        s.add(blocked[-1])
        add_axioms([blocked[-1]])
        r = str(s.check())
        if stats is not None:
            stats[r] = stats.get(r, 0) + 1
        if r == "unsat":
            exhausted = True
            break
        if r != "sat":
            break
        m = s.model()
        values = model_values(m, names)
        values.update(model_bools(m, bool_names))
    explore.last_exhausted = exhausted
    return results, exhausted


explore.last_exhausted = False
