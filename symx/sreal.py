"""
SReal / SBool: z3 terms with a concrete shadow value, living inside numpy object arrays so that
irispie's real numeric kernels run unmodified on them (engine SX of DESIGN.md, section 2.2).

* SReal wraps a z3 Real term `t` and a shadow `v` (Fraction where exact, float once LOG/EXP/SQRT
  are involved, None if no concrete value was supplied).
* Arithmetic with a float NaN returns float NaN (missing values stay concrete).
* Comparisons return SBool; `bool(SBool)` is a concolic branch: the shadow decides, and the
  branch condition is appended to the active path (see `Path`).
* LOG/EXP/SQRT are uninterpreted functions built through normalising smart constructors so that
  terms which are equal as real functions become equal modulo field arithmetic.
"""
from __future__ import annotations

import math
from fractions import Fraction

import numpy as np
import z3

R = z3.RealSort()
LOG = z3.Function("LOG", R, R)
EXP = z3.Function("EXP", R, R)
SQRT = z3.Function("SQRT", R, R)


ALLOW_FLOAT = [False]


class SymbolicBranchError(RuntimeError):
    """bool()/float() requested on a symbolic value that has no shadow / outside a Path"""


# ------------------------------------------------------------------------------------------
# concolic path recording
# ------------------------------------------------------------------------------------------

class Path:
    """Records the branch conditions taken during one concolic run."""
    current: "Path | None" = None

    def __init__(self, limit: int = 100000):
        self.conds: list[tuple[z3.BoolRef, bool]] = []
        self.limit = limit

    def __enter__(self):
        self._prev = Path.current
        Path.current = self
        return self

    def __exit__(self, *exc):
        Path.current = self._prev
        return False

    def record(self, term, taken: bool):
        if len(self.conds) >= self.limit:
            raise SymbolicBranchError("path length limit hit")
        self.conds.append((term, bool(taken)))

    def condition(self):
        """conjunction of the branch decisions taken on this path"""
        cs = [c if b else z3.Not(c) for c, b in self.conds]
        return z3.And(*cs) if cs else z3.BoolVal(True)

    def key(self):
        return tuple((c.get_id(), b) for c, b in self.conds)


# ------------------------------------------------------------------------------------------
# helpers on z3 terms
# ------------------------------------------------------------------------------------------

def rv(x) -> z3.ArithRef:
    if isinstance(x, Fraction):
        return z3.RealVal(f"{x.numerator}/{x.denominator}")
    if isinstance(x, (bool, np.bool_)):
        return z3.RealVal(1 if x else 0)
    if isinstance(x, (int, np.integer)):
        return z3.RealVal(int(x))
    if isinstance(x, (float, np.floating)):
        f = float_fraction(float(x))
        return z3.RealVal(f"{f.numerator}/{f.denominator}")
    raise TypeError(type(x))


def float_fraction(x: float) -> Fraction:
    """
    The real number a float constant denotes.  A float that is within 2^-50 (relative) of a rational with
    denominator <= 10^6 is read as that rational (1/12, 0.1, 1/3 are meant, not their binary roundings);
    every other float is read exactly.  Stated in every evidence file as part of 'reals, not floats'.
    """
    f = Fraction(x)
    g = f.limit_denominator(1000000)
    if g == f or abs(g - f) <= abs(f) * Fraction(1, 2 ** 50):
        return g
    return f


def _isnan(x) -> bool:
    return isinstance(x, (float, np.floating)) and math.isnan(x)


def _is_num(t) -> bool:
    return z3.is_rational_value(t) or z3.is_int_value(t)


def _numval(t) -> Fraction:
    return Fraction(t.numerator_as_long(), t.denominator_as_long())


def _summands(t):
    t = z3.simplify(t, som=True)
    return list(t.children()) if z3.is_add(t) else [t]


def _split_coeff(m):
    if _is_num(m):
        return _numval(m), []
    if z3.is_mul(m):
        c = Fraction(1)
        fs = []
        for ch in m.children():
            if _is_num(ch):
                c *= _numval(ch)
            else:
                fs.append(ch)
        return c, fs
    return Fraction(1), [m]


def _ipow(b, n: int):
    r = None
    for _ in range(abs(n)):
        r = b if r is None else r * b
    if r is None:
        return z3.RealVal(1)
    return r if n >= 0 else 1 / r


def _is_app_of(t, f) -> bool:
    return z3.is_app(t) and t.decl().eq(f)


def mk_exp(arg):
    """EXP with normalisation: EXP(a+b)=EXP a*EXP b, EXP(-a)=1/EXP a, EXP(n LOG u)=u^n, EXP(0)=1"""
    out = None

    def mul(o, x):
        return x if o is None else o * x

    den = None
    for m in _summands(arg):
        c, fs = _split_coeff(m)
        if not fs:
            if c != 0:
                # transcendental functions of numeric CONSTANTS are evaluated in floats (as the real code does)
                out = mul(out, rv(math.exp(float(c))))
            continue
        if len(fs) == 1 and _is_app_of(fs[0], LOG) and c.denominator == 1:
            n = int(c)
            if n >= 0:
                out = mul(out, _ipow(fs[0].arg(0), n))
            else:
                den = mul(den, _ipow(fs[0].arg(0), -n))
            continue
        body = fs[0]
        for f in fs[1:]:
            body = body * f
        if c.denominator == 1 and abs(c) <= 16:
            # EXP(n*b) = EXP(b)^n for integer n: one canonical atom EXP(b) per body
            atom = EXP(z3.simplify(body, som=True))
            if c < 0:
                den = mul(den, _ipow(atom, int(-c)))
            else:
                out = mul(out, _ipow(atom, int(c)))
        elif c < 0:
            den = mul(den, EXP(z3.simplify(rv(-c) * body, som=True)))
        else:
            out = mul(out, EXP(z3.simplify(rv(c) * body, som=True)))
    if out is None:
        out = z3.RealVal(1)
    if den is not None:
        out = out / den
    return out


def mk_log(arg):
    """LOG with normalisation: LOG(EXP a)=a, LOG(ab)=LOG a+LOG b, LOG(a/b)=LOG a-LOG b, LOG(a^n)=n LOG a"""
    a = z3.simplify(arg)
    if z3.is_add(a):
        a2 = z3.simplify(a, som=True)
        if not z3.is_add(a2):
            a = a2
    if _is_app_of(a, EXP):
        return a.arg(0)
    if _is_num(a):
        if _numval(a) == 1:
            return z3.RealVal(0)
        if _numval(a) > 0:
            return rv(math.log(float(_numval(a))))
        return LOG(a)
    if z3.is_mul(a):
        out = None
        for ch in a.children():
            term = mk_log(ch)
            out = term if out is None else out + term
        return out
    if z3.is_div(a):
        return mk_log(a.arg(0)) - mk_log(a.arg(1))
    if z3.is_app_of(a, z3.Z3_OP_POWER) and _is_num(a.arg(1)):
        return a.arg(1) * mk_log(a.arg(0))
    return LOG(a)


def renorm(t, _cache=None):
    """rebuild a term bottom-up through the normalising constructors (used after substituting definitions)"""
    cache = {} if _cache is None else _cache
    i = t.get_id()
    if i in cache:
        return cache[i]
    if not z3.is_app(t) or t.num_args() == 0:
        cache[i] = t
        return t
    kids = [renorm(c, cache) for c in t.children()]
    if t.decl().eq(LOG):
        r = mk_log(kids[0])
    elif t.decl().eq(EXP):
        r = mk_exp(kids[0])
    else:
        if all(k.eq(c) for k, c in zip(kids, t.children())):
            r = t
        else:
            r = t.decl()(*kids)
    cache[i] = r
    return r


def mk_sqrt(arg):
    a = z3.simplify(arg)
    return SQRT(a)


# ------------------------------------------------------------------------------------------
# SBool
# ------------------------------------------------------------------------------------------

class SBool:
    __slots__ = ("t", "v")

    def __init__(self, t, v):
        self.t = t
        self.v = v

    def __repr__(self):
        return f"SBool({self.t})"

    def __bool__(self):
        if self.v is None:
            raise SymbolicBranchError(f"branch on symbolic condition without shadow: {self.t}")
        p = Path.current
        if p is None:
            raise SymbolicBranchError(f"branch on symbolic condition outside a Path: {self.t}")
        p.record(self.t, self.v)
        return bool(self.v)

    @staticmethod
    def _lift(o):
        if isinstance(o, SBool):
            return o
        if isinstance(o, (bool, np.bool_)):
            return SBool(z3.BoolVal(bool(o)), bool(o))
        return None

    def __and__(self, o):
        o = SBool._lift(o)
        if o is None:
            return NotImplemented
        return SBool(z3.And(self.t, o.t), None if self.v is None or o.v is None else (self.v and o.v))
    __rand__ = __and__

    def __or__(self, o):
        o = SBool._lift(o)
        if o is None:
            return NotImplemented
        return SBool(z3.Or(self.t, o.t), None if self.v is None or o.v is None else (self.v or o.v))
    __ror__ = __or__

    def __xor__(self, o):
        o = SBool._lift(o)
        if o is None:
            return NotImplemented
        return SBool(z3.Xor(self.t, o.t), None if self.v is None or o.v is None else (self.v != o.v))
    __rxor__ = __xor__

    def __invert__(self):
        return SBool(z3.Not(self.t), None if self.v is None else (not self.v))

    def logical_not(self):
        return ~self

    def real(self) -> "SReal":
        return SReal(z3.If(self.t, z3.RealVal(1), z3.RealVal(0)),
                     None if self.v is None else Fraction(1 if self.v else 0))

    # arithmetic: behave like 0/1
    def __add__(self, o): return self.real() + (o.real() if isinstance(o, SBool) else o)
    def __radd__(self, o): return (o.real() if isinstance(o, SBool) else o) + self.real()
    def __sub__(self, o): return self.real() - (o.real() if isinstance(o, SBool) else o)
    def __rsub__(self, o): return (o.real() if isinstance(o, SBool) else o) - self.real()
    def __mul__(self, o): return self.real() * (o.real() if isinstance(o, SBool) else o)
    def __rmul__(self, o): return (o.real() if isinstance(o, SBool) else o) * self.real()
    def __neg__(self): return -self.real()

    def __eq__(self, o):
        if isinstance(o, SBool):
            return SBool(self.t == o.t, None if self.v is None or o.v is None else self.v == o.v)
        if isinstance(o, (bool, np.bool_)):
            return self if o else ~self
        return self.real() == o

    def __ne__(self, o):
        r = self.__eq__(o)
        return ~r if isinstance(r, SBool) else r

    def __lt__(self, o): return self.real() < (o.real() if isinstance(o, SBool) else o)
    def __le__(self, o): return self.real() <= (o.real() if isinstance(o, SBool) else o)
    def __gt__(self, o): return self.real() > (o.real() if isinstance(o, SBool) else o)
    def __ge__(self, o): return self.real() >= (o.real() if isinstance(o, SBool) else o)

    __hash__ = object.__hash__


# ------------------------------------------------------------------------------------------
# SReal
# ------------------------------------------------------------------------------------------

def _shadow_of(o):
    if isinstance(o, SReal):
        return o.v
    if isinstance(o, (bool, np.bool_)):
        return Fraction(int(o))
    if isinstance(o, (int, np.integer)):
        return Fraction(int(o))
    if isinstance(o, (float, np.floating)):
        f = float(o)
        return float_fraction(f) if math.isfinite(f) else f
    if isinstance(o, Fraction):
        return o
    raise TypeError(type(o))


def _term_of(o):
    if isinstance(o, SReal):
        return o.t
    if isinstance(o, SBool):
        return o.real().t
    return rv(o)


def _sh(f, *vs):
    """shadow arithmetic; a shadow that overflows / leaves the domain becomes None (unknown): branching on it
    later raises SymbolicBranchError instead of taking an arbitrary side"""
    if any(v is None for v in vs):
        return None
    try:
        r = f(*vs)
    except (ZeroDivisionError, ValueError, OverflowError, TypeError):
        return None
    if isinstance(r, float) and not math.isfinite(r):
        return None
    if isinstance(r, complex):
        return None
    return r


class SReal:
    __slots__ = ("t", "v")

    def __init__(self, t, v=None):
        self.t = t
        self.v = v

    def __repr__(self):
        return f"S({self.t})"

    __str__ = __repr__

    # -- generic binary --
    def _bin(self, o, ft, fv, swap=False, kind=None):
        if isinstance(o, SBool):
            o = o.real()
        if o is None or _isnan(o):
            # None stored in an object array plays the role NaN plays in a float array
            return float("nan")
        if isinstance(o, (float, np.floating)) and math.isinf(o) and kind in ("add", "sub", "div"):
            o = float(o)
            if kind == "add":
                return o
            if kind == "sub":
                return o if swap else -o
            if kind == "div" and not swap:
                return 0.0
        if isinstance(o, np.ndarray):
            return NotImplemented
        try:
            to = _term_of(o)
            vo = _shadow_of(o)
        except TypeError:
            return NotImplemented
        if not isinstance(o, SReal) and isinstance(vo, float) and not math.isfinite(vo):
            raise SymbolicBranchError("infinite concrete operand in symbolic arithmetic")
        if swap:
            return SReal(ft(to, self.t), _sh(fv, vo, self.v))
        return SReal(ft(self.t, to), _sh(fv, self.v, vo))

    def __add__(s, o): return s._bin(o, lambda a, b: a + b, lambda a, b: a + b, kind="add")
    def __radd__(s, o): return s._bin(o, lambda a, b: a + b, lambda a, b: a + b, True, kind="add")
    def __sub__(s, o): return s._bin(o, lambda a, b: a - b, lambda a, b: a - b, kind="sub")
    def __rsub__(s, o): return s._bin(o, lambda a, b: a - b, lambda a, b: a - b, True, kind="sub")
    def __mul__(s, o): return s._bin(o, lambda a, b: a * b, lambda a, b: a * b)
    def __rmul__(s, o): return s._bin(o, lambda a, b: a * b, lambda a, b: a * b, True)
    def __truediv__(s, o): return s._bin(o, lambda a, b: a / b, lambda a, b: a / b, kind="div")
    def __rtruediv__(s, o): return s._bin(o, lambda a, b: a / b, lambda a, b: a / b, True)
    def __neg__(s): return SReal(-s.t, _sh(lambda a: -a, s.v))
    def __pos__(s): return s

    def __abs__(s):
        return SReal(z3.If(s.t >= 0, s.t, -s.t), _sh(abs, s.v))

    def __pow__(s, o):
        if isinstance(o, SBool):
            o = o.real()
        if _isnan(o):
            return float("nan")
        if isinstance(o, (float, np.floating)) and float(o).is_integer():
            o = int(o)
        if isinstance(o, (int, np.integer)):
            n = int(o)
            return SReal(_ipow(s.t, n), _sh(lambda a: a ** n, s.v))
        if isinstance(o, np.ndarray):
            return NotImplemented
        # real or symbolic exponent: EXP(o * LOG s) on s > 0
        return (s.log() * o).exp()

    def __rpow__(s, o):
        # constant ** symbolic  ->  EXP(s * LOG(o))
        if _isnan(o):
            return float("nan")
        if isinstance(o, np.ndarray):
            return NotImplemented
        base = const(o)
        return (base.log() * s).exp()

    # -- transcendental --
    def log(s):
        def f(a):
            a = float(a)
            return math.log(a) if a > 0 else float("nan")
        return SReal(mk_log(s.t), _sh(f, s.v))

    def exp(s):
        return SReal(mk_exp(s.t), _sh(lambda a: math.exp(float(a)), s.v))

    def sqrt(s):
        def f(a):
            a = float(a)
            return math.sqrt(a) if a >= 0 else float("nan")
        return SReal(mk_sqrt(s.t), _sh(f, s.v))

    # -- comparisons --
    def _cmp(self, o, ft, fv):
        if isinstance(o, SBool):
            o = o.real()
        if isinstance(o, np.ndarray):
            return NotImplemented
        if _isnan(o):
            return False
        try:
            to = _term_of(o)
            vo = _shadow_of(o)
        except TypeError:
            return NotImplemented
        if isinstance(vo, float) and not math.isfinite(vo):
            return SBool(z3.BoolVal(bool(fv(0, vo))), bool(fv(0, vo)))
        return SBool(ft(self.t, to), _sh(fv, self.v, vo))

    def __lt__(s, o): return s._cmp(o, lambda a, b: a < b, lambda a, b: a < b)
    def __le__(s, o): return s._cmp(o, lambda a, b: a <= b, lambda a, b: a <= b)
    def __gt__(s, o): return s._cmp(o, lambda a, b: a > b, lambda a, b: a > b)
    def __ge__(s, o): return s._cmp(o, lambda a, b: a >= b, lambda a, b: a >= b)

    def __eq__(s, o):
        if o is None or isinstance(o, str):
            return False
        r = s._cmp(o, lambda a, b: a == b, lambda a, b: a == b)
        return False if r is NotImplemented else r

    def __ne__(s, o):
        if o is None or isinstance(o, str):
            return True
        r = s._cmp(o, lambda a, b: a != b, lambda a, b: a != b)
        return True if r is NotImplemented else r

    __hash__ = object.__hash__

    def __bool__(s):
        return bool(s != 0)

    def __float__(s):
        if ALLOW_FLOAT[0] and s.v is not None:
            return float(s.v)        # API glue (e.g. building an info dict) may read the shadow; kernels never do
        raise SymbolicBranchError(f"float() on symbolic value {str(s.t)[:80]}")

    def __int__(s):
        raise SymbolicBranchError(f"int() on symbolic value {str(s.t)[:80]}")

    __index__ = __int__

    # numpy calls these on object arrays for np.conj / .real etc.
    def conjugate(s): return s
    @property
    def real(s): return s
    @property
    def imag(s): return 0


def const(x) -> SReal:
    if isinstance(x, SReal):
        return x
    return SReal(rv(x), _shadow_of(x))


_counter = [0]


def sym(name: str, value=None) -> SReal:
    """fresh symbolic real; `value` is the concolic shadow (Fraction/int/float)"""
    v = None if value is None else _shadow_of(value)
    return SReal(z3.Real(name), v)


def fresh(prefix: str, value=None) -> SReal:
    _counter[0] += 1
    return sym(f"{prefix}!{_counter[0]}", value)


def bsym(name: str, value=None) -> SBool:
    return SBool(z3.Bool(name), None if value is None else bool(value))


def is_sym(x) -> bool:
    return isinstance(x, (SReal, SBool))


def term(x):
    """z3 term of a number / SReal (NaN -> None)"""
    if isinstance(x, SReal):
        return x.t
    if isinstance(x, SBool):
        return x.real().t
    if x is None or _isnan(x):
        return None
    return rv(x)


# ------------------------------------------------------------------------------------------
# arrays
# ------------------------------------------------------------------------------------------

def lift_array(data, prefix: str, shadow=None, names=None, where=None):
    """
    object array with one fresh symbol per non-NaN cell of the float array `data`.
    `names[i]` labels row i; `shadow` (same shape) supplies concolic values (default: the float
    value of the cell); `where` (bool array) restricts lifting to selected cells.
    Returns (object array, dict name -> (index, SReal)).
    """
    data = np.asarray(data)
    out = np.empty(data.shape, dtype=object)
    symbols = {}
    for idx in np.ndindex(*data.shape):
        x = data[idx]
        if isinstance(x, (SReal, SBool)):
            out[idx] = x
            continue
        x = float(x)
        if math.isnan(x):
            out[idx] = float("nan")
            continue
        if where is not None and not where[idx]:
            out[idx] = x
            continue
        row = names[idx[0]] if names is not None else str(idx[0])
        name = f"{prefix}{row}__" + "_".join(str(i) for i in idx[1:])
        sv = x if shadow is None else shadow[idx]
        s = sym(name, sv)
        out[idx] = s
        symbols[name] = (idx, s)
    return out, symbols


def terms_of(arr):
    """object array -> same-shape object array of z3 terms (None for NaN)"""
    arr = np.asarray(arr, dtype=object)
    out = np.empty(arr.shape, dtype=object)
    for idx in np.ndindex(*arr.shape):
        out[idx] = term(arr[idx])
    return out


def has_symbol(arr) -> bool:
    arr = np.asarray(arr, dtype=object)
    return any(isinstance(x, (SReal, SBool)) for x in arr.flat)


def shadow_float(arr):
    """object array -> float array of shadows"""
    arr = np.asarray(arr, dtype=object)
    out = np.empty(arr.shape, dtype=float)
    for idx in np.ndindex(*arr.shape):
        x = arr[idx]
        if isinstance(x, SReal):
            out[idx] = float("nan") if x.v is None else float(x.v)
        elif isinstance(x, SBool):
            out[idx] = float("nan") if x.v is None else float(x.v)
        elif x is None:
            out[idx] = float("nan")
        else:
            out[idx] = float(x)
    return out
