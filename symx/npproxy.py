"""
`_np` proxy: a module object installed as the numpy alias of the irispie modules under analysis.
Forwards everything to numpy except the few entry points that cannot act on object arrays of
SReal/SBool (DESIGN.md section 2.2 item 2). On plain float input every function behaves exactly
like numpy (validated by `selftest()` on every run).
"""
from __future__ import annotations

import math
import types

import numpy as _real

from .sreal import SReal, SBool, const

_SYM = (SReal, SBool)


def _as_obj(a):
    arr = _real.asarray(a)
    return arr


def _unwrap(out):
    return out if out.shape else out[()]


def _elementwise(name, mathf):
    realf = getattr(_real, name)

    def f(a, *args, **kw):
        if isinstance(a, _SYM):
            return getattr(a, name)()
        arr = _real.asarray(a)
        if arr.dtype != object:
            return realf(a, *args, **kw)
        out = _real.empty(arr.shape, dtype=object)
        for idx in _real.ndindex(*arr.shape):
            v = arr[idx]
            if isinstance(v, SBool):
                v = v.real()
            out[idx] = getattr(v, name)() if isinstance(v, SReal) else mathf(v)
        return _unwrap(out)
    f.__name__ = name
    return f


def _safe(f):
    def g(v):
        if v is None:
            return float("nan")
        try:
            return f(float(v))
        except (ValueError, OverflowError):
            return float("nan")
    return g


def _isnan(a, *args, **kw):
    if isinstance(a, _SYM):
        return _real.bool_(False)
    arr = _real.asarray(a)
    if arr.dtype != object:
        return _real.isnan(a, *args, **kw)
    out = _real.zeros(arr.shape, dtype=bool)
    for idx in _real.ndindex(*arr.shape):
        v = arr[idx]
        out[idx] = (v is None) or ((not isinstance(v, _SYM)) and math.isnan(v))
    return out if out.shape else _real.bool_(out[()])


def _isfinite(a, *args, **kw):
    if isinstance(a, _SYM):
        return _real.bool_(True)
    arr = _real.asarray(a)
    if arr.dtype != object:
        return _real.isfinite(a, *args, **kw)
    out = _real.zeros(arr.shape, dtype=bool)
    for idx in _real.ndindex(*arr.shape):
        v = arr[idx]
        out[idx] = isinstance(v, _SYM) or (v is not None and math.isfinite(v))
    return out if out.shape else _real.bool_(out[()])


def _isinf(a, *args, **kw):
    if isinstance(a, _SYM):
        return _real.bool_(False)
    arr = _real.asarray(a)
    if arr.dtype != object:
        return _real.isinf(a, *args, **kw)
    out = _real.zeros(arr.shape, dtype=bool)
    for idx in _real.ndindex(*arr.shape):
        v = arr[idx]
        out[idx] = (not isinstance(v, _SYM)) and v is not None and math.isinf(v)
    return out if out.shape else _real.bool_(out[()])


def _abs(a, *args, **kw):
    if isinstance(a, _SYM):
        return abs(a)
    arr = _real.asarray(a)
    if arr.dtype != object:
        return _real.abs(a, *args, **kw)
    out = _real.empty(arr.shape, dtype=object)
    for idx in _real.ndindex(*arr.shape):
        v = arr[idx]
        out[idx] = float("nan") if v is None else abs(v)
    return _unwrap(out)


def _minmax(name):
    realf = getattr(_real, name)
    import z3
    pick_first = (lambda a, b: a >= b) if name == "maximum" else (lambda a, b: a <= b)

    def one(x, y):
        xs, ys = isinstance(x, _SYM), isinstance(y, _SYM)
        if not xs and not ys:
            return realf(x, y)
        if (not xs and isinstance(x, float) and math.isnan(x)) or (not ys and isinstance(y, float) and math.isnan(y)):
            return float("nan")
        x, y = const(x.real() if isinstance(x, SBool) else x), const(y.real() if isinstance(y, SBool) else y)
        cond = pick_first(x.t, y.t)
        v = None if x.v is None or y.v is None else (x.v if pick_first(x.v, y.v) else y.v)
        return SReal(z3.If(cond, x.t, y.t), v)

    def f(a, b, *args, **kw):
        aa, bb = _real.asarray(a), _real.asarray(b)
        if aa.dtype != object and bb.dtype != object:
            return realf(a, b, *args, **kw)
        aa, bb = _real.broadcast_arrays(aa.astype(object), bb.astype(object))
        out = _real.empty(aa.shape, dtype=object)
        for idx in _real.ndindex(*aa.shape):
            out[idx] = one(aa[idx], bb[idx])
        return _unwrap(out)
    f.__name__ = name
    return f


def _objalloc(name):
    realf = getattr(_real, name)

    def f(*args, **kw):
        # positional dtype: zeros(shape, dtype), full(shape, fill, dtype)
        pos_dtype_at = 2 if name == "full" else 1
        if len(args) > pos_dtype_at:
            args = list(args)
            if args[pos_dtype_at] in (float, _real.float64, None):
                args[pos_dtype_at] = object
            out = realf(*args, **kw)
        else:
            if kw.get("dtype", None) in (float, _real.float64, None):
                kw["dtype"] = object
            out = realf(*args, **kw)
        if out.dtype == object and name == "full":
            for idx in _real.ndindex(*out.shape):
                if out[idx] is None:
                    out[idx] = float("nan")
        return out
    f.__name__ = name
    return f


def _like(name):
    realf = getattr(_real, name)

    def f(a, *args, **kw):
        if kw.get("dtype", None) in (float, _real.float64):
            kw["dtype"] = object
        return realf(a, *args, **kw)
    return f


def _array(obj, *args, **kw):
    """numpy.array that keeps symbolic entries: a float array is requested but an entry is symbolic -> object array (None -> NaN)"""
    dt = kw.get("dtype", args[0] if args else None)
    if dt in (float, _real.float64):
        probe = _real.asarray(obj, dtype=object)
        if any(isinstance(x, _SYM) for x in probe.flat):
            out = _real.empty(probe.shape, dtype=object)
            for idx in _real.ndindex(*probe.shape):
                v = probe[idx]
                out[idx] = float("nan") if v is None else v
            return out
    return _real.array(obj, *args, **kw)


class Proxy(types.ModuleType):
    """numpy stand-in; attribute lookups not overridden here fall through to numpy"""

    def __init__(self, name="npproxy", object_alloc=True, overrides=None, linalg=None):
        super().__init__(name)
        d = self.__dict__
        d["isnan"] = _isnan
        d["isfinite"] = _isfinite
        d["isinf"] = _isinf
        d["log"] = _elementwise("log", _safe(lambda v: math.log(v) if v > 0 else (float("-inf") if v == 0 else float("nan"))))
        d["exp"] = _elementwise("exp", _safe(math.exp))
        d["sqrt"] = _elementwise("sqrt", _safe(math.sqrt))
        d["abs"] = _abs
        d["absolute"] = _abs
        d["maximum"] = _minmax("maximum")
        d["minimum"] = _minmax("minimum")
        d["array"] = _array
        if object_alloc:
            for n in ("full", "zeros", "ones", "empty"):
                d[n] = _objalloc(n)
            for n in ("zeros_like", "ones_like", "empty_like", "full_like"):
                d[n] = _like(n)
        if linalg is not None:
            d["linalg"] = linalg
        if overrides:
            d.update(overrides)

    def __getattr__(self, name):
        return getattr(_real, name)


class SubProxy(types.ModuleType):
    """stand-in for numpy.linalg / scipy.linalg with selected overrides"""

    def __init__(self, realmod, overrides):
        super().__init__("sub_" + realmod.__name__)
        self.__dict__["_realmod"] = realmod
        self.__dict__.update(overrides)

    def __getattr__(self, name):
        return getattr(self.__dict__["_realmod"], name)


_ALIASES = ("_np", "np_", "np", "_numpy")


class installed:
    """context manager: install `proxy` as the numpy alias of the given modules"""

    def __init__(self, proxy, *modules, extra=None):
        self.proxy = proxy
        self.modules = modules
        self.saved = []
        self.extra = extra or []   # list of (module, attr, replacement)

    def __enter__(self):
        for m in self.modules:
            hit = False
            for attr in _ALIASES:
                if getattr(m, attr, None) is _real:
                    self.saved.append((m, attr, _real))
                    setattr(m, attr, self.proxy)
                    hit = True
            if not hit:
                raise RuntimeError(f"module {m.__name__} has no numpy alias to proxy")
        for m, attr, repl in self.extra:
            self.saved.append((m, attr, getattr(m, attr)))
            setattr(m, attr, repl)
        return self

    def __exit__(self, *exc):
        for m, attr, old in reversed(self.saved):
            setattr(m, attr, old)
        self.saved = []
        return False


def install(proxy, *modules):
    ctx = installed(proxy, *modules)
    ctx.__enter__()
    return ctx


def selftest():
    """the proxy must agree with numpy on plain float input"""
    p = Proxy()
    rng = _real.random.default_rng(0)
    a = rng.standard_normal((3, 4))
    a[1, 2] = _real.nan
    b = rng.standard_normal((3, 4))
    n = 0
    for f in ("isnan", "isfinite", "isinf", "exp", "abs"):
        assert _real.array_equal(getattr(p, f)(a), getattr(_real, f)(a), equal_nan=True), f
        n += 1
    with _real.errstate(all="ignore"):
        for f in ("log", "sqrt"):
            assert _real.array_equal(getattr(p, f)(a), getattr(_real, f)(a), equal_nan=True), f
            n += 1
    for f in ("maximum", "minimum"):
        assert _real.array_equal(getattr(p, f)(a, b), getattr(_real, f)(a, b), equal_nan=True), f
        n += 1
    # object arrays holding plain floats
    ao = a.astype(object)
    assert _real.array_equal(p.isnan(ao), _real.isnan(a))
    assert _real.array_equal(p.isfinite(ao), _real.isfinite(a))
    with _real.errstate(all="ignore"):
        assert _real.allclose(p.exp(ao).astype(float), _real.exp(a), equal_nan=True)
        assert _real.allclose(p.log(_real.abs(a).astype(object)).astype(float), _real.log(_real.abs(a)), equal_nan=True)
    assert _real.allclose(p.maximum(ao, b).astype(float), _real.maximum(a, b), equal_nan=True)
    n += 5
    z = p.zeros((2, 3))
    assert z.dtype == object and all(x == 0 for x in z.flat)
    assert p.zeros((2,), dtype=int).dtype == int
    assert p.full((2,), None)[0] != p.full((2,), None)[0]  # NaN
    n += 3
    return n


def adaptations_patch(proxy):
    """`extra` entry for `installed`: the functions offered in model equations (aldi.adaptations: log, exp, sqrt, maximum, minimum,
    abs, logistic) dispatch to numpy for plain arrays; on object arrays holding symbols they must go through the proxy"""
    from irispie.aldi import adaptations as adp
    from .gmath import EXPIT

    def expit(x, *a, **k):
        arr = _real.asarray(x, dtype=object)
        out = _real.empty(arr.shape, dtype=object)
        for idx in _real.ndindex(*arr.shape):
            out[idx] = EXPIT(arr[idx])
        return out if out.shape else out[()]

    def wrap(name, f):
        realf = adp._ELEMENTWISE_FUNCTIONS[name]

        def g(x, *a, **k):
            arr = _real.asarray(x)
            if arr.dtype == object or isinstance(x, _SYM) or any(isinstance(y, _SYM) for y in a):
                return f(x, *a, **k)
            return realf(x, *a, **k)
        return g
    table = dict(adp._ELEMENTWISE_FUNCTIONS)
    for name, f in (("log", proxy.log), ("exp", proxy.exp), ("sqrt", proxy.sqrt), ("abs", proxy.abs), ("maximum", proxy.maximum),
                    ("minimum", proxy.minimum), ("logistic", expit)):
        table[name] = wrap(name, f)
    return (adp, "_ELEMENTWISE_FUNCTIONS", table)
