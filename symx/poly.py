"""
Polynomial view of z3 real terms, used to build LINEAR RELAXATIONS of tolerance queries over a box:
every non-linear monomial is replaced by a fresh variable ranging over the interval the monomial can take on the
box (|x| <= 1  =>  |x*y| <= 1, 0 <= x*x <= 1).  The relaxed query has MORE models than the original, so `unsat` of the
relaxation (decided by z3, QF_LRA) proves the original claim; a `sat` of the relaxation proves nothing and the caller
falls back to the exact non-linear query.
"""
from __future__ import annotations

from fractions import Fraction

import z3


class NotPolynomial(Exception):
    pass


def _num(t):
    if z3.is_rational_value(t) or z3.is_int_value(t):
        return Fraction(t.numerator_as_long(), t.denominator_as_long())
    return None


def _padd(a, b, sign=1):
    out = dict(a)
    for m, c in b.items():
        v = out.get(m, 0) + sign * c
        if v == 0:
            out.pop(m, None)
        else:
            out[m] = v
    return out


def _pmul(a, b):
    out = {}
    for m1, c1 in a.items():
        for m2, c2 in b.items():
            m = tuple(sorted(m1 + m2))
            v = out.get(m, 0) + c1 * c2
            if v == 0:
                out.pop(m, None)
            else:
                out[m] = v
    return out


def to_poly(t, opaque=None, _cache=None):
    """{monomial (sorted tuple of variable names): Fraction}.  Applications that are not arithmetic become opaque variables
    (recorded in `opaque`: name -> term)."""
    cache = {} if _cache is None else _cache
    i = t.get_id()
    if i in cache:
        return cache[i]
    n = _num(t)
    if n is not None:
        r = {(): n} if n != 0 else {}
    elif z3.is_const(t):
        r = {(t.decl().name(),): Fraction(1)}
    elif z3.is_add(t):
        r = {}
        for ch in t.children():
            r = _padd(r, to_poly(ch, opaque, cache))
    elif z3.is_sub(t):
        ch = t.children()
        r = to_poly(ch[0], opaque, cache)
        for c in ch[1:]:
            r = _padd(r, to_poly(c, opaque, cache), -1)
    elif z3.is_mul(t):
        r = {(): Fraction(1)}
        for ch in t.children():
            r = _pmul(r, to_poly(ch, opaque, cache))
    elif z3.is_app_of(t, z3.Z3_OP_UMINUS):
        r = {m: -c for m, c in to_poly(t.arg(0), opaque, cache).items()}
    elif z3.is_div(t):
        den = to_poly(t.arg(1), opaque, cache)
        if set(den) - {()} or not den:
            raise NotPolynomial("division by a non-constant")
        r = {m: c / den[()] for m, c in to_poly(t.arg(0), opaque, cache).items()}
    elif z3.is_app_of(t, z3.Z3_OP_POWER):
        e = _num(t.arg(1))
        if e is None or e.denominator != 1 or e < 0:
            raise NotPolynomial("non-integer power")
        base = to_poly(t.arg(0), opaque, cache)
        r = {(): Fraction(1)}
        for _ in range(int(e)):
            r = _pmul(r, base)
    elif z3.is_app(t) and opaque is not None:
        name = "opaque!" + str(t.get_id())
        opaque[name] = t
        r = {(name,): Fraction(1)}
    else:
        raise NotPolynomial(str(t.decl()))
    cache[i] = r
    return r


def _rv(fr):
    return z3.RealVal(f"{fr.numerator}/{fr.denominator}")


def relax_on_unit_box(poly, prefix="mono"):
    """linear term + constraints for the relaxation of `poly` on the box |x| <= 1 for every variable"""
    lin = _rv(Fraction(0))
    cons = []
    aux = {}
    for m, c in poly.items():
        if len(m) == 0:
            lin = lin + _rv(c)
        elif len(m) == 1:
            lin = lin + _rv(c) * z3.Real(m[0])
        else:
            if m not in aux:
                v = z3.Real(f"{prefix}!{'*'.join(m)}")
                aux[m] = v
                even = all(m.count(x) % 2 == 0 for x in set(m))
                cons.append(v <= 1)
                cons.append(v >= (0 if even else -1))
            lin = lin + _rv(c) * aux[m]
    return lin, cons
